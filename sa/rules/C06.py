"""C06 A successful immutable upload meets servers-of-happiness.

Decided: the success exits of server selection and of every share-holder
removal carry the happiness comparison on the layout that is actually used;
the threshold reaches both comparisons from the encoding parameters; failure
paths abort what was allocated; every remote write of the Encoder is wired to
_remove_shareholder and a failure reaches Encoder.err; the share-holder proxy (WriteBucketProxy) hands the
outcome of every remote write to that wiring and closes a share only after its last write succeeded;
every write Deferred of a push stage is gathered; the set of placed shares that the UploadResults report is read
from the surviving landlords only after the last stage was answered; the share holders and the servermap handed to
the Encoder agree (no share number held by two trackers) (DESIGN.md section 5, C06)."""
from sa.h import *

EXPLANATION = (
    "Decided (structural, all paths): (1) Tahoe2ServerSelector.get_shareholders reaches its success return only "
    "with threshold <= H on that path, H = servers_of_happiness(merge_servers(P, self.use_trackers)) computed with "
    "no later yield or mutation of use_trackers, the threshold being the min_happiness parameter, and the returned "
    "pair is (self.use_trackers, P) - the layout evaluated is the layout returned; the unhappy edge always reaches "
    "_failed; (2) the threshold is the 'happy' encoding parameter: positional agreement from the parameter tuple "
    "through Encoder.min_happiness and get_param('share_counts') to the min_happiness argument; (3) _failed aborts "
    "every tracker of use_trackers and never returns, ServerTracker.abort reaches abort() of every bucket "
    "(abort_some_buckets visits every requested share number and skips the abort only on 'n not in self.buckets'), "
    "the proxy relays callRemote('abort'); (4) every Deferred of a remote call on self.landlords[i] in Encoder gets "
    "addErrback(self._remove_shareholder, i, ..) as its first failure handler on every path before it escapes; "
    "(5) _remove_shareholder aborts and forgets the landlord (landlords and servermap) and returns normally only "
    "with self.min_happiness <= servers_of_happiness(self.servermap) recomputed after the removal; (6) "
    "_gather_responses propagates the first failure (DeferredList fireOnOneErrback, eater added afterwards), every "
    "push stage returns the gathered Deferred, Encoder.start runs all stages, close last, and ends with "
    "addCallbacks(done, err) with no earlier failure handler; (7) Encoder.err aborts every remaining landlord and "
    "returns a failure; "
    "(8) in WriteBucketProxy (the object behind self.landlords[i]) the Deferred of every remote call made by "
    "put_*/close and their helpers (callRemote, effectful self-calls, callbacks with a remote call) is part of the "
    "Deferred returned to the Encoder on every path, and no errback/addBoth/plain DeferredList on the way replaces "
    "its failure, so that (4) really observes a failed write; (9) WriteBucketProxy.close flushes the buffered tail "
    "unless no bytes are queued and sends callRemote('close') only from a success callback of (or after awaiting) "
    "the Deferred of that final write, so a share is finalised and counted only when complete; "
    "(10) in every push stage the Deferred of each remote call on a landlord (made in the stage or by a send_* "
    "helper) is, on every path, an element of the list handed to self._gather_responses (list not re-bound or "
    "emptied in between), so that the stage waits for it and the UploadUnhappinessError of (5) is observed by (6). "
    "(11) the placed-share set is a copy/filter of self.landlords (nothing merged in) taken at completion: "
    "Encoder._shares_placed is bound from self.landlords only in done() - the success end of the chain of (6) - or in "
    "a method referenced only from there; a binding in code that can run before the close stage was answered must be "
    "an empty value or a live view (self.landlords / .keys()); get_shares_placed returns that attribute (or computes "
    "the copy on demand); CHKUploader.start_encrypted builds the results (_encrypted_done, no other caller) only "
    "after awaiting self._encoder.start() / as its success callback; every entry _encrypted_done puts into the "
    "sharemap / servermap of UploadResults lies in a loop over self._encoder.get_shares_placed(), is keyed by that "
    "share number (sharemap) resp. holds it (servermap), and names the server of self._server_trackers[<share>]. "
    "(12) CHKUploader.set_shareholders merges the trackers' buckets into one dictionary per share number (a share two "
    "trackers hold keeps only the later writer) while the servermap gets every tracker's server: the hand-over "
    "encoder.set_shareholders(landlords, servermap) is reached only after a test that fails for such a duplicate - "
    "an (in)equality between len(<mapping merged per share number>) and a count taken tracker by tracker (sum of "
    "len(t.buckets), a counter or list filled in the tracker loop), with no merge afterwards, or a 'share not in "
    "<merged mapping>' test passed in every round before the server is counted - and each servermap entry names "
    "t.get_serverid() only for a share number iterated from t.buckets of the same tracker t. "
    "Undecided: the value computed by servers_of_happiness (C08), server-side deletion on abort (C22), "
    "interleavings of responses, the byte accounting of _WriteBuffer (that 'queued bytes == 0' really means "
    "everything was sent) and the offset/length preconditions of put_*/close that make the written bytes add up to a "
    "complete share, that the landlords/servermap CHKUploader.set_shareholders hands to the Encoder equal the "
    "layout get_shareholders evaluated beyond (12) (other forms of duplicate detection are reported as not modelled "
    "or as a missing test), which "
    "configuration value (per-upload or default 'happy') ends up in the parameter tuple, that every "
    "allocate_buckets response has arrived before the final evaluation (the layout only grows afterwards; late "
    "allocations would merely leak until disconnect), proxies other than WriteBucketProxy and its subclasses, "
    "that CHKUploader.set_shareholders maps _server_trackers[shnum] to the tracker whose bucket became "
    "landlords[shnum] (value level), in-place growth of _shares_placed (add/update: reported as not modelled), the "
    "pushed_shares / preexisting_shares counters of the results.")
TECHNIQUE = "static analysis: CFG x typestate monitor for the happiness gate, Deferred-chain discipline, positional agreement"

SEL = "immutable.upload:Tahoe2ServerSelector"
CHK = "immutable.upload:CHKUploader"
TRK = "immutable.upload:ServerTracker"
ENC = "immutable.encode:Encoder"

MUTATORS = {"add", "remove", "discard", "pop", "popitem", "clear", "update", "append", "extend", "insert",
            "setdefault", "difference_update", "intersection_update", "symmetric_difference_update", "__setitem__",
            "__delitem__"}
REMOTE_WRITES = ("put_header", "put_block", "put_crypttext_hashes", "put_block_hashes", "put_share_hashes",
                 "put_uri_extension", "close")
LOCAL_LANDLORD_CALLS = {"abort", "get_peerid", "get_servername", "get_allocated_size"}
STAGES = ("start_all_shareholders", "_send_segment", "send_crypttext_hash_tree_to_all_shareholders",
          "send_all_block_hash_trees", "send_all_share_hash_trees", "send_uri_extension_to_all_shareholders",
          "close_all_shareholders")
RAW = Normaliser(Env(None, depth=0))


# ------------------------------------------------------------------ helpers
def base_path(e):
    """Leading attribute path of a receiver: self.servermap[i].remove -> self.servermap."""
    while e is not None:
        if isinstance(e, ast.Subscript):
            e = e.value
        elif isinstance(e, ast.Call):
            e = e.func
        elif isinstance(e, ast.Attribute):
            p = attr_path(e)
            if p:
                return p
            e = e.value
        elif isinstance(e, ast.Name):
            return e.id
        else:
            return None
    return None


def mutates(path):
    """Node predicate: the node re-binds `path`, stores/deletes an item of it or calls a mutating method on it."""
    def p(n):
        st = node_stores(n)
        if path in st or (path + "[]") in st:
            return True
        for c in node_calls(n):
            if isinstance(c.func, ast.Attribute) and c.func.attr in MUTATORS:
                b = base_path(c.func.value)
                if b is not None and (b == path or b.startswith(path + ".")):
                    return True
        return False
    return p


def suspends(n):
    return any(isinstance(x, (ast.Yield, ast.YieldFrom, ast.Await)) for e in node_exprs(n) for x in own_nodes(e))


def infeasible(n, lab):
    """`while True:` has no false edge."""
    return n.kind == "test" and isinstance(lab, tuple) and isinstance(n.ast, ast.Constant) \
        and bool(n.ast.value) != (lab[0] == "T")


def must_pass(cfg, start, first_edge, gate, end, follow_raise=False):
    """Paths leaving `start` by an edge satisfying first_edge that reach a node satisfying `end`
    without leaving a node satisfying `gate`.  Exceptional edges are not followed, except (with
    follow_raise) the edge out of an explicit `raise` statement."""
    def tr(n, lab, nxt, st):
        if st == 0:
            return 1 if (n is start and first_edge(lab)) else None
        if infeasible(n, lab) or gate(n):
            return None
        if lab == "exc" and not (follow_raise and is_raise(n)):
            return None
        return 1
    visited, parent = explore(cfg, 0, tr, start=start)
    out = []
    for (nid, st) in sorted(visited):
        if st == 1 and end(cfg.nodes[nid]):
            out.append(witness(cfg, parent, (nid, st)))
    return out


def reaches_exit_avoiding(cfg, gate):
    """Witnesses of entry -> normal exit paths that never leave a node satisfying gate."""
    def tr(n, lab, nxt, st):
        if lab == "exc" or infeasible(n, lab) or (n.kind not in ("entry", "exit", "raise") and gate(n)):
            return None
        return 0
    visited, parent = explore(cfg, 0, tr)
    return [witness(cfg, parent, (nid, st)) for (nid, st) in sorted(visited) if cfg.nodes[nid].kind == "exit"]


def reads(e, path):
    """The expression reads `path` (or an attribute / method of it)."""
    return any(l == path or l.startswith(path + ".") for l in leaves(e))


def loops_over(fn, path):
    """ast.For statements of fn whose iterable reads `path`, with a Name target."""
    return [x for x in func_own_nodes(fn) if isinstance(x, ast.For) and isinstance(x.target, ast.Name)
            and reads(x.iter, path)]


def neg_const(v):
    return isinstance(v, ast.UnaryOp) and isinstance(v.op, ast.USub) and isinstance(v.operand, ast.Constant) \
        and isinstance(v.operand.value, (int, float))


class HappinessGate:
    """Typestate monitor.  A local is 'H-valid' on a path when its last assignment is
    servers_of_happiness(S) with S the trusted layout (directly, or a local that is 'M-valid':
    merge_servers(P, trackers)) and no kill node (mutation of the layout, suspension) came after.
    A negative literal is H-valid too (a lower bound of every happiness value: the loop sentinel).
    `ok` is set on an edge whose fact is  threshold <= (H-valid local or inline H expression)."""

    def __init__(self, fn, thresholds, direct_source=None, merge_trackers=None, kill=None):
        self.fn = fn
        self.cfg = fn.cfg()
        self.fnorm = FlowNorm(fn)
        self.thresholds = set(thresholds)
        self.direct = direct_source
        self.trackers = merge_trackers
        self.kill = kill or (lambda n: False)
        self.merge_firsts = {}     # normal form of P -> call node
        self.gate_edges = []       # (test node, label) of accepted gate edges
        self.unhappy_edges = []    # (test node, label) of the complementary edges

    def _merge_ok(self, n, c):
        if not (isinstance(c, ast.Call) and call_tail(c) == "merge_servers" and self.trackers):
            return False
        a1 = arg(c, 1, "upload_trackers")
        a0 = arg(c, 0, "servermap")
        if a0 is None or a1 is None or attr_path(a1) != self.trackers:
            return False
        self.merge_firsts.setdefault(self.fnorm.norm(n, a0), c)
        return True

    def classify(self, n, v, vm):
        if neg_const(v):
            return "h"
        if isinstance(v, ast.Call) and call_tail(v) == "servers_of_happiness" and len(v.args) == 1 and not v.keywords:
            a = v.args[0]
            if isinstance(a, ast.Name) and a.id not in vm:
                a = self.fnorm.resolve(n, a)
            if self.direct and attr_path(a) == self.direct:
                return "h"
            if isinstance(a, ast.Name) and a.id in vm:
                return "h"
            if self._merge_ok(n, a):
                return "h"
            return None
        if self._merge_ok(n, v):
            return "m"
        return None

    def transfer(self, n, lab, nxt, st):
        if infeasible(n, lab):
            return None
        vm, vh, ok = st
        if n.kind in ("entry", "exit", "raise"):
            return st
        if n.kind != "test" and self.kill(n):
            vm, vh, ok = frozenset(), frozenset(), False
        if n.kind == "stmt" and lab != "exc":
            a = n.ast
            tgt = val = None
            if isinstance(a, ast.Assign) and len(a.targets) == 1 and isinstance(a.targets[0], ast.Name):
                tgt, val = a.targets[0].id, a.value
            elif isinstance(a, ast.AnnAssign) and isinstance(a.target, ast.Name) and a.value is not None:
                tgt, val = a.target.id, a.value
            names = {s for s in node_stores(n) if "." not in s and not s.endswith("[]")}
            if names:
                vm, vh = vm - names, vh - names
            if tgt is not None:
                k = self.classify(n, val, vm)
                if k == "m":
                    vm = vm | {tgt}
                elif k == "h":
                    vh = vh | {tgt}
        elif n.kind in ("iter", "with", "except"):
            names = {s for s in node_stores(n) if "." not in s}
            vm, vh = vm - names, vh - names
        elif n.kind == "test" and isinstance(lab, tuple):
            raw = RAW.cmp(n.ast, lab[0] == "T")
            flow = self.fnorm.edge_fact(n, lab)
            if raw and flow and isinstance(n.ast, ast.Compare) and len(n.ast.ops) == 1:
                inline = {RAW.norm(s) for s in (n.ast.left, n.ast.comparators[0]) if self.classify(n, s, vm) == "h"
                          and not neg_const(s)}
                op, l, rr = raw
                if op == "<=" and flow[1] in self.thresholds and (rr in vh or rr in inline):
                    ok = True
                    if (n, lab) not in self.gate_edges:
                        self.gate_edges.append((n, lab))
                if op == "<" and flow[2] in self.thresholds and (l in vh or l in inline):
                    if (n, lab) not in self.unhappy_edges:
                        self.unhappy_edges.append((n, lab))
        return (vm, vh, ok)

    def run(self, targets):
        init = (frozenset(), frozenset(), False)
        visited, parent = explore(self.cfg, init, self.transfer)
        bad = []
        seen = set()
        for (nid, st) in sorted(visited, key=lambda x: (x[0], sorted(x[1][0]), sorted(x[1][1]), x[1][2])):
            n = self.cfg.nodes[nid]
            if targets(n) and not st[2] and nid not in seen:
                seen.add(nid)
                bad.append((n, witness(self.cfg, parent, (nid, st))))
        return bad, len(visited)


def landlord_index(fnorm, n, recv):
    """If the receiver expression denotes self.landlords[i] (directly or through a local copy) return norm(i)."""
    e = fnorm.resolve(n, recv) if isinstance(recv, ast.Name) else recv
    if isinstance(e, ast.Subscript) and attr_path(e.value) == "self.landlords":
        return fnorm.norm(n, e.slice)
    return None


def landlord_calls(m, dyn=None):
    """[(call, cfg node, normal form of i)] for the calls of method m on self.landlords[i] that go to the server
    (everything except the local accessors and abort).  With `dyn` (DynWriters) also the calls through
    getattr(self.landlords[i], <name>)."""
    out = []
    cands = [(c, c.func.value) for c in calls_in_func(m) if isinstance(c.func, ast.Attribute)
             and c.func.attr not in LOCAL_LANDLORD_CALLS and c.func.attr not in REGS
             and isinstance(c.func.value, (ast.Name, ast.Subscript))]
    if dyn is not None:
        for c in calls_in_func(m):
            g = dyn.shape(m, c)
            if g and isinstance(g[0], (ast.Name, ast.Subscript)):
                cands.append((c, g[0]))
    if not cands:
        return out
    cfg = m.cfg()
    fnorm = FlowNorm(m)
    for (c, recv) in cands:
        node = [n for n in cfg.nodes if any(x is c for x in node_calls(n))]
        if not node:
            continue
        ix = landlord_index(fnorm, node[0], recv)
        if ix is not None:
            out.append((c, node[0], ix))
    return out


def list_adds(n):
    """(list variable, element expression) for every element the CFG node puts into a list held in a local:
    L.append(e), L.insert(i, e), L.extend([e, ..]), L += [e, ..], L = [e, ..], L = [e for ..]."""
    out = []
    seq = lambda x: list(x.elts) if isinstance(x, (ast.List, ast.Tuple)) else (
        [x.elt] if isinstance(x, ast.ListComp) else [])
    for a in node_calls(n):
        if isinstance(a.func, ast.Attribute) and isinstance(a.func.value, ast.Name):
            L = a.func.value.id
            if a.func.attr == "append" and len(a.args) == 1:
                out.append((L, a.args[0]))
            elif a.func.attr == "insert" and len(a.args) == 2:
                out.append((L, a.args[1]))
            elif a.func.attr == "extend" and len(a.args) == 1:
                out.extend((L, e) for e in seq(a.args[0]))
    a = n.ast if n.kind == "stmt" else None
    if isinstance(a, ast.AugAssign) and isinstance(a.op, ast.Add) and isinstance(a.target, ast.Name):
        out.extend((a.target.id, e) for e in seq(a.value))
    elif isinstance(a, ast.Assign) and len(a.targets) == 1 and isinstance(a.targets[0], ast.Name):
        out.extend((a.targets[0].id, e) for e in seq(a.value))
    return out


def strip_regs(e):
    """d.addErrback(..).addCallback(..) -> d  (addCallback & co. return their receiver)."""
    while isinstance(e, ast.Call) and isinstance(e.func, ast.Attribute) and e.func.attr in REGS:
        e = e.func.value
    return e


def parent_map(fn):
    pm = {}
    for x in func_own_nodes(fn, into_lambda=True):
        for ch in ast.iter_child_nodes(x):
            pm[id(ch)] = x
    return pm


REGS = {"addCallback": "cb", "addErrback": "eb", "addBoth": "both", "addCallbacks": "pair"}


def chained_regs(pm, call):
    """Registrations chained directly on a call expression: call.addErrback(..).addCallback(..).
    Returns ([(kind, regcall)], outermost expression)."""
    out = []
    cur = call
    while True:
        p = pm.get(id(cur))
        if isinstance(p, ast.Attribute) and p.value is cur and p.attr in REGS:
            pc = pm.get(id(p))
            if isinstance(pc, ast.Call) and pc.func is p:
                out.append((REGS[p.attr], pc))
                cur = pc
                continue
        break
    return out, cur


def is_self_method(e, name):
    return isinstance(e, ast.Attribute) and attr_path(e) == "self." + name


# ------------------------------------------------- share-holder proxy (C06.8 / C06.9)
PROXY = "immutable.layout:WriteBucketProxy"
PUTS = tuple(t for t in REMOTE_WRITES if t != "close")
AGGREGATES = {"gatherResults", "DeferredList"}


def _const_arg0(c):
    return c.args[0].value if c.args and isinstance(c.args[0], ast.Constant) else None


def _fires_on_errback(c):
    k = kwarg(c, "fireOnOneErrback")
    if k is None and len(c.args) > 2:
        k = c.args[2]
    return isinstance(k, ast.Constant) and k.value is True


class ProxyFlow:
    """Deferred bookkeeping inside the share-holder proxy class.

    A *remote effect* is a call of callRemote(..), of a self.<method> that (transitively) performs one, or of
    a local function that does.  A *unit* is a method, a nested def or a lambda.  `deliver` decides that the
    Deferred of an expression becomes (part of) the value its unit returns, with no failure handler that
    replaces the failure on the way."""

    def __init__(self, idx, ci, r):
        self.idx = idx
        self.ci = ci
        self.r = r
        self.names = {}
        for c in ci.mro():
            for nm in c.methods:
                self.names.setdefault(nm, ci.lookup(nm))
        self.eff = set()
        changed = True
        while changed:
            changed = False
            for nm, m in self.names.items():
                if nm not in self.eff and any(self._effect_call(x, ()) for x in ast.walk(m.node)):
                    self.eff.add(nm)
                    changed = True
        self._pm = {}
        self._aw = {}

    # -- classification
    def _self_callee(self, c):
        nm = call_name(c) if isinstance(c, ast.Call) else None
        if nm and nm.startswith("self.") and nm.count(".") == 1:
            return nm[5:]
        return None

    def _effect_call(self, c, local):
        if not isinstance(c, ast.Call):
            return False
        if call_tail(c) == "callRemote":
            return True
        if self._self_callee(c) in self.eff:
            return True
        return isinstance(c.func, ast.Name) and c.func.id in local

    def scope(self, roots):
        """Methods reachable from the interface methods through effectful self-calls."""
        out, work = {}, []
        for nm in roots:
            m = self.ci.lookup(nm)
            if m is None:
                raise AnchorVanished("%s has no method %s" % (self.ci.qual, nm))
            work.append(m)
        while work:
            m = work.pop()
            if m.qual in out:
                continue
            out[m.qual] = m
            for x in ast.walk(m.node):
                nm = self._self_callee(x)
                if nm in self.eff:
                    work.append(self.names[nm])
        return list(out.values())

    def local_effectful(self, fi):
        """Names of nested defs of fi (and of its enclosing units) whose body performs a remote effect."""
        out = set()
        f = fi
        while f is not None:
            for nm, sub in f.nested.items():
                if isinstance(sub.node, ast.Lambda):
                    continue
                if any(self._effect_call(x, ()) for x in ast.walk(sub.node)):
                    out.add(nm)
            f = f.parent
        return out

    def pm(self, fi):
        if fi.qual not in self._pm:
            self._pm[fi.qual] = parent_map(fi)
        return self._pm[fi.qual]

    def effects(self, fi):
        """Remote-effect calls evaluated by the unit itself (not by its lambdas / nested defs)."""
        local = self.local_effectful(fi)
        return [x for x in func_own_nodes(fi) if self._effect_call(x, local)]

    def child_units(self, fi):
        """(sub unit, defining node) for lambdas / nested defs of fi that contain a remote effect."""
        out = []
        for x in func_own_nodes(fi):
            if isinstance(x, ast.Lambda):
                if any(self._effect_call(y, self.local_effectful(fi)) for y in ast.walk(x.body)):
                    out.append((self.idx.lambda_func(fi, x), x))
            elif isinstance(x, (ast.FunctionDef, ast.AsyncFunctionDef)):
                sub = fi.nested.get(x.name)
                if sub is not None and any(self._effect_call(y, self.local_effectful(sub)) for y in ast.walk(x)):
                    out.append((sub, x))
        return out

    def attachments(self, fi, sub, node):
        """Registration calls of fi that attach the child unit: [(kind, position, regcall)]."""
        out = []
        for x in func_own_nodes(fi):
            if isinstance(x, ast.Call) and isinstance(x.func, ast.Attribute) and x.func.attr in REGS:
                for i, a in enumerate(x.args[:2]):
                    if a is node or (isinstance(a, ast.Name) and not isinstance(node, ast.Lambda) and a.id == node.name):
                        out.append((REGS[x.func.attr], i, x))
        return out

    def node_of(self, fi, e):
        for n in fi.cfg().nodes:
            if n.kind in ("entry", "exit", "raise"):
                continue
            for ex in node_exprs(n):
                if any(y is e for y in own_nodes(ex)):
                    return n
        raise AnalysisError("no CFG node evaluates %s in %s" % (src(fi, e), short(fi)))

    # -- failure handlers
    def passes_failure_on(self, fi, tgt):
        """The errback re-delivers the failure it was given (every return value derives from its parameter)."""
        h = None
        if isinstance(tgt, ast.Lambda):
            h = self.idx.lambda_func(fi, tgt)
        elif isinstance(tgt, ast.Name):
            f = fi
            while f is not None and h is None:
                h = f.nested.get(tgt.id)
                f = f.parent
        elif self.ci is not None and (attr_path(tgt) or "").startswith("self.") and attr_path(tgt).count(".") == 1:
            h = self.ci.lookup(attr_path(tgt)[5:])
        if h is None:
            return False
        ps = first_positional_params(h)
        if not ps:
            return False
        rets = h.cfg().find(is_return)
        if not rets or reaches_exit_avoiding(h.cfg(), is_return):
            return False
        return all(n.ast.value is not None and ps[0] in depends_on(h, n.ast.value) for n in rets)

    def check_handlers(self, fi, regs, what):
        for (kind, rc) in regs:
            if kind == "cb":
                continue
            tgt = rc.args[1] if kind == "pair" and len(rc.args) > 1 else (rc.args[0] if kind != "pair" and rc.args else None)
            if tgt is None:
                continue
            if not self.passes_failure_on(fi, tgt):
                self.r.violation(fi, fi.loc(rc), "%s: the handler %s receives a failure of %s and replaces it: the "
                                 "share holder's caller (Encoder) sees success, never removes the share holder, and "
                                 "an incomplete share is counted as placed" % (short(fi), src(fi, rc), what))

    # -- delivery
    def climb(self, fi, e):
        """`e if c else other`: the value of the conditional expression is (on one branch) e."""
        pm = self.pm(fi)
        while True:
            p = pm.get(id(e))
            if isinstance(p, ast.IfExp) and (p.body is e or p.orelse is e):
                e = p
            else:
                return e

    def carries(self, fi, e, v, defs, depth=0):
        """The value of e is the Deferred held in local v: v itself, a copy, a callback chain on it (addCallback
        returns its receiver), or an aggregate (gatherResults / DeferredList) with it as an element."""
        if depth > 6 or e is None:
            return False
        if isinstance(e, ast.Name):
            if e.id == v:
                return True
            return any(self.carries(fi, x, v, defs, depth + 1) for x in defs.get(e.id, []))
        if isinstance(e, ast.IfExp):
            return self.carries(fi, e.body, v, defs, depth + 1) or self.carries(fi, e.orelse, v, defs, depth + 1)
        if isinstance(e, (ast.List, ast.Tuple)):
            return any(self.carries(fi, x, v, defs, depth + 1) for x in e.elts)
        if isinstance(e, ast.Call):
            if isinstance(e.func, ast.Attribute) and e.func.attr in REGS:
                return self.carries(fi, e.func.value, v, defs, depth + 1)
            if call_tail(e) in AGGREGATES and e.args:
                return self.carries(fi, e.args[0], v, defs, depth + 1)
        return False

    def deliver(self, fi, e, what):
        pm = self.pm(fi)
        chain, outer = chained_regs(pm, e)
        self.check_handlers(fi, chain, what)
        outer = self.climb(fi, outer)
        p = pm.get(id(outer))
        if isinstance(p, ast.Return):
            return
        if isinstance(p, (ast.Await, ast.Yield)):
            self.awaited(fi, outer, what)
            return
        if isinstance(p, ast.Assign) and p.value is outer and len(p.targets) == 1 and isinstance(p.targets[0], ast.Name):
            return self.var_flow(fi, p.targets[0].id, self.node_of(fi, outer), what)
        if isinstance(p, ast.Expr):
            base = outer
            while isinstance(base, ast.Call) and isinstance(base.func, ast.Attribute) and base.func.attr in REGS:
                base = base.func.value
            if base is not e and isinstance(base, ast.Name):
                # `v.addCallback(unit)` as a statement: v has to be delivered from here on
                return self.var_flow(fi, base.id, self.node_of(fi, outer), what)
            self.r.violation(fi, fi.loc(e), "%s: the Deferred of %s is dropped (statement value discarded): its "
                             "failure never reaches the caller, so Encoder._remove_shareholder is not run and the "
                             "incomplete share is counted as placed" % (short(fi), what))
            return
        # element of an aggregate that fails on the first failure
        q = p
        if isinstance(q, (ast.List, ast.Tuple)):
            q = pm.get(id(q))
        if isinstance(q, ast.Call) and call_tail(q) in AGGREGATES and q.func is not outer:
            if call_tail(q) == "DeferredList" and not _fires_on_errback(q):
                self.r.violation(fi, fi.loc(q), "%s: %s is gathered by a DeferredList without fireOnOneErrback=True: "
                                 "its failure becomes a (False, failure) list entry, i.e. a success" % (short(fi), what))
                return
            return self.deliver(fi, q, what)
        raise AnalysisError("%s: the Deferred of %s is used in a context that is not modelled: %s" % (
            short(fi), what, src(fi, p)))

    def awaited(self, fi, outer, what=""):
        """`yield e` / `await e` in a coroutine: a failure of e is raised at that point and (without try
        blocks) fails the coroutine's Deferred; what follows runs only after e succeeded."""
        p = self.pm(fi).get(id(outer))
        if not isinstance(p, (ast.Await, ast.Yield)):
            return False
        coroutine = isinstance(fi.node, ast.AsyncFunctionDef) or any(
            (attr_path(d) or "").split(".")[-1] == "inlineCallbacks" for d in fi.decorators())
        if not coroutine or any(isinstance(x, ast.Try) for x in func_own_nodes(fi)):
            raise AnalysisError("%s: %s is yielded/awaited outside a plain inlineCallbacks/async body (not modelled)"
                                % (short(fi), what))
        return True

    def var_flow(self, fi, v, start, what):
        cfg = fi.cfg()
        self.check_handlers(fi, [(reg.kind, reg.call) for reg in registrations(fi, var=v)], what)
        defs = def_exprs(fi)

        def ret_v(n):
            if not (is_return(n) and n.ast.value is not None):
                return False
            return self.carries(fi, n.ast.value, v, defs)

        def lost(n):
            if n.kind == "exit":
                return True
            if n.kind == "stmt" and v in node_stores(n) and n is not start:
                val = assign_value(n, v)
                return val is None or not self.carries(fi, val, v, defs)
            return False
        for w in must_pass(cfg, start, lambda l: l != "exc", ret_v, lost):
            self.r.violation(fi, fi.loc(start.ast), "%s: the Deferred of %s (in %s) is not part of the value returned "
                             "on some path: its failure never reaches the caller, so the share holder is kept and "
                             "the incomplete share is counted as placed (path: %s)" % (short(fi), what, v, w.brief()), w)
            return
        for n in cfg.find(ret_v):
            for c in calls_feeding(fi, n.ast.value):
                if call_tail(c) == "DeferredList" and not _fires_on_errback(c):
                    self.r.violation(fi, fi.loc(c), "%s: %s is returned through a DeferredList without "
                                     "fireOnOneErrback=True: its failure becomes a success" % (short(fi), what))

    def check_unit(self, fi, depth=0):
        """Every remote effect of the unit is delivered to the unit's return value; every callback unit with a
        remote effect is attached to a delivered Deferred (or called and delivered) and is checked itself."""
        if depth > 6:
            raise AnalysisError("callback nesting too deep in %s" % short(fi))
        for c in self.effects(fi):
            what = "%s(%s)" % (call_name(c) or call_tail(c), ", ".join(src(fi, a) for a in c.args[:1]))
            self.r.site(fi, c, what)
            self.deliver(fi, c, what)
        for (sub, node) in self.child_units(fi):
            att = self.attachments(fi, sub, node)
            called = not isinstance(node, ast.Lambda) and any(
                isinstance(x, ast.Call) and isinstance(x.func, ast.Name) and x.func.id == node.name
                for x in func_own_nodes(fi))
            if not att and not called:
                self.r.violation(fi, fi.loc(node), "%s: the callback %s performs a remote call but is not attached to "
                                 "a Deferred of this method: its outcome never reaches the caller" % (
                                     short(fi), src(fi, node) if isinstance(node, ast.Lambda) else node.name))
            for (kind, pos, rc) in att:
                self.deliver(fi, rc, "the callback %s" % (src(fi, node) if isinstance(node, ast.Lambda) else node.name))
            self.check_unit(sub, depth + 1)

    # -- buffering
    def always_writes(self, m, stack=()):
        """Every normal path through method m issues a remote call (directly or through self-calls)."""
        if m.qual in self._aw:
            return self._aw[m.qual]
        if m.qual in stack:
            return False

        def writes(n):
            for c in node_calls(n):
                if call_tail(c) == "callRemote":
                    return True
                nm = self._self_callee(c)
                if nm in self.eff and self.always_writes(self.names[nm], stack + (m.qual,)):
                    return True
            return False
        res = not reaches_exit_avoiding(m.cfg(), writes)
        self._aw[m.qual] = res
        return res



# ------------------------------------------------- the reported set of placed shares (C06.11)
SET_COPIES = {"set", "frozenset", "list", "tuple", "sorted", "dict", "iter", "reversed"}
GROWING = {"add", "update", "append", "extend", "insert", "setdefault", "symmetric_difference_update", "__setitem__",
           "union_update"}


def top_unit(f):
    while f.parent is not None:
        f = f.parent
    return f


def live_landlord_view(e):
    """self.landlords itself or self.landlords.keys(): follows later removals (a dict view is live)."""
    if attr_path(e) == "self.landlords":
        return True
    return isinstance(e, ast.Call) and isinstance(e.func, ast.Attribute) and e.func.attr == "keys" \
        and not e.args and not e.keywords and attr_path(e.func.value) == "self.landlords"


def empty_value(e):
    if isinstance(e, ast.Constant) and e.value is None:
        return True
    if isinstance(e, (ast.List, ast.Tuple, ast.Set)) and not e.elts:
        return True
    if isinstance(e, ast.Dict) and not e.keys:
        return True
    return isinstance(e, ast.Call) and isinstance(e.func, ast.Name) and e.func.id in SET_COPIES \
        and not e.args and not e.keywords


def landlord_subset(fnorm, n, e, depth=0):
    """The value of e (evaluated at CFG node n) holds only share numbers that are keys of self.landlords at that
    moment: copies / views / filters / intersections of it.  A union is a subset only if both sides are."""
    if e is None or depth > 8:
        return False
    if isinstance(e, ast.Name):
        d = fnorm.resolve(n, e)
        return d is not e and not isinstance(d, ast.Name) and landlord_subset(fnorm, n, d, depth + 1)
    if attr_path(e) == "self.landlords":
        return True
    rec = lambda x: landlord_subset(fnorm, n, x, depth + 1)
    if isinstance(e, ast.Call) and not e.keywords:
        if isinstance(e.func, ast.Name) and e.func.id in SET_COPIES and len(e.args) == 1:
            return rec(e.args[0])
        if isinstance(e.func, ast.Attribute):
            if e.func.attr in ("keys", "copy") and not e.args:
                return rec(e.func.value)
            if e.func.attr in ("intersection", "difference"):
                return rec(e.func.value)
            if e.func.attr == "union":
                return rec(e.func.value) and all(rec(a) for a in e.args)
        return False
    if isinstance(e, (ast.SetComp, ast.ListComp, ast.GeneratorExp)) and len(e.generators) == 1:
        g = e.generators[0]
        return isinstance(g.target, ast.Name) and isinstance(e.elt, ast.Name) and e.elt.id == g.target.id \
            and rec(g.iter)
    if isinstance(e, ast.BinOp):
        if isinstance(e.op, ast.BitAnd):
            return rec(e.left) or rec(e.right)
        if isinstance(e.op, ast.Sub):
            return rec(e.left)
        if isinstance(e.op, ast.BitOr):
            return rec(e.left) and rec(e.right)
        return False
    if isinstance(e, ast.IfExp):
        return rec(e.body) and rec(e.orelse)
    return False


def enclosing_loops(pm, node):
    """ast.For statements / comprehension generators that enclose the node, innermost first."""
    out = []
    cur = pm.get(id(node))
    while cur is not None:
        if isinstance(cur, ast.For):
            out.append((cur.target, cur.iter))
        elif isinstance(cur, (ast.ListComp, ast.SetComp, ast.DictComp, ast.GeneratorExp)):
            out.extend((g.target, g.iter) for g in cur.generators)
        cur = pm.get(id(cur))
    return out


def strip_copies(e):
    while isinstance(e, ast.Call) and isinstance(e.func, ast.Name) and e.func.id in SET_COPIES and len(e.args) == 1 \
            and not e.keywords:
        e = e.args[0]
    return e


# ------------------------------------------------- provenance of a setting (C06.2 d)
class ParamSources:
    """Names / attribute paths of `self` the value of an expression may be read from.  Like depends_on, but a call
    self.<helper>(<args>) is followed into the helper (its parameters bound to the argument expressions of this call
    site, so a constant argument stays a constant) and getattr(self, <name expr>) counts as a read of self.<name> when
    the name expression folds to a string (parameters replaced by the constants of the call site, class / module
    tables folded).  What cannot be followed is listed in `opaque`."""

    def __init__(self, idx, ci, module, max_depth=4):
        self.idx = idx
        self.ci = ci
        self.module = module
        self.folder = get_folder(idx)
        self.max_depth = max_depth
        self.out = set()
        self.opaque = []
        self._seen = set()

    def context(self, defs, binds=None, unit=None, depth=0):
        return {"defs": defs, "binds": binds or {}, "unit": unit, "depth": depth}

    def _const(self, e, cx, depth=0):
        """Python value of e in context cx (NotConstant if it has none)."""
        if depth > 6:
            raise NotConstant("depth")
        if isinstance(e, ast.IfExp):
            return self._const(e.body if self._const(e.test, cx, depth + 1) else e.orelse, cx, depth + 1)
        if isinstance(e, ast.Compare) and len(e.ops) == 1 and isinstance(e.ops[0], (ast.Eq, ast.NotEq, ast.In, ast.NotIn)):
            l, rr = self._const(e.left, cx, depth + 1), self._const(e.comparators[0], cx, depth + 1)
            try:
                v = (l == rr) if isinstance(e.ops[0], (ast.Eq, ast.NotEq)) else (l in rr)
            except Exception as ex:
                raise NotConstant(str(ex))
            return v if isinstance(e.ops[0], (ast.Eq, ast.In)) else not v
        if isinstance(e, ast.BinOp) and isinstance(e.op, ast.Add):
            l, rr = self._const(e.left, cx, depth + 1), self._const(e.right, cx, depth + 1)
            try:
                return l + rr
            except Exception as ex:
                raise NotConstant(str(ex))
        local = {}
        names = {x.id for x in ast.walk(e) if isinstance(x, ast.Name)}
        for nm in names:
            if nm in cx["binds"]:
                be, bcx = cx["binds"][nm]
                local[nm] = self._const(be, bcx, depth + 1)
            elif nm != "self" and len(cx["defs"].get(nm, [])) == 1 and cx["unit"] is not None \
                    and nm not in cx["unit"].params:
                local[nm] = self._const(cx["defs"][nm][0], cx, depth + 1)
        return self.folder.fold(e, self.module, self.ci, local)

    def _overridden(self, name):
        return [c.qual for c in self.idx.subclasses(self.ci) if name in c.methods] if self.ci is not None else []

    def _add(self, p, cx):
        key = (id(cx["defs"]), p)
        if key in self._seen:
            return
        self._seen.add(key)
        self.out.add(p)
        if "." in p:
            self._add(p.rsplit(".", 1)[0], cx)
        for v in cx["defs"].get(p, []):
            self.visit(v, cx)

    def _follow(self, c, m, cx):
        if cx["depth"] >= self.max_depth:
            self.opaque.append("%s (helper nesting too deep)" % ast.unparse(c))
            return
        params = [a.arg for a in m.node.args.posonlyargs + m.node.args.args]
        if params and params[0] in ("self", "cls"):
            params = params[1:]
        if m.node.args.vararg or m.node.args.kwarg or any(isinstance(a, ast.Starred) for a in c.args) \
                or any(k.arg is None for k in c.keywords) or len(c.args) > len(params):
            self.opaque.append("%s (argument binding not modelled)" % ast.unparse(c))
            return
        binds = {}
        for pn, a in zip(params, c.args):
            binds[pn] = (a, cx)
        for k in c.keywords:
            binds[k.arg] = (k.value, cx)
        dflts = m.node.args.defaults
        for pn, dv in zip(params[len(params) - len(dflts):], dflts):
            binds.setdefault(pn, (dv, self.context({}, unit=None)))
        rets = [x for x in func_own_nodes(m) if isinstance(x, ast.Return) and x.value is not None]
        if not rets or any(isinstance(x, (ast.Yield, ast.YieldFrom, ast.Await)) for x in func_own_nodes(m)):
            self.opaque.append("%s (no plain return value)" % ast.unparse(c))
            return
        sub = self.context(def_exprs(m), binds, unit=m, depth=cx["depth"] + 1)
        self._keep = getattr(self, "_keep", [])
        self._keep.append(sub)              # keeps id(defs) unique while the walk runs
        for x in rets:
            self.visit(x.value, sub)

    def visit(self, e, cx):
        if e is None:
            return
        if isinstance(e, ast.Call):
            f = e.func
            if isinstance(f, ast.Name) and f.id == "getattr" and 2 <= len(e.args) <= 3 and not e.keywords \
                    and "getattr" not in cx["defs"] and "getattr" not in cx["binds"]:
                recv = e.args[0]
                if isinstance(recv, ast.Name) and recv.id in cx["binds"]:
                    recv = cx["binds"][recv.id][0]
                if isinstance(recv, ast.Name) and recv.id == "self":
                    try:
                        nm = self._const(e.args[1], cx)
                    except NotConstant as ex:
                        nm = None
                    if isinstance(nm, bytes):
                        nm = None
                    if isinstance(nm, str):
                        self._add("self." + nm, cx)
                    else:
                        self.opaque.append("%s (attribute name is not a constant)" % ast.unparse(e))
                    for a in e.args[2:]:
                        self.visit(a, cx)
                    return
            if isinstance(f, ast.Attribute) and isinstance(f.value, ast.Name) and f.value.id == "self" \
                    and self.ci is not None:
                m = self.ci.lookup(f.attr)
                if m is not None and self.ci.lookup_attr(f.attr) is None:
                    ov = self._overridden(f.attr)
                    if ov:
                        self.opaque.append("%s (overridden in %s)" % (ast.unparse(e), ", ".join(ov)))
                    else:
                        self._add("self." + f.attr, cx)
                        self._follow(e, m, cx)
                    return
        if isinstance(e, ast.Attribute):
            p = attr_path(e)
            if p:
                root = p.split(".", 1)[0]
                if root in cx["binds"]:
                    self.visit(cx["binds"][root][0], cx["binds"][root][1])
                self._add(p, cx)
                return
        if isinstance(e, ast.Name):
            if e.id in cx["binds"]:
                be, bcx = cx["binds"][e.id]
                self.visit(be, bcx)
                return
            self._add(e.id, cx)
            return
        if isinstance(e, ast.Lambda):
            self.visit(e.body, cx)
            return
        for ch in ast.iter_child_nodes(e):
            if isinstance(ch, (ast.expr, ast.comprehension, ast.keyword)):
                self.visit(ch, cx)


# ------------------------------------- bucket-writer method chosen by name: getattr(self.landlords[i], <name>)(..)
class DynWriters:
    """A call <getattr(R, name)>(..) (also `(name if callable(name) else getattr(R, name))(..)`) is a call of the
    method(s) R.<name> when `name` folds to strings: constants, `a + b`, a single local definition, or a parameter
    of the enclosing Encoder method bound at EVERY call site self.<method>(..) (followed upwards through the
    callers, defaults included).  Anything else - a caller outside the class, a bare reference to the method, an
    override, */** binding - is an AnalysisError."""

    def __init__(self, idx, cg, enc):
        self.idx, self.cg, self.enc = idx, cg, enc

    @staticmethod
    def _getattr(m, f):
        if isinstance(f, ast.Call) and isinstance(f.func, ast.Name) and f.func.id == "getattr" and len(f.args) == 2 \
                and not f.keywords and not any(isinstance(a, ast.Starred) for a in f.args) \
                and "getattr" not in def_exprs(m) and "getattr" not in m.params:
            return f.args[0], f.args[1]
        return None

    def shape(self, m, c):
        """(receiver expression, name expression) of a call through getattr, else None"""
        f = c.func
        g = self._getattr(m, f)
        if g:
            return g
        if isinstance(f, ast.IfExp) and isinstance(f.test, ast.Call) and isinstance(f.test.func, ast.Name) \
                and f.test.func.id == "callable" and len(f.test.args) == 1 and not f.test.keywords \
                and isinstance(f.test.args[0], ast.Name) and isinstance(f.body, ast.Name) \
                and f.body.id == f.test.args[0].id and "callable" not in def_exprs(m) and "callable" not in m.params:
            g = self._getattr(m, f.orelse)
            # names() only yields strings: callable(<str>) is False, the call is the getattr branch
            if g and isinstance(g[1], ast.Name) and g[1].id == f.body.id:
                return g
        return None

    def names(self, m, e, depth=0):
        if depth > 6:
            raise AnalysisError("method name %s in %s: helper nesting too deep" % (src(m, e), short(m)))
        if isinstance(e, ast.Constant) and isinstance(e.value, str):
            return {e.value}
        if isinstance(e, ast.BinOp) and isinstance(e.op, ast.Add):
            return {a + b for a in self.names(m, e.left, depth + 1) for b in self.names(m, e.right, depth + 1)}
        if isinstance(e, ast.Name):
            defs = def_exprs(m).get(e.id, [])
            if e.id in m.params and not defs:
                return self._from_callers(m, e.id, depth)
            if e.id not in m.params and len(defs) == 1:
                return self.names(m, defs[0], depth + 1)
        raise AnalysisError("the bucket-writer method name %s in %s does not fold to constant strings" % (
            src(m, e), short(m)))

    def _from_callers(self, m, pname, depth):
        a = m.node.args
        if m.parent is not None or m.cls is None or self.enc.lookup(m.name) is not m \
                or any(m.name in c.methods for c in self.idx.subclasses(self.enc)):
            raise AnalysisError("%s: callers cannot be enumerated" % short(m))
        pos = [x.arg for x in a.posonlyargs + a.args]
        if pname not in pos or not pos or pos[0] != "self":
            raise AnalysisError("%s: parameter %s is not positional" % (short(m), pname))
        ix = pos.index(pname) - 1
        dflt = None
        nd = len(a.defaults)
        if nd and pos.index(pname) >= len(pos) - nd:
            dflt = a.defaults[pos.index(pname) - (len(pos) - nd)]
        refs = [x for x in self.cg.refs_named(m.name) if not isinstance(x[1], ast.Name)]
        if refs:
            raise AnalysisError("%s is used as a value in %s: its callers cannot be enumerated" % (
                short(m), short(refs[0][0])))
        sites = self.cg.calls_named(m.name)
        if not sites:
            raise AnalysisError("%s is never called" % short(m))
        out = set()
        for cs in sites:
            f = cs.fn
            if top_unit(f).cls is not m.cls or cs.name != "self." + m.name:
                raise AnalysisError("%s is called as %s in %s: not followed" % (short(m), cs.name, short(f)))
            c = cs.call
            if any(k.arg is None for k in c.keywords):
                raise AnalysisError("%s: ** argument binding is not modelled" % src(f, c))
            kw = [k.value for k in c.keywords if k.arg == pname]
            if kw:
                v = kw[0]
            elif any(isinstance(x, ast.Starred) for x in c.args[:ix + 1]):
                raise AnalysisError("%s: * argument binding is not modelled" % src(f, c))
            elif len(c.args) > ix:
                v = c.args[ix]
            elif dflt is not None:
                out |= self.names(m, dflt, depth + 1)
                continue
            else:
                raise AnalysisError("%s does not bind %s" % (src(f, c), pname))
            out |= self.names(f, v, depth + 1)
        return out


def writer_tail(c):
    return c.func.attr if isinstance(c.func, ast.Attribute) else "<getattr>"


# --------------------------------------------------------------------- rules
def run(ctx: Context):
    idx = ctx.idx
    cg = get_callgraph(idx)

    # -- shared by C06.6 / C06.10: helpers that return the gathered Deferred
    def gathering_helper(name, stack):
        """Encoder.<name> (no override in a subclass is looked at: the lookup is the one of the Encoder
        class itself) returns, on every path, the value of self._gather_responses(..) - directly or through
        a further such helper - and cannot fall off its end."""
        if name in stack or len(stack) > 3:
            return False
        enc_ci = idx.cls(ENC)
        hf = enc_ci.lookup(name) if enc_ci is not None else None
        if hf is not None and any(name in c.methods for c in idx.subclasses(enc_ci)):
            return False
        if hf is None or isinstance(hf.node, ast.Lambda) or getattr(hf.node, "decorator_list", None):
            return False
        if isinstance(hf.node, ast.AsyncFunctionDef) or any(
                isinstance(x, (ast.Yield, ast.YieldFrom, ast.Await)) for x in func_own_nodes(hf)):
            return False
        hrets = hf.cfg().find(is_return)
        if not hrets or reaches_exit_avoiding(hf.cfg(), is_return):
            return False
        hn = FlowNorm(hf)
        for n in hrets:
            if n.ast.value is None:
                return False
            v = hn.resolve(n, n.ast.value)
            if isinstance(v, ast.Call) and call_name(v) == "self._gather_responses":
                continue
            if not via_gathering_helper(hf, n, stack + (name,), hn):
                return False
        return True

    def via_gathering_helper(f, n, stack, fnorm_=None):
        """the value returned at node n of f IS the result of a call self.<helper>(..) of a gathering helper"""
        v = (fnorm_ or FlowNorm(f)).resolve(n, n.ast.value)
        if not isinstance(v, ast.Call):
            return False
        nm = call_name(v) or ""
        if not (nm.startswith("self.") and nm.count(".") == 1) or nm == "self._gather_responses":
            return False
        return gathering_helper(nm[5:], stack)


    # -- 1. success of server selection is gated by the happiness comparison
    with ctx.rule("C06.1", "R1/E3", "get_shareholders: success return only with min_happiness <= "
                  "servers_of_happiness(merge_servers(P, self.use_trackers)), evaluated after the last yield/mutation; "
                  "returns (self.use_trackers, P); the unhappy edge reaches _failed", expected=3) as r:
        fn = idx.func(SEL + ".get_shareholders")
        cfg = fn.cfg()
        if "min_happiness" not in fn.params:
            raise AnchorVanished("get_shareholders has no min_happiness parameter")
        use_mut = mutates("self.use_trackers")
        thresholds = {"min_happiness"}
        # self.min_happiness is the same value when its only binding in the class is `= min_happiness` here
        binds = [(f, nd) for (f, nd) in cg.attr_stores("min_happiness")
                 if f.cls is not None and f.cls.name == "Tahoe2ServerSelector"]
        if binds and all(f.qual == fn.qual for (f, nd) in binds) and all(
                isinstance(v, ast.Name) and v.id == "min_happiness"
                for n in cfg.find(stores("self.min_happiness")) for v in [assign_value(n, "self.min_happiness")]):
            thresholds.add("self.min_happiness")
        hg = HappinessGate(fn, thresholds, merge_trackers="self.use_trackers",
                           kill=lambda n: suspends(n) or use_mut(n))

        def success(n):
            if n.kind != "stmt":
                return False
            if calls_at(n, "returnValue"):
                return True
            return isinstance(n.ast, ast.Return) and n.ast.value is not None and not (
                isinstance(n.ast.value, ast.Constant) and n.ast.value.value is None)
        succ = cfg.find(success)
        if not succ:
            raise AnchorVanished("no success return (returnValue / return value) in get_shareholders")
        bad, nstates = hg.run(success)
        r.count(nstates)
        for n in succ:
            r.site(fn, n.ast, "success return")
        for (n, w) in bad:
            r.violation(fn, fn.loc(n.ast), "server selection can report success without min_happiness <= "
                        "servers_of_happiness(merge_servers(.., self.use_trackers)) holding on the path "
                        "(path: %s)" % w.brief(), w)
        # the returned layout
        fnorm = hg.fnorm
        for n in succ:
            cs = calls_at(n, "returnValue")
            v = cs[0].args[0] if cs and cs[0].args else getattr(n.ast, "value", None)
            v = fnorm.resolve(n, v) if isinstance(v, ast.Name) else v
            okshape = isinstance(v, ast.Tuple) and len(v.elts) == 2
            r.site(fn, n.ast, "returned layout")
            if not r.require(okshape, fn, fn.loc(n.ast), "success value is not the pair (trackers, preexisting map): %s"
                             % src(fn, v)):
                continue
            r.require(attr_path(v.elts[0]) == "self.use_trackers", fn, fn.loc(n.ast),
                      "returns trackers %s but happiness was evaluated on self.use_trackers" % src(fn, v.elts[0]))
            second = fnorm.norm(n, v.elts[1])
            if hg.merge_firsts:
                r.require(set(hg.merge_firsts) == {second}, fn, fn.loc(n.ast),
                          "returns the pre-existing share map %s but happiness was evaluated on %s" % (
                              second, ", ".join(sorted(hg.merge_firsts))))
        # unhappy edge -> _failed on every path to a normal exit
        # (only the final comparison: an unhappy edge after which no further happiness test is reachable)
        htests = {id(t) for (t, _l) in hg.gate_edges + hg.unhappy_edges}
        final = []
        for (tn, lab) in hg.unhappy_edges:
            again = must_pass(cfg, tn, lambda l, _lab=lab: C._lbl_eq(l, _lab), lambda n: False,
                              lambda n: id(n) in htests)
            if not again:
                final.append((tn, lab))
        if not final and not bad:
            raise AnchorVanished("no final 'happiness < min_happiness' edge found in get_shareholders")
        for (tn, lab) in final:
            r.site(fn, tn.ast, "unhappy edge")
            for w in must_pass(cfg, tn, lambda l, _lab=lab: C._lbl_eq(l, _lab), has_call("_failed"),
                               lambda n: n.kind in ("exit", "raise"), follow_raise=True):
                r.violation(fn, fn.loc(tn.ast), "the unhappy branch can leave get_shareholders without calling "
                            "self._failed (allocated buckets are not aborted, no UploadUnhappinessError) "
                            "(path: %s)" % w.brief(), w)

    # -- 2. the threshold is the 'happy' encoding parameter ----------------
    with ctx.rule("C06.2", "R5", "positional agreement of the happiness threshold: parameter tuple[1] -> "
                  "Encoder.min_happiness -> get_param('share_counts')[1] -> get_shareholders(min_happiness=..)",
                  expected=4) as r:
        # (a) the caller
        fn = idx.func(CHK + ".locate_all_shareholders")
        callee = idx.func(SEL + ".get_shareholders")
        cps = first_positional_params(callee)
        fnorm = FlowNorm(fn)
        nodes = fn.cfg().find(has_call("get_shareholders"))
        if not nodes:
            raise AnchorVanished("locate_all_shareholders no longer calls get_shareholders")
        want = {"needed_shares": 0, "min_happiness": 1, "total_shares": 2}
        for n in nodes:
            c = calls_at(n, "get_shareholders")[0]
            r.site(fn, c, "call of get_shareholders")
            for pname, pos in want.items():
                if pname not in cps:
                    raise AnchorVanished("get_shareholders has no parameter %s" % pname)
                a = arg(c, cps.index(pname), pname)
                got = fnorm.norm(n, a) if a is not None else None
                ok = got is not None and re.match(
                    r"^\w+\.get_param\('share_counts'\)\[%d\]$" % pos, got) is not None
                r.require(ok, fn, fn.loc(c), "get_shareholders(%s=%s): expected element %d of "
                          "encoder.get_param('share_counts')" % (pname, got, pos))
        # (b) Encoder.get_param("share_counts")
        gp = idx.func(ENC + ".get_param")
        gnorm = FlowNorm(gp)
        pname = first_positional_params(gp)[0]

        def is_share_counts(n, lab):
            f = gnorm.edge_fact(n, lab)
            return bool(f) and f[0] == "==" and {f[1], f[2]} == {pname, "'share_counts'"}
        found = False
        gcfg = gp.cfg()
        for n in gcfg.find(is_return):
            v = n.ast.value
            if not (isinstance(v, ast.Tuple) and len(v.elts) == 3):
                continue
            if find_path_avoiding(gcfg, lambda x, _n=n: x is _n, gate_edge=is_share_counts):
                continue
            found = True
            r.site(gp, n.ast, "share_counts tuple")
            got = [attr_path(e) for e in v.elts]
            r.require(got == ["self.required_shares", "self.min_happiness", "self.num_shares"], gp, gp.loc(n.ast),
                      "get_param('share_counts') returns %s, expected (required_shares, min_happiness, num_shares)"
                      % src(gp, v))
        if not found:
            raise AnchorVanished("get_param has no 3-tuple return under name == 'share_counts'")
        # (c) Encoder.min_happiness <- params[1]; the tuple is (k, happy, n, segsize)
        ge = idx.func(ENC + "._got_all_encoding_parameters")
        enorm = FlowNorm(ge)
        p0 = first_positional_params(ge)[0]
        slots = {"self.required_shares": 0, "self.min_happiness": 1, "self.num_shares": 2, "self.segment_size": 3}
        seen = set()
        for n in ge.cfg().find(lambda n: n.kind == "stmt" and bool(set(slots) & node_stores(n))):
            for path in set(slots) & node_stores(n):
                v = assign_value(n, path)
                got = enorm.norm(n, v) if v is not None else None
                seen.add(path)
                r.require(got == "%s[%d]" % (p0, slots[path]), ge, ge.loc(n.ast),
                          "%s is set from %s, expected element %d of the encoding-parameter tuple" % (
                              path, got, slots[path]))
        if "self.min_happiness" not in seen:
            raise AnchorVanished("Encoder._got_all_encoding_parameters no longer stores self.min_happiness")
        r.site(ge, None, "Encoder parameter slots")
        for (f, nd) in cg.attr_stores("min_happiness"):
            if f.cls is not None and f.cls.name == "Encoder" and f.qual != ge.qual:
                r.violation(f, f.loc(nd), "Encoder.min_happiness is re-bound outside _got_all_encoding_parameters")
        # (d) the producer of the tuple
        bu = idx.func("immutable.upload:BaseUploadable.get_all_encoding_parameters")
        inner = bu.nested.get("_got_size")
        if inner is None:
            raise AnchorVanished("BaseUploadable.get_all_encoding_parameters._got_size")
        tuples = [x.value for x in func_own_nodes(inner) if isinstance(x, ast.Assign)
                  and isinstance(x.value, ast.Tuple) and len(x.value.elts) == 4]
        if not tuples:
            raise AnchorVanished("no 4-tuple of encoding parameters built in _got_size")
        for t in tuples:
            r.site(inner, t, "parameter tuple")
            e1 = t.elts[1]
            defs = {}
            for f in (bu, inner):
                for k, v in def_exprs(f).items():
                    defs.setdefault(k, []).extend(v)
            ps = ParamSources(idx, bu.cls, inner.module)
            ps.visit(e1, ps.context(defs))
            dep = ps.out
            wrong = any(d.endswith("encoding_param_k") or d.endswith("encoding_param_n") for d in dep)
            ok = any(d.endswith("encoding_param_happy") for d in dep) and not wrong
            if not wrong and ps.opaque:
                # the setting is read through something that cannot be followed: no verdict either way
                raise AnalysisError("element 1 of the encoding-parameter tuple (%s) is read through %s: which setting "
                                    "it is cannot be decided" % (src(inner, e1), "; ".join(ps.opaque)))
            r.require(ok, inner, inner.loc(t), "element 1 of the encoding-parameter tuple (%s) is not the "
                      "'happy' setting (depends on %s)" % (src(inner, e1), sorted(x for x in dep if "param" in x)))

    # -- 3. failure of selection aborts what was allocated -------------------
    with ctx.rule("C06.3", "R1", "_failed aborts every tracker of use_trackers and always raises; "
                  "ServerTracker.abort/abort_some_buckets reach abort() of each bucket; the proxy relays "
                  "callRemote('abort')", expected=4) as r:
        fn = idx.func(SEL + "._failed")
        cfg = fn.cfg()
        loops = [lp for lp in loops_over(fn, "self.use_trackers")
                 if any(isinstance(c, ast.Call) and call_name(c) == lp.target.id + ".abort"
                        for st in lp.body for c in ast.walk(st))]
        r.require(bool(loops), fn, fn.loc(), "_failed has no loop over self.use_trackers calling tracker.abort()")
        r.site(fn, None, "_failed")
        r.require(bool(cfg.find(is_raise)), fn, fn.loc(), "_failed no longer raises UploadUnhappinessError")
        for w in reaches_exit_avoiding(cfg, lambda n: False):
            r.violation(fn, fn.loc(), "_failed can return normally: get_shareholders would then report no "
                        "UploadUnhappinessError (path: %s)" % w.brief(), w)
        for lp in loops:
            head = [n for n in cfg.nodes if n.kind == "iter" and n.ast is lp]
            if not head:
                continue
            head = head[0]
            t = lp.target.id
            ab = has_call("abort", lambda c, _t=t: call_name(c) == _t + ".abort")
            for w in must_pass(cfg, head, lambda l: l == "iter", ab, lambda n, _h=head: n is _h or n.kind == "exit"):
                r.violation(fn, fn.loc(lp), "a tracker of use_trackers can be skipped without abort() "
                            "(path: %s)" % w.brief(), w)
            for (n, w) in find_path_avoiding(cfg, is_raise, gate_edge=lambda n, lab, _h=head: n is _h and lab == "done"):
                r.violation(fn, fn.loc(n.ast), "UploadUnhappinessError is raised before all trackers were aborted "
                            "(path: %s)" % w.brief(), w)
        # ServerTracker.abort -> abort_some_buckets(all buckets)
        ta = idx.func(TRK + ".abort")
        r.site(ta, None, "ServerTracker.abort")

        def all_buckets(n):
            for c in calls_at(n, "abort_some_buckets"):
                a = arg(c, 0, "sharenums")
                if a is not None and reads(a, "self.buckets"):
                    return True
            return False
        for w in reaches_exit_avoiding(ta.cfg(), all_buckets):
            r.violation(ta, ta.loc(), "ServerTracker.abort can return without abort_some_buckets(<all self.buckets>) "
                        "(path: %s)" % w.brief(), w)
        tb = idx.func(TRK + ".abort_some_buckets")
        r.site(tb, None, "ServerTracker.abort_some_buckets")
        p = first_positional_params(tb)[0]
        okloop = False
        tnorm = N(tb)
        tflow = FlowNorm(tb)
        tcfg = tb.cfg()
        for lp in loops_over(tb, p):
            aborts = []
            for st in lp.body:
                for c in ast.walk(st):
                    if isinstance(c, ast.Call) and call_tail(c) == "abort" and isinstance(c.func, ast.Attribute):
                        rv = c.func.value
                        if isinstance(rv, ast.Subscript) and attr_path(rv.value) == "self.buckets" \
                                and tnorm.norm(rv.slice) == lp.target.id:
                            okloop = True
                            aborts.append(c)
            head = [n for n in tcfg.nodes if n.kind == "iter" and n.ast is lp]
            if not aborts or not head:
                continue
            head = head[0]
            t = lp.target.id

            # every iteration reaches the abort() unless the share number has no bucket (any more)
            def tr(n, lab, nxt, st, _h=head, _t=t, _ab=aborts):
                if st == 0:
                    return 1 if (n is _h and lab == "iter") else None
                if lab == "exc" or infeasible(n, lab) or any(x is c for x in node_calls(n) for c in _ab):
                    return None
                if n.kind == "test" and isinstance(lab, tuple):
                    f = tflow.edge_fact(n, lab)
                    if f and f[0] == "not in" and f[1] == _t and f[2] == "self.buckets":
                        return None
                return 1
            visited, parent = explore(tcfg, 0, tr, start=head)
            r.count(len(visited))
            for (nid, st) in sorted(visited):
                if st == 1 and (tcfg.nodes[nid] is head or tcfg.nodes[nid].kind == "exit"):
                    w = witness(tcfg, parent, (nid, st))
                    r.violation(tb, tb.loc(lp), "abort_some_buckets can skip self.buckets[%s].abort() for a requested "
                                "share number that HAS a bucket (the only admissible skip is '%s not in self.buckets'): "
                                "the allocation of a failed upload stays on the server (path: %s)" % (t, t, w.brief()), w)
                    break

            # ... and the loop is left only when the requested share numbers are exhausted
            def tr2(n, lab, nxt, st, _h=head):
                if lab == "exc" or infeasible(n, lab) or (n is _h and lab == "done"):
                    return None
                return 0
            visited, parent = explore(tcfg, 0, tr2)
            for (nid, st) in sorted(visited):
                if tcfg.nodes[nid].kind == "exit":
                    w = witness(tcfg, parent, (nid, st))
                    r.violation(tb, tb.loc(lp), "abort_some_buckets can return before all requested share numbers "
                                "were visited: the remaining buckets are not aborted (path: %s)" % w.brief(), w)
                    break
        r.require(okloop, tb, tb.loc(), "abort_some_buckets no longer calls self.buckets[n].abort() for each "
                  "requested share number")
        wp = idx.func("immutable.layout:WriteBucketProxy.abort")
        r.site(wp, None, "WriteBucketProxy.abort")

        def remote_abort(n):
            return any(c.args and isinstance(c.args[0], ast.Constant) and c.args[0].value == "abort"
                       for c in calls_at(n, "callRemote"))
        for w in reaches_exit_avoiding(wp.cfg(), remote_abort):
            r.violation(wp, wp.loc(), "WriteBucketProxy.abort can return without callRemote('abort')", w)

    # -- 4. errback discipline for every remote write of the Encoder ---------
    with ctx.rule("C06.4", "E7", "Encoder: the Deferred of every remote call on self.landlords[i] gets "
                  "addErrback(self._remove_shareholder, i, ..) as its first failure handler on every path",
                  expected=7) as r:
        enc = idx.cls(ENC)
        dyn = DynWriters(idx, cg, enc)
        found = {}
        for m in enc.methods.values():
            cands = [(c, c.func.value, None) for c in calls_in_func(m) if isinstance(c.func, ast.Attribute)
                     and c.func.attr not in LOCAL_LANDLORD_CALLS and c.func.attr not in REGS]
            for c in calls_in_func(m):
                g = dyn.shape(m, c)
                if g:
                    cands.append((c, g[0], g[1]))
            if not cands:
                continue
            cfg = None
            fnorm = None
            pm = None
            for (c, recv, name_expr) in cands:
                if not (isinstance(recv, ast.Name) or isinstance(recv, ast.Subscript)):
                    continue
                if cfg is None:
                    cfg = m.cfg()
                    fnorm = FlowNorm(m)
                    pm = parent_map(m)
                node = [n for n in cfg.nodes if any(x is c for x in node_calls(n))]
                if not node:
                    continue
                node = node[0]
                ix = landlord_index(fnorm, node, recv)
                if ix is None:
                    continue
                if name_expr is None:
                    tail = c.func.attr
                    found.setdefault(tail, []).append(m)
                else:
                    # method chosen by name: every name the callers hand in (AnalysisError when not enumerable)
                    tails = sorted(dyn.names(m, name_expr))
                    for t in tails:
                        found.setdefault(t, []).append(m)
                    tail = "|".join(tails)
                    for t in tails[1:]:     # one obligation site per remote method that goes through this call
                        r.site(m, c, "landlords[%s].%s (by name)" % (ix, t))
                r.site(m, c, "landlords[%s].%s" % (ix, tail))
                chain, outer = chained_regs(pm, c)
                regs = [(k, rc, None) for (k, rc) in chain]
                var = None
                par = pm.get(id(outer))
                if isinstance(par, ast.Assign) and par.value is outer and len(par.targets) == 1:
                    var = attr_path(par.targets[0])
                if var:
                    for reg in registrations(m, var=var):
                        regs.append((reg.kind, reg.call, reg))
                first_fail = [x for x in regs if x[0] in ("eb", "both", "pair")]
                if not first_fail:
                    r.violation(m, m.loc(c), "the Deferred of %s on share holder %s escapes %s without "
                                "addErrback(self._remove_shareholder, %s, ..): a failed write would not remove the "
                                "share holder nor re-evaluate happiness" % (tail, ix, short(m), ix))
                    continue
                kind, rc, _ = first_fail[0]
                tgt = rc.args[0] if rc.args else None
                ok = kind == "eb" and is_self_method(tgt, "_remove_shareholder")
                if not r.require(ok, m, m.loc(rc), "the first failure handler on the Deferred of %s (share holder %s) "
                                 "is %s, not self._remove_shareholder: the failure is consumed before the share "
                                 "holder is removed" % (tail, ix, src(m, rc))):
                    continue
                a1 = rc.args[1] if len(rc.args) > 1 else None
                got = fnorm.norm(node, a1) if a1 is not None else None
                r.require(got == ix, m, m.loc(rc), "_remove_shareholder is told share %s but the failed call went to "
                          "share holder %s" % (got, ix))
                # on every path from the call to the function's exit
                if var:
                    regnode = has_call("addErrback", lambda x, _rc=rc: x is _rc)
                    for w in must_pass(cfg, node, lambda l: l != "exc", regnode, lambda n: n.kind == "exit"):
                        r.violation(m, m.loc(c), "the Deferred of %s can leave %s on a path that does not register "
                                    "_remove_shareholder (path: %s)" % (tail, short(m), w.brief()), w)
            if cfg is not None:
                r.count(len(cfg.nodes))
        missing = [t for t in REMOTE_WRITES if t not in found]
        if missing:
            raise AnchorVanished("Encoder no longer calls %s on self.landlords[..]" % ", ".join(missing))

    # -- 5. _remove_shareholder ----------------------------------------------
    with ctx.rule("C06.5", "R1/E3", "_remove_shareholder: abort + forget the landlord (landlords, servermap), then "
                  "normal return only with self.min_happiness <= servers_of_happiness(self.servermap) recomputed "
                  "after the removal", expected=2) as r:
        fn = idx.func(ENC + "._remove_shareholder")
        cfg = fn.cfg()
        ps = first_positional_params(fn)
        if len(ps) < 2:
            raise AnchorVanished("_remove_shareholder(why, shareid, ..) signature")
        sid = ps[1]
        smut = mutates("self.servermap")
        hg = HappinessGate(fn, {"self.min_happiness"}, direct_source="self.servermap", kill=smut)
        bad, nstates = hg.run(lambda n: n.kind == "exit")
        r.count(nstates)
        r.site(fn, None, "normal exit")
        for (n, w) in bad:
            r.violation(fn, fn.loc(), "_remove_shareholder can return normally (upload continues) without "
                        "self.min_happiness <= servers_of_happiness(self.servermap) for the map after the removal "
                        "(path: %s)" % w.brief(), w)
        # removal on the 'known landlord' edge
        fnorm = hg.fnorm

        def known(n, lab):
            f = fnorm.edge_fact(n, lab)
            return bool(f) and f[0] == "in" and f[1] == sid and f[2] == "self.landlords"
        tests = [(n, lab) for n in cfg.nodes if n.kind == "test" for (d, lab) in cfg.succ[n.id] if known(n, lab)]
        if not tests:
            raise AnchorVanished("no '%s in self.landlords' test in _remove_shareholder" % sid)

        def ll_call(tail):
            def p(n):
                for c in calls_at(n, tail):
                    if isinstance(c.func, ast.Attribute) and landlord_index(fnorm, n, c.func.value) == sid:
                        return True
                return False
            return p

        def forget_landlord(n):
            a = n.ast
            if n.kind == "stmt" and isinstance(a, ast.Delete):
                return any(isinstance(t, ast.Subscript) and attr_path(t.value) == "self.landlords"
                           and fnorm.norm(n, t.slice) == sid for t in a.targets)
            for c in calls_at(n, "pop"):
                if call_name(c) == "self.landlords.pop" and c.args and fnorm.norm(n, c.args[0]) == sid:
                    return True
            return False

        def forget_server(n):
            for c in node_calls(n):
                if isinstance(c.func, ast.Attribute) and c.func.attr in ("remove", "discard") and c.args:
                    rv = c.func.value
                    if isinstance(rv, ast.Subscript) and attr_path(rv.value) == "self.servermap" \
                            and fnorm.norm(n, rv.slice) == sid:
                        who = fnorm.norm(n, c.args[0])
                        if re.match(r"^self\.landlords\[%s\]\.get_peerid\(\)$" % re.escape(sid), who):
                            return True
            return False
        recompute = lambda n: n.kind == "stmt" and bool(calls_at(n, "servers_of_happiness"))
        for (tn, lab) in tests:
            r.site(fn, tn.ast, "known-landlord edge")
            for what, gate in (("abort() of the failed landlord", ll_call("abort")),
                               ("removal from self.landlords", forget_landlord),
                               ("removal of its server from self.servermap[%s]" % sid, forget_server)):
                for w in must_pass(cfg, tn, lambda l, _lab=lab: C._lbl_eq(l, _lab), gate,
                                   lambda n: recompute(n) or n.kind == "exit"):
                    r.violation(fn, fn.loc(tn.ast), "happiness is re-evaluated / the function returns without %s "
                                "(path: %s)" % (what, w.brief()), w)
                    break

    # -- 6. a failure reaches Encoder.err; all stages run; close is last ------
    with ctx.rule("C06.6", "E7", "_gather_responses fires on the first failure; every push stage returns the "
                  "gathered Deferred; Encoder.start chains all stages, close last, then addCallbacks(done, err) "
                  "with no earlier failure handler", expected=9) as r:
        fn = idx.func(ENC + "._gather_responses")
        cfg = fn.cfg()
        fnorm = FlowNorm(fn)
        p0 = first_positional_params(fn)[0]

        def dlist(c):
            if not (isinstance(c, ast.Call) and call_tail(c) == "DeferredList"):
                return False
            a0 = arg(c, 0, "deferredList")
            k = kwarg(c, "fireOnOneErrback")
            if k is None and len(c.args) > 2:
                k = c.args[2]
            return isinstance(a0, ast.Name) and a0.id == p0 and isinstance(k, ast.Constant) and k.value is True
        mk = cfg.find(lambda n: n.kind == "stmt" and any(dlist(c) for c in node_calls(n)))
        r.site(fn, None, "_gather_responses")
        r.require(bool(mk), fn, fn.loc(), "_gather_responses does not build DeferredList(%s, fireOnOneErrback=True): "
                  "a failed share holder removal (UploadUnhappinessError) would not fail the upload" % p0)
        for n in cfg.find(is_return):
            v = fnorm.resolve(n, n.ast.value) if n.ast.value is not None else None
            r.require(v is not None and dlist(v), fn, fn.loc(n.ast), "_gather_responses returns %s, not the "
                      "DeferredList that fires on the first failure" % src(fn, v))
        if mk:
            # handlers that consume the failure on the individual Deferreds only after the list observed them
            for reg in registrations(fn):
                if reg.kind == "cb" or reg.recv == "":
                    continue
                rn = [n for n in cfg.nodes if any(x is reg.call for x in node_calls(n))]
                if not rn:
                    continue
                for (n, w) in find_path_avoiding(cfg, lambda x, _n=rn[0]: x is _n, gate_node=lambda x: x in mk):
                    r.violation(fn, fn.loc(reg.call), "a failure handler is added to the individual Deferreds before "
                                "the DeferredList is built: the list would see the failure already consumed "
                                "(path: %s)" % w.brief(), w)
        # stages return the gathered Deferred
        for sname in STAGES:
            sf = idx.func(ENC + "." + sname)
            r.site(sf, None, "stage")
            rets = sf.cfg().find(is_return)
            r.require(bool(rets), sf, sf.loc(), "%s returns nothing: Encoder.start would not wait for the share "
                      "holders nor see their failures" % sname)
            for n in rets:
                v = n.ast.value
                ok = v is not None and (any(call_name(c) == "self._gather_responses" for c in calls_feeding(sf, v))
                                        or via_gathering_helper(sf, n, ()))
                r.require(ok, sf, sf.loc(n.ast), "%s returns %s, which does not come from self._gather_responses(..)"
                          % (sname, src(sf, v)))
            for w in reaches_exit_avoiding(sf.cfg(), is_return):
                r.violation(sf, sf.loc(), "%s can fall off its end without returning the gathered Deferred" % sname, w)
        # the chain in start
        st = idx.func(ENC + ".start")
        r.site(st, None, "Encoder.start chain")
        regs = registrations(st)
        tail = [x for x in regs if x.kind == "pair" and is_self_method(x.target, "done")]
        if not tail:
            r.violation(st, st.loc(), "Encoder.start no longer ends its chain with addCallbacks(self.done, self.err)")
        else:
            t = tail[-1]
            chain = [x for x in regs if x.recv == t.recv]
            r.require(is_self_method(t.errtarget, "err"), st, st.loc(t.call), "the failure side of the final "
                      "addCallbacks is %s, not self.err (remaining share holders would not be aborted)" % src(st, t.errtarget))
            r.require(chain[-1] is t, st, st.loc(chain[-1].call), "a handler is registered after addCallbacks(done, err)")
            for x in chain[:chain.index(t)]:
                if x.kind != "cb":
                    r.violation(st, st.loc(x.call), "failure handler %r registered before addCallbacks(done, err): "
                                "an UploadUnhappinessError would be consumed and the upload reported successful" % x)
            # stage order
            called = []
            for x in chain[:chain.index(t)]:
                if isinstance(x.target, ast.Lambda):
                    names = [call_name(c)[5:] for c in ast.walk(x.target.body) if isinstance(c, ast.Call)
                             and call_name(c).startswith("self.")]
                elif isinstance(x.target, ast.Attribute) and (attr_path(x.target) or "").startswith("self."):
                    names = [attr_path(x.target)[5:]]
                else:
                    names = []
                called.extend(nm for nm in names if nm in STAGES)
            for sname in STAGES:
                r.require(sname in called, st, st.loc(), "Encoder.start no longer runs the stage %s" % sname)
            if called:
                r.require(called[-1] == "close_all_shareholders", st, st.loc(t.call),
                          "the last stage before done() is %s, not close_all_shareholders" % called[-1])
            ret = st.cfg().find(is_return)
            for n in ret:
                r.require(attr_path(n.ast.value) == t.recv, st, st.loc(n.ast), "Encoder.start returns %s, not the "
                          "chain that ends in done/err" % src(st, n.ast.value))

    # -- 7. Encoder.err / done -----------------------------------------------
    with ctx.rule("C06.7", "R1", "Encoder.err aborts every remaining landlord on every path and returns a failure "
                  "(the reported placed shares: C06.11)", expected=1) as r:
        fn = idx.func(ENC + ".err")
        cfg = fn.cfg()
        fp = first_positional_params(fn)[0]
        r.site(fn, None, "Encoder.err")
        loops = []
        for lp in loops_over(fn, "self.landlords"):
            t = lp.target.id
            for stt in lp.body:
                for c in ast.walk(stt):
                    if isinstance(c, ast.Call) and call_tail(c) == "abort" and isinstance(c.func, ast.Attribute):
                        rv = c.func.value
                        if (isinstance(rv, ast.Subscript) and attr_path(rv.value) == "self.landlords"
                                and isinstance(rv.slice, ast.Name) and rv.slice.id == t) or \
                                (isinstance(rv, ast.Name) and rv.id == t and
                                 any(call_tail(x) in ("values",) for x in ast.walk(lp.iter) if isinstance(x, ast.Call))):
                            loops.append((lp, c))
        r.require(bool(loops), fn, fn.loc(), "Encoder.err has no loop aborting self.landlords[..]: partial "
                  "shares stay allocated on the servers after a failed upload")
        for (lp, c) in loops:
            head = [n for n in cfg.nodes if n.kind == "iter" and n.ast is lp][0]
            isab = lambda n, _c=c: any(x is _c for x in node_calls(n))
            for w in must_pass(cfg, head, lambda l: l == "iter", isab, lambda n, _h=head: n is _h or n.kind == "exit"):
                r.violation(fn, fn.loc(lp), "a landlord can be skipped without abort() (path: %s)" % w.brief(), w)
            for w in reaches_exit_avoiding(cfg, lambda n, _h=head: n is _h):
                r.violation(fn, fn.loc(), "Encoder.err can return without aborting the landlords (path: %s)" % w.brief(), w)
        for n in cfg.find(is_return):
            v = n.ast.value
            ok = v is not None and fp in depends_on(fn, v)
            r.require(ok, fn, fn.loc(n.ast), "Encoder.err returns %s: the failure is replaced by a success value" % src(fn, v))
        for w in reaches_exit_avoiding(cfg, is_return):
            r.violation(fn, fn.loc(), "Encoder.err can fall off its end (returns None): the failure becomes a success", w)

    # -- 8. the share-holder proxy hands every remote outcome to its caller ----
    with ctx.rule("C06.8", "E7", "WriteBucketProxy: in every method behind landlords[i].put_*/close the Deferred of "
                  "each remote call (callRemote, or a self-call that performs one) is part of the returned Deferred, "
                  "and no handler on the way replaces its failure - otherwise the Encoder's "
                  "addErrback(_remove_shareholder) of C06.4 never sees the failed write", expected=9) as r:
        pci = idx.cls(PROXY)
        seen = set()
        for ci in [pci] + list(idx.subclasses(pci)):
            pf = ProxyFlow(idx, ci, r)
            for m in pf.scope(REMOTE_WRITES):
                if m.qual in seen:
                    continue
                seen.add(m.qual)
                pf.check_unit(m)
                r.count(len(m.cfg().nodes))
            missing = [t for t in REMOTE_WRITES if t not in pf.eff]
            if missing:
                for t in missing:
                    m = ci.lookup(t)
                    r.violation(m, m.loc(), "%s.%s performs no remote call at all (neither directly nor through a "
                                "helper): the data it is given never reach the server, yet its caller sees success"
                                % (ci.name, t))

    # -- 9. remote close only after the final write succeeded -------------------
    with ctx.rule("C06.9", "E7/R1", "WriteBucketProxy.close: the buffered tail is flushed unless nothing is queued, and "
                  "callRemote('close') is sent only from a success callback of the Deferred carrying that final "
                  "write (a share is finalised - visible and counted - only when complete)", expected=2) as r:
        pci = idx.cls(PROXY)
        seen = set()
        for ci in [pci] + list(idx.subclasses(pci)):
            cl = ci.lookup("close")
            if cl is None:
                raise AnchorVanished("%s.close" % ci.qual)
            if cl.qual in seen:
                continue
            seen.add(cl.qual)
            pf = ProxyFlow(idx, ci, r)
            cfg = cl.cfg()
            fnorm = FlowNorm(cl)
            # all units of close, with their remote effects
            units = []

            def collect(fi, chain):
                units.append((fi, chain))
                for (sub, node) in pf.child_units(fi):
                    collect(sub, chain + [(fi, sub, node)])
            collect(cl, [])
            is_close = lambda c: call_tail(c) == "callRemote" and _const_arg0(c) == "close"
            K = [(fi, chain, c) for (fi, chain) in units for c in pf.effects(fi) if is_close(c)]
            W = [(fi, chain, c) for (fi, chain) in units for c in pf.effects(fi) if not is_close(c)]
            r.site(cl, None, "close")
            if not K:
                r.violation(cl, cl.loc(), "%s never sends callRemote('close'): the share stays in incoming/ and is "
                            "not readable although it is reported as placed" % short(cl))
                continue
            buffered = [t for t in PUTS if ci.lookup(t) is not None and not pf.always_writes(ci.lookup(t))]
            if buffered and not W:
                r.violation(cl, cl.loc(), "%s never flushes the write buffer (no remote write before the remote "
                            "close) although %s may return with data still queued: the share is finalised "
                            "incomplete" % (short(cl), ", ".join(buffered)))
                continue
            # (a) the flush may only be skipped when nothing is queued
            ownW = [c for (fi, chain, c) in W if fi is cl]
            if buffered and ownW:
                wnodes = [pf.node_of(cl, c) for c in ownW]

                def nothing_queued(n, lab):
                    f = fnorm.edge_fact(n, lab)
                    if not f:
                        return False
                    op, a, b = f
                    buf = lambda s: isinstance(s, str) and re.match(r"^self\._write_buffer\.\w+\(\)$", s) is not None
                    return (op in ("<=", "==") and buf(a) and b == "0") or (op == "==" and a == "0" and buf(b)) \
                        or (op == "false" and buf(a))

                def tr(n, lab, nxt, st):
                    if lab == "exc" or infeasible(n, lab) or n in wnodes or nothing_queued(n, lab):
                        return None
                    return 0
                visited, parent = explore(cfg, 0, tr)
                r.count(len(visited))
                for (nid, st) in sorted(visited):
                    if cfg.nodes[nid].kind == "exit":
                        w = witness(cfg, parent, (nid, st))
                        r.violation(cl, cl.loc(), "%s can finish without flushing the write buffer on a path that is "
                                    "not guarded by 'no bytes queued' (self._write_buffer.<count>() == 0): the last "
                                    "batch of share data is never written, the share is finalised incomplete "
                                    "(path: %s)" % (short(cl), w.brief()), w)
                        break
            # (b) close is a success callback of the Deferred that carries each write
            for (kfi, kchain, kc) in K:
                r.site(kfi, kc, "remote close")
                for (wfi, wchain, wc) in W:
                    wname = call_name(wc) or call_tail(wc)
                    # the unit of the write must properly enclose the unit of the close
                    ksubs, wsubs = [x[1] for x in kchain], [x[1] for x in wchain]
                    if not (len(ksubs) > len(wsubs) and ksubs[:len(wsubs)] == wsubs):
                        if kfi is wfi and pf.awaited(kfi, chained_regs(pf.pm(kfi), wc)[1], wname):
                            # coroutine style: `yield write` ... `yield close`; close must not come first
                            kn, wn = pf.node_of(kfi, kc), pf.node_of(kfi, wc)
                            if kn is not wn and not must_pass(kfi.cfg(), kn, lambda l: l != "exc", lambda n: False,
                                                              lambda n, _wn=wn: n is _wn):
                                continue
                        if wsubs[:len(ksubs)] == ksubs:      # same unit, or the close's unit encloses the write's
                            r.violation(kfi, kfi.loc(kc), "%s sends callRemote('close') without waiting for the "
                                        "outcome of %s: the server finalises the share even when that write fails "
                                        "(incomplete share visible to readers / counted as placed)" % (short(cl), wname))
                            continue
                        raise AnalysisError("%s: remote close and %s live in unrelated callbacks (not modelled)"
                                            % (short(cl), wname))
                    (pfi, sub, node) = kchain[len(wchain)]
                    att = pf.attachments(pfi, sub, node)
                    pm = pf.pm(pfi)
                    wchained, wouter = chained_regs(pm, wc)
                    wouter = pf.climb(pfi, wouter)
                    wpar = pm.get(id(wouter))
                    wvar = wpar.targets[0].id if isinstance(wpar, ast.Assign) and len(wpar.targets) == 1 \
                        and isinstance(wpar.targets[0], ast.Name) and wpar.value is wouter else None
                    good = False
                    for (kind, pos, rc) in att:
                        if not ((kind == "cb" and pos == 0) or (kind == "pair" and pos == 0)):
                            continue
                        if any(x is rc for (_k, x) in wchained):
                            good = True
                            break
                        base = rc.func.value
                        while isinstance(base, ast.Call) and isinstance(base.func, ast.Attribute) and base.func.attr in REGS:
                            base = base.func.value
                        if wvar is not None and isinstance(base, ast.Name) and base.id == wvar:
                            wn = pf.node_of(pfi, wc)
                            rn = pf.node_of(pfi, rc)
                            redefined = lambda n, _v=wvar, _wn=wn: n.kind == "stmt" and _v in node_stores(n) and n is not _wn
                            if not must_pass(pfi.cfg(), wn, lambda l: l != "exc", lambda n, _rn=rn: n is _rn,
                                             lambda n: n.kind == "exit" or redefined(n)):
                                good = True
                                break
                    if not good:
                        r.violation(pfi, pfi.loc(node), "%s: the callback that sends callRemote('close') is not a "
                                    "success callback (addCallback) of the Deferred of %s on every path: the share "
                                    "is finalised without waiting for / regardless of the outcome of the final "
                                    "write" % (short(cl), wname))

    # -- 10. every write Deferred of a push stage is an element of the gathered list ----
    with ctx.rule("C06.10", "E7", "push stages: the Deferred of every remote call on a landlord (made directly or by a "
                  "send_* helper) is put, on every path, into the list handed to self._gather_responses - otherwise "
                  "the UploadUnhappinessError raised by _remove_shareholder is never observed and done() runs "
                  "before the write finished", expected=7) as r:
        enc = idx.cls(ENC)
        dyn = DynWriters(idx, cg, enc)
        direct = {}
        for m in enc.methods.values():
            lc = landlord_calls(m, dyn)
            if lc:
                direct[m.name] = lc

        def self_calls(m):
            out = []
            for c in calls_in_func(m):
                nm = call_name(c) or ""
                if nm.startswith("self.") and nm.count(".") == 1:
                    out.append((c, nm[5:]))
            return out
        # helpers (not stages) that return the gathered Deferred: checked like a stage; a call of one must be returned
        gathering = {nm for nm in enc.methods if nm not in STAGES and nm != "_gather_responses"
                     and gathering_helper(nm, ())}
        # writers: methods whose result is the Deferred of a remote write - they make the call themselves or
        # forward (return) the result of another writer
        writers = {nm: lc for (nm, lc) in direct.items() if nm not in gathering}
        forwarders = set()
        changed = True
        while changed:
            changed = False
            for m in enc.methods.values():
                if m.name in writers or m.name in STAGES or m.name in gathering or m.name == "_gather_responses":
                    continue
                hits = [c for (c, x) in self_calls(m) if x in writers and x not in STAGES]
                if not hits or not direct:
                    continue
                pmm = parent_map(m)
                if all(isinstance(pmm.get(id(chained_regs(pmm, c)[1])), ast.Return) for c in hits):
                    writers[m.name] = []
                    forwarders.add(m.name)
                    changed = True
        g_writes = set()
        changed = True
        while changed:
            changed = False
            for nm in gathering - g_writes:
                m = enc.lookup(nm)
                if nm in direct or any(x in writers or x in g_writes for (_c, x) in self_calls(m)):
                    g_writes.add(nm)
                    changed = True

        def cfg_node_of(fi, e):
            for n in fi.cfg().nodes:
                if n.kind in ("entry", "exit", "raise"):
                    continue
                for ex in node_exprs(n):
                    if any(y is e for y in own_nodes(ex)):
                        return n
            raise AnalysisError("no CFG node evaluates %s in %s" % (src(fi, e), short(fi)))

        def is_gather(c, L=None):
            if call_name(c) != "self._gather_responses":
                return False
            a0 = arg(c, 0, "dl")
            return L is None or (isinstance(a0, ast.Name) and a0.id == L)

        for sname in tuple(STAGES) + tuple(sorted(g_writes)):
            sf = idx.func(ENC + "." + sname)
            cfg = sf.cfg()
            pm = parent_map(sf)
            sources = [(c, "self.landlords[%s].%s(..)" % (ix, writer_tail(c))) for (c, _n, ix) in direct.get(sname, [])]
            handed_on = 0
            for c in calls_in_func(sf):
                nm = call_name(c) or ""
                if nm.startswith("self.") and nm.count(".") == 1 and nm[5:] in writers and nm[5:] not in STAGES:
                    sources.append((c, nm + "(..)"))
                elif nm.startswith("self.") and nm.count(".") == 1 and nm[5:] in g_writes:
                    # the helper gathers its own writes (checked as a unit of its own): its result must be what
                    # this function returns
                    if not isinstance(pm.get(id(c)), ast.Return):
                        raise AnalysisError("%s: the gathered Deferred of %s(..) is not returned directly: %s" % (
                            short(sf), nm, src(sf, pm.get(id(c)) or c)))
                    r.site(sf, c, "gathered Deferred of %s(..) returned" % nm)
                    handed_on += 1
            if not sources and not handed_on:
                raise AnchorVanished("%s makes no remote call on a landlord (neither directly nor through a helper)"
                                     % short(sf))
            r.count(len(cfg.nodes))
            for (c, what) in sources:
                r.site(sf, c, "write Deferred of %s" % what)
                _chain, outer = chained_regs(pm, c)
                p = pm.get(id(outer))
                lists = []
                if isinstance(p, ast.Assign) and p.value is outer and len(p.targets) == 1 \
                        and isinstance(p.targets[0], ast.Name):
                    v = p.targets[0].id
                    start = cfg_node_of(sf, outer)

                    def added_to(n, _v=v):
                        for (L, e) in list_adds(n):
                            b = strip_regs(e)
                            if isinstance(b, ast.Name) and b.id == _v:
                                return L
                        return None
                    lost = must_pass(cfg, start, lambda l: l != "exc", lambda n: added_to(n) is not None,
                                     lambda n, _s=start, _v=v: n.kind == "exit" or (
                                         n is not _s and n.kind in ("stmt", "iter", "with", "except")
                                         and _v in node_stores(n)))
                    if lost:
                        w = lost[0]
                        r.violation(sf, sf.loc(c), "%s: the Deferred of %s (in %s) is not appended to the list of "
                                    "responses on some path: %s does not wait for this write, and when it fails and "
                                    "_remove_shareholder raises UploadUnhappinessError nobody observes it - the upload "
                                    "goes on to done() below the happiness threshold (path: %s)"
                                    % (short(sf), what, v, short(sf), w.brief()), w)
                        continue
                    for n in cfg.nodes:
                        if n.kind == "stmt" and added_to(n) is not None:
                            lists.append((n, added_to(n)))
                elif isinstance(p, ast.Expr):
                    r.violation(sf, sf.loc(c), "%s: the Deferred of %s is dropped (statement value discarded) instead "
                                "of being gathered: its failure / the UploadUnhappinessError of _remove_shareholder is "
                                "never observed" % (short(sf), what))
                    continue
                else:
                    q = pm.get(id(p)) if isinstance(p, (ast.List, ast.Tuple, ast.ListComp)) else None
                    if isinstance(q, ast.Call) and is_gather(q) and q.args and q.args[0] is p:
                        continue        # self._gather_responses([.. the call ..])
                    A = cfg_node_of(sf, outer)
                    here = [L for (L, e) in list_adds(A) if e is outer]
                    if not here:
                        raise AnalysisError("%s: the Deferred of %s is used in a context that is not modelled: %s" % (
                            short(sf), what, src(sf, p)))
                    lists.extend((A, L) for L in here)
                for (A, L) in lists:
                    gate = lambda n, _L=L: any(is_gather(x, _L) for x in node_calls(n))

                    def kill(n, _L=L, _A=A, _g=gate):
                        if n is _A or _g(n) or n.kind not in ("stmt", "iter", "with", "except"):
                            return False
                        st = node_stores(n)
                        if (_L in st and not (isinstance(n.ast, ast.AugAssign) and isinstance(n.ast.op, ast.Add))) \
                                or (_L + "[]") in st:
                            return True
                        return any(isinstance(x.func, ast.Attribute) and x.func.attr in ("pop", "remove", "clear")
                                   and isinstance(x.func.value, ast.Name) and x.func.value.id == _L
                                   for x in node_calls(n))
                    for w in must_pass(cfg, A, lambda l: l != "exc", gate, lambda n: n.kind == "exit" or kill(n)):
                        r.violation(sf, sf.loc(c), "%s: the list %s that holds the Deferred of %s is re-bound / emptied "
                                    "or never handed to self._gather_responses on some path: the stage does not wait "
                                    "for this write nor see the UploadUnhappinessError of its removal (path: %s)"
                                    % (short(sf), L, what, w.brief()), w)
                        break

    # -- 11. the set of placed shares that is reported ---------------------------------
    with ctx.rule("C06.11", "R1/E4", "the placed-share set is read from the surviving self.landlords only at "
                  "completion: Encoder._shares_placed is bound (to a copy/filter of self.landlords, nothing added) in "
                  "done() or a helper that only done() reaches - earlier only to a live view or an empty value; "
                  "get_shares_placed returns it; CHKUploader._encrypted_done runs after `yield encoder.start()` and "
                  "enters into UploadResults' sharemap/servermap only share numbers iterated from "
                  "encoder.get_shares_placed(), each with the server of self._server_trackers[<that share>]",
                  expected=5) as r:
        enc = idx.cls(ENC)
        dn = idx.func(ENC + ".done")
        gs = idx.func(ENC + ".get_shares_placed")
        ATTR = "self._shares_placed"

        def node_evaluating(fi, e):
            for n in fi.cfg().nodes:
                if n.kind in ("entry", "exit", "raise"):
                    continue
                for ex in node_exprs(n):
                    if any(y is e for y in own_nodes(ex, into_lambda=True)):
                        return n
            raise AnalysisError("no CFG node evaluates %s in %s" % (src(fi, e), short(fi)))

        # (a) completion units: done, and Encoder methods referenced only from completion units
        comp = {dn.qual}
        changed = True
        while changed:
            changed = False
            for m in enc.methods.values():
                if m.qual in comp or m.name.startswith("__"):
                    continue
                users = [cs.fn for cs in cg.calls_named(m.name)] + \
                        [f for (f, nd) in cg.refs_named(m.name) if isinstance(nd, ast.Attribute)]
                if users and all(top_unit(f).qual in comp for f in users):
                    comp.add(m.qual)
                    changed = True
        in_completion = lambda f: top_unit(f).qual in comp

        # (b) what get_shares_placed hands out
        rets = gs.cfg().find(is_return)
        if not rets:
            raise AnchorVanished("Encoder.get_shares_placed returns nothing")
        gnorm = FlowNorm(gs)
        uses_attr = False
        for n in rets:
            v = n.ast.value
            rv = gnorm.resolve(n, v) if isinstance(v, ast.Name) else v
            r.site(gs, n.ast, "value handed to the uploader")
            if attr_path(rv) == ATTR:
                uses_attr = True
            elif landlord_subset(gnorm, n, rv):
                # computed on demand; (d) below establishes that the uploader asks only after completion
                r.site(gs, n.ast, "placed set read from self.landlords on demand")
            else:
                r.violation(gs, gs.loc(n.ast), "get_shares_placed returns %s, which is neither self._shares_placed "
                            "nor a copy/filter of the surviving self.landlords" % src(gs, v))

        # (c) every binding of the attribute
        stores_ = [(f, nd) for (f, nd) in cg.attr_stores("_shares_placed")
                   if top_unit(f).cls is not None and top_unit(f).cls.name == "Encoder"]
        final = 0
        for (f, nd) in stores_:
            sn = [n for n in f.cfg().nodes if n.kind in ("stmt", "iter", "with", "except")
                  and (ATTR in node_stores(n) or (ATTR + "[]") in node_stores(n))
                  and any(y is nd for ex in node_exprs(n) for y in own_nodes(ex))]
            if not sn:
                sn = [n for n in f.cfg().nodes if n.kind == "stmt" and any(y is nd for y in ast.walk(n.ast))]
            if not sn:
                raise AnalysisError("store of %s in %s has no CFG node" % (ATTR, short(f)))
            n = sn[0]
            v = assign_value(n, ATTR)
            fnorm = FlowNorm(f)
            rv = fnorm.resolve(n, v) if isinstance(v, ast.Name) else v
            if in_completion(f):
                r.site(f, n.ast, "binding at completion")
                if v is None:
                    raise AnalysisError("%s: %s is bound by %s (form not modelled)" % (short(f), ATTR, src(f, n.ast)))
                if landlord_subset(fnorm, n, rv):
                    final += 1
                elif empty_value(rv):
                    pass
                elif "self.landlords" not in depends_on(f, v):
                    r.violation(f, f.loc(n.ast), "_shares_placed is %s, not derived from the surviving self.landlords "
                                "at completion: share holders that were removed (and aborted) after that value was "
                                "computed are still reported as placed" % src(f, v))
                else:
                    r.violation(f, f.loc(n.ast), "_shares_placed is %s, which is not provably a copy/filter of the "
                                "surviving self.landlords (something else is merged in): shares without a surviving "
                                "share holder can be reported as placed" % src(f, v))
            else:
                r.site(f, n.ast, "binding before completion")
                if v is not None and (empty_value(rv) or live_landlord_view(rv)):
                    continue
                r.violation(f, f.loc(n.ast), "%s binds _shares_placed = %s, but %s can run before the share holders "
                            "have answered their last request (close): a share holder that fails afterwards is "
                            "removed and aborted by _remove_shareholder yet stays in the placed set that the "
                            "UploadResults report (only done(), after the gathered close stage, may snapshot "
                            "self.landlords)" % (short(f), src(f, v) if v is not None else src(f, n.ast), short(f)))
        for m in enc.methods.values():
            for c in calls_in_func(m):
                if isinstance(c.func, ast.Attribute) and c.func.attr in GROWING \
                        and base_path(c.func.value) == ATTR:
                    raise AnalysisError("%s grows %s in place (%s): not modelled" % (short(m), ATTR, src(m, c)))
        if uses_attr and not final and not r.violations:
            raise AnchorVanished("no completion unit of Encoder (done or a helper only it reaches) binds "
                                 "self._shares_placed from self.landlords")

        # (d) the uploader reads the set only after the encoder finished
        ed = idx.func(CHK + "._encrypted_done")
        se = idx.func(CHK + ".start_encrypted")
        bad, badrefs, total = callers_outside(idx, "_encrypted_done", [se.qual])
        for cs in bad:
            r.violation(cs.fn, cs.fn.loc(cs.call), "_encrypted_done (which builds the UploadResults from the "
                        "encoder's placed set) is called from %s, outside start_encrypted" % short(cs.fn))
        for (f, nd) in badrefs:
            r.violation(f, f.loc(nd), "_encrypted_done is passed around in %s, outside start_encrypted" % short(f))
        scfg = se.cfg()
        snorm = FlowNorm(se)
        want_start = norm_src("self._encoder.start()")

        def awaits_encoder(n):
            for ex in node_exprs(n):
                for y in own_nodes(ex):
                    if isinstance(y, (ast.Yield, ast.Await, ast.YieldFrom)) and y.value is not None \
                            and snorm.norm(n, strip_regs(y.value)) == want_start:
                        return True
            return False
        call_nodes = scfg.find(lambda n: n.kind != "test" and any(call_name(c) == "self._encrypted_done"
                                                                    for c in node_calls(n)))
        cbs = [reg for reg in registrations(se) if is_self_method(reg.target, "_encrypted_done")
               or (reg.errtarget is not None and is_self_method(reg.errtarget, "_encrypted_done"))]
        if not call_nodes and not cbs:
            raise AnchorVanished("start_encrypted no longer runs self._encrypted_done")
        if call_nodes and (any(isinstance(x, ast.Try) for x in func_own_nodes(se))
                           or not any((attr_path(d) or "").split(".")[-1] in ("inlineCallbacks", "inline_callbacks")
                                      for d in se.decorators())):
            raise AnalysisError("start_encrypted is not a plain inlineCallbacks body (try / no decorator): the "
                                "ordering of `yield encoder.start()` and _encrypted_done is not modelled")
        for n in call_nodes:
            r.site(se, n.ast, "results built after the encoder finished")
        for (n, w) in find_path_avoiding(scfg, lambda x: x in call_nodes, gate_node=awaits_encoder):
            r.violation(se, se.loc(n.ast), "start_encrypted can build the UploadResults (_encrypted_done) without "
                        "having awaited self._encoder.start(): the placed set is read before the share holders "
                        "answered (path: %s)" % w.brief(), w)
        sdefs = def_exprs(se)
        for reg in cbs:
            r.site(se, reg.call, "results built after the encoder finished")
            base = strip_regs(reg.call)
            cands = [base] if not isinstance(base, ast.Name) else list(sdefs.get(base.id, []))
            ok = reg.kind in ("cb", "pair") and is_self_method(reg.target, "_encrypted_done") and cands and all(
                N(se).norm(strip_regs(x)) == want_start for x in cands)
            r.require(ok, se, se.loc(reg.call), "_encrypted_done is registered by %s, which is not a success callback "
                      "of the Deferred of self._encoder.start()" % src(se, reg.call))

        # (e) what the UploadResults name as placed
        ecfg = ed.cfg()
        enorm = FlowNorm(ed)
        epm = parent_map(ed)
        want_iter = norm_src("self._encoder.get_shares_placed()")
        urs = [c for c in calls_in_func(ed) if call_tail(c) == "UploadResults"]
        if not urs:
            raise AnchorVanished("_encrypted_done no longer builds UploadResults(..)")
        for c in urs:
            for kw, pos in (("sharemap", 4), ("servermap", 5)):
                a = arg(c, pos, kw)
                if a is None:
                    raise AnchorVanished("UploadResults(..) is built without %s" % kw)
                if not isinstance(a, ast.Name):
                    raise AnalysisError("UploadResults(%s=%s): not a local container (not modelled)" % (kw, src(ed, a)))
                v = a.id
                binds = [x.value for x in func_own_nodes(ed) if isinstance(x, (ast.Assign, ast.AnnAssign))
                         and x.value is not None
                         and any(isinstance(t, ast.Name) and t.id == v
                                 for t in (x.targets if isinstance(x, ast.Assign) else [x.target]))]
                if not binds or v in ed.params:
                    raise AnalysisError("_encrypted_done: %s is not bound by a plain assignment (not modelled)" % v)
                def other_targets(x):
                    if isinstance(x, (ast.AugAssign, ast.For, ast.NamedExpr, ast.comprehension)):
                        return [x.target]
                    if isinstance(x, ast.With):
                        return [i.optional_vars for i in x.items if i.optional_vars is not None]
                    return []
                if any(isinstance(y, ast.Name) and y.id == v for x in func_own_nodes(ed, into_lambda=True)
                       for t in other_targets(x) for y in ast.walk(t)):
                    raise AnalysisError("_encrypted_done: %s is re-bound by a loop/augmented assignment (not modelled)" % v)
                for dv in binds:
                    if not (isinstance(dv, ast.Call) and not dv.args and not dv.keywords) and not empty_value(dv):
                        raise AnalysisError("_encrypted_done: %s starts as %s, not as an empty container "
                                            "(not modelled)" % (v, src(ed, dv)))
                def unwrap(val):
                    """{x} / [x] / set([x]) -> [x]; an empty container -> []."""
                    if empty_value(val):
                        return []
                    if isinstance(val, (ast.Set, ast.List, ast.Tuple)):
                        return list(val.elts)
                    if isinstance(val, ast.Call) and isinstance(val.func, ast.Name) and val.func.id in SET_COPIES \
                            and len(val.args) == 1 and isinstance(val.args[0], (ast.Set, ast.List, ast.Tuple)):
                        return list(val.args[0].elts)
                    return [val]
                grows = []      # (construct, key expression, [value expressions])
                for x in func_own_nodes(ed, into_lambda=True):
                    if isinstance(x, ast.Call) and isinstance(x.func, ast.Attribute) and x.func.attr in GROWING \
                            and base_path(x.func.value) == v:
                        rcv = x.func.value
                        if isinstance(rcv, ast.Name) and x.func.attr == "add" and len(x.args) == 2 and not x.keywords:
                            grows.append((x, x.args[0], [x.args[1]]))           # DictOfSets.add(key, value)
                        elif isinstance(rcv, ast.Name) and x.func.attr == "setdefault" and x.args:
                            grows.append((x, x.args[0], [y for a_ in x.args[1:] for y in unwrap(a_)]))
                        elif isinstance(rcv, ast.Subscript) and isinstance(rcv.value, ast.Name):
                            grows.append((x, rcv.slice, [y for a_ in x.args for y in unwrap(a_)]))
                        elif isinstance(rcv, ast.Call) and call_name(rcv) == v + ".setdefault" and rcv.args:
                            grows.append((x, rcv.args[0], [y for a_ in x.args for y in unwrap(a_)]))
                        else:
                            raise AnalysisError("_encrypted_done: %s is filled by %s (form not modelled)" % (v, src(ed, x)))
                    elif isinstance(x, (ast.Assign, ast.AugAssign)):
                        for t in (x.targets if isinstance(x, ast.Assign) else [x.target]):
                            if isinstance(t, ast.Subscript) and base_path(t) == v:
                                if not isinstance(t.value, ast.Name):
                                    raise AnalysisError("_encrypted_done: %s is filled by %s (form not modelled)"
                                                        % (v, src(ed, x)))
                                grows.append((x, t.slice, unwrap(x.value)))
                if not grows:
                    raise AnchorVanished("_encrypted_done puts nothing into the %s of the UploadResults" % kw)
                for (g, key, vals) in grows:
                    gn = node_evaluating(ed, g) if isinstance(g, ast.Call) else \
                        [n for n in ecfg.nodes if n.kind == "stmt" and n.ast is g][0]
                    r.site(ed, g, "entry of UploadResults.%s" % kw)
                    placed_vars = [t.id for (t, it) in enclosing_loops(epm, g) if isinstance(t, ast.Name)
                                   and enorm.norm(gn, strip_copies(it)) == want_iter]
                    if not placed_vars:
                        r.violation(ed, ed.loc(g), "UploadResults.%s gets the entry %s outside a loop over "
                                    "self._encoder.get_shares_placed(): a share that has no surviving share holder "
                                    "(removed and aborted after a failed write/close) can be reported as placed"
                                    % (kw, src(ed, g)))
                        continue
                    pat = re.compile(r"^self\._server_trackers\[(%s)\]\.\w+\(\)$"
                                     % "|".join(re.escape(t) for t in placed_vars))
                    kform = enorm.norm(gn, key)
                    vforms = [enorm.norm(gn, x) for x in vals]
                    # sharemap: {share number: servers}; servermap: {server: share numbers}
                    shares, servers = ([kform], vforms) if kw == "sharemap" else (vforms, [kform])
                    bad_sh = [fm for fm in shares if fm not in placed_vars]
                    if not r.require(not bad_sh, ed, ed.loc(g), "UploadResults.%s entry %s: the share number is %s, "
                                     "not the one iterated from get_shares_placed() (%s)"
                                     % (kw, src(ed, g), ", ".join(bad_sh), ", ".join(placed_vars))):
                        continue
                    bad_sv = [fm for fm in servers if not pat.match(fm)]
                    r.require(not bad_sv, ed, ed.loc(g), "UploadResults.%s entry %s: the server named for share %s is "
                              "%s, not the server of self._server_trackers[%s] (the tracker whose bucket became that "
                              "share holder)" % (kw, src(ed, g), placed_vars[0], ", ".join(bad_sv), placed_vars[0]))

    # -- 12. one writer per share: the landlords handed to the Encoder and the servermap it evaluates agree -----
    with ctx.rule("C06.12", "R1/E3", "CHKUploader.set_shareholders: the share-holder dictionary is merged per share number "
                  "(a later tracker silently replaces an earlier one) while the servermap counts every tracker's server, "
                  "so encoder.set_shareholders(..) is reached only after a test that fails when two trackers hold the "
                  "same share number; the servermap names a tracker's server only for that tracker's own buckets",
                  expected=4) as r:
        fn = idx.func(CHK + ".set_shareholders")
        cfg = fn.cfg()
        fnorm = FlowNorm(fn)
        pm = parent_map(fn)
        defs = def_exprs(fn)
        ps = first_positional_params(fn)
        if len(ps) < 3:
            raise AnchorVanished("CHKUploader.set_shareholders(upload_trackers, already_serverids, encoder)")
        tpar = ps[0]
        hands = [(n, c) for n in cfg.nodes if n.kind in ("stmt", "test") for c in node_calls(n)
                 if call_tail(c) == "set_shareholders" and isinstance(c.func, ast.Attribute)
                 and isinstance(c.func.value, ast.Name) and c.func.value.id in ps]
        if not hands:
            raise AnchorVanished("encoder.set_shareholders(..) call in CHKUploader.set_shareholders")

        def unwrap(e):
            """dict(x) / x.copy() / x.keys() / set(x) / list(x) / sorted(x) -> x"""
            while True:
                if isinstance(e, ast.Call) and isinstance(e.func, ast.Attribute) and e.func.attr in ("copy", "keys") and not e.args:
                    e = e.func.value
                elif isinstance(e, ast.Call) and isinstance(e.func, ast.Name) and len(e.args) == 1 and not e.keywords \
                        and e.func.id in ("dict", "set", "list", "sorted", "tuple", "frozenset"):
                    e = e.args[0]
                else:
                    return e

        def path_of(e):
            e = unwrap(e)
            return e.id if isinstance(e, ast.Name) else attr_path(e) if isinstance(e, ast.Attribute) else None

        def bucket_owner(e, tvars):
            """e reads <t>.buckets of a tracker variable t -> t"""
            for l in leaves(e):
                m_ = re.match(r"^(\w+)\.buckets(\.|$)", l)
                if m_ and m_.group(1) in tvars:
                    return m_.group(1)
            return None
        # loops over the trackers, and over the share numbers of one tracker
        all_loops = []          # (target, iter, owner ast node)
        for x in func_own_nodes(fn, into_lambda=True):
            if isinstance(x, ast.For):
                all_loops.append((x.target, x.iter, x))
            elif isinstance(x, (ast.ListComp, ast.SetComp, ast.DictComp, ast.GeneratorExp)):
                all_loops.extend((g.target, g.iter, x) for g in x.generators)
        tvars = {t.id for (t, it, _) in all_loops if isinstance(t, ast.Name)
                 and tpar in depends_on(fn, it, defs=defs) and not any(re.search(r"\.buckets(\.|$)", l) for l in leaves(it))}
        if not tvars:
            raise AnchorVanished("loop over %s in CHKUploader.set_shareholders" % tpar)
        svars = {}              # share variable -> tracker variable
        for (t, it, _) in all_loops:
            o = bucket_owner(it, tvars)
            if o is None:
                continue
            if isinstance(t, ast.Name):
                svars[t.id] = o
            elif isinstance(t, ast.Tuple) and t.elts and isinstance(t.elts[0], ast.Name) and "items" in {
                    c.func.attr for c in ast.walk(it) if isinstance(c, ast.Call) and isinstance(c.func, ast.Attribute)}:
                svars[t.elts[0].id] = o

        def in_loop_of(node, var):
            return any(var in {y.id for y in ast.walk(t) if isinstance(y, ast.Name)} for (t, it) in enclosing_loops(pm, node))

        def share_owner(node, name):
            """The tracker variable whose .buckets the innermost enclosing loop binding `name` iterates, else None."""
            for (t, it) in enclosing_loops(pm, node):
                if name in {y.id for y in ast.walk(t) if isinstance(y, ast.Name)}:
                    if isinstance(t, ast.Name) or (isinstance(t, ast.Tuple) and t.elts and isinstance(t.elts[0], ast.Name)
                                                   and t.elts[0].id == name):
                        return bucket_owner(it, tvars)
                    return None
            return None

        def empty_dict(e):
            return (isinstance(e, ast.Dict) and not e.keys) or (
                isinstance(e, ast.Call) and isinstance(e.func, ast.Name) and e.func.id == "dict" and not e.args and not e.keywords)
        # mappings keyed by share number that start empty and are filled tracker by tracker: a share number two
        # trackers hold is stored once (the later tracker wins)
        merged = {}
        for n in cfg.nodes:
            if n.kind != "stmt":
                continue
            for c in node_calls(n):
                if isinstance(c.func, ast.Attribute) and c.func.attr == "update" and len(c.args) == 1:
                    o = bucket_owner(c.args[0], tvars)
                    pth = path_of(c.func.value)
                    if o and pth and in_loop_of(c, o):
                        merged.setdefault(pth, []).append(n)
            if isinstance(n.ast, ast.Assign):
                for t in n.ast.targets:
                    if isinstance(t, ast.Subscript) and isinstance(t.slice, ast.Name) and share_owner(n.ast, t.slice.id):
                        pth = path_of(t.value)
                        if pth:
                            merged.setdefault(pth, []).append(n)
        merged = {k: v for k, v in merged.items() if any(empty_dict(d) for d in defs.get(k, []))}

        def collapsed(n, e):
            e = fnorm.resolve(n, e)
            return isinstance(e, ast.Call) and isinstance(e.func, ast.Name) and e.func.id == "len" and len(e.args) == 1 \
                and path_of(e.args[0]) in merged

        def len_of_buckets(e):
            return isinstance(e, ast.Call) and isinstance(e.func, ast.Name) and e.func.id == "len" and len(e.args) == 1 \
                and re.match(r"^(\w+)\.buckets$", path_of(e.args[0]) or "") and path_of(e.args[0]).split(".")[0]

        def trackers_iter(it):
            return tpar in depends_on(fn, it, defs=defs) and not any(re.search(r"\.buckets(\.|$)", l) for l in leaves(it))

        def separate(n, e):
            """e counts the buckets of every tracker one by one (a share number held twice counts twice)."""
            e = fnorm.resolve(n, e)
            if isinstance(e, ast.Call) and isinstance(e.func, ast.Name) and e.func.id == "sum" and len(e.args) == 1 \
                    and isinstance(e.args[0], (ast.ListComp, ast.GeneratorExp)):
                comp = e.args[0]
                gs = comp.generators
                if any(g.ifs for g in gs) or not isinstance(gs[0].target, ast.Name) or not trackers_iter(gs[0].iter):
                    return False
                tv = gs[0].target.id
                if len(gs) == 1:
                    return len_of_buckets(comp.elt) == tv
                return len(gs) == 2 and bucket_owner(gs[1].iter, {tv}) == tv and isinstance(comp.elt, ast.Constant) \
                    and comp.elt.value == 1
            if isinstance(e, ast.Name) and e.id not in ps:
                # counter: x = 0; x = x + len(t.buckets) per tracker / x = x + 1 per share
                incs, ok = 0, True
                for x in func_own_nodes(fn):
                    tg = x.targets[0] if isinstance(x, ast.Assign) and len(x.targets) == 1 else \
                        x.target if isinstance(x, ast.AugAssign) else None
                    if not (isinstance(tg, ast.Name) and tg.id == e.id):
                        continue
                    v = aug_value(x) if isinstance(x, ast.AugAssign) else x.value
                    if isinstance(v, ast.Constant) and v.value == 0:
                        continue
                    if isinstance(v, ast.BinOp) and isinstance(v.op, ast.Add):
                        a, b = v.left, v.right
                        if isinstance(b, ast.Name) and b.id == e.id:
                            a, b = b, a
                        if isinstance(a, ast.Name) and a.id == e.id:
                            tv = len_of_buckets(b)
                            if tv and tv in tvars and in_loop_of(x, tv):
                                incs += 1
                                continue
                            if isinstance(b, ast.Constant) and b.value == 1 and any(share_owner(x, sv) for sv in svars):
                                incs += 1
                                continue
                    ok = False
                return ok and incs > 0
            if isinstance(e, ast.Call) and isinstance(e.func, ast.Name) and e.func.id == "len" and len(e.args) == 1 \
                    and isinstance(e.args[0], ast.Name) and e.args[0].id not in ps:
                # list of all share numbers: q = []; q.extend(t.buckets) / q.append(shnum)
                q = e.args[0].id
                ds = defs.get(q, [])
                if not any(isinstance(d, ast.List) and not d.elts for d in ds):
                    return False
                fills = 0
                for x in func_own_nodes(fn):
                    if isinstance(x, ast.Call) and isinstance(x.func, ast.Attribute) and path_of(x.func.value) == q \
                            and isinstance(x.func.value, ast.Name):
                        if x.func.attr == "extend" and len(x.args) == 1 and bucket_owner(x.args[0], tvars) \
                                and in_loop_of(x, bucket_owner(x.args[0], tvars)):
                            fills += 1
                        elif x.func.attr == "append" and len(x.args) == 1 and isinstance(x.args[0], ast.Name) \
                                and share_owner(x, x.args[0].id):
                            fills += 1
                        elif x.func.attr in MUTATORS:
                            return False
                return fills > 0 and all((isinstance(d, ast.List) and not d.elts) or bucket_owner(d, tvars)
                                         or (isinstance(d, ast.Name) and d.id in svars) for d in ds)
            return False

        def relation(n, lab):
            """(op, a, b) with op '==' or '<=' that holds on the edge, for an atomic comparison."""
            if n.kind != "test" or not isinstance(lab, tuple) or not isinstance(n.ast, ast.Compare) or len(n.ast.ops) != 1:
                return None
            pos = lab[0] == "T"
            a, b, op = n.ast.left, n.ast.comparators[0], n.ast.ops[0]
            if (isinstance(op, ast.Eq) and pos) or (isinstance(op, ast.NotEq) and not pos):
                return ("==", a, b)
            if (isinstance(op, ast.LtE) and pos) or (isinstance(op, ast.Gt) and not pos):
                return ("<=", a, b)
            if (isinstance(op, ast.GtE) and pos) or (isinstance(op, ast.Lt) and not pos):
                return ("<=", b, a)
            if (isinstance(op, ast.NotIn) and pos) or (isinstance(op, ast.In) and not pos):
                return ("not in", a, b)
            return None

        def total_gate(n, lab):
            rel = relation(n, lab)
            if rel is None or rel[0] == "not in":
                return False
            op, a, b = rel
            if separate(n, a) and collapsed(n, b):
                return True
            return op == "==" and collapsed(n, a) and separate(n, b)

        def share_gate(n, lab):
            rel = relation(n, lab)
            return rel is not None and rel[0] == "not in" and isinstance(rel[1], ast.Name) \
                and bool(share_owner(rel[1], rel[1].id)) and path_of(rel[2]) in merged
        for (hn, hc) in hands:
            r.site(fn, hc, "hand-over to the Encoder")
            la, ma = arg(hc, 0, "landlords"), arg(hc, 1, "servermap")
            lp = (path_of(la) or path_of(fnorm.resolve(hn, la))) if la is not None else None
            mp = (path_of(ma) or path_of(fnorm.resolve(hn, ma))) if ma is not None else None
            if lp is None or mp is None:
                raise AnalysisError("set_shareholders hands %s to the Encoder: landlords / servermap are not plain "
                                    "variables (form not modelled)" % src(fn, hc))
            if lp not in merged:
                raise AnalysisError("the share holders %s handed to the Encoder are not merged from the buckets of the "
                                    "trackers in %s (form not modelled)" % (lp, tpar))
            for mnode in merged[lp][:1]:
                r.site(fn, mnode.ast, "share holders merged per share number")
            # what the servermap (the layout the Encoder judges happiness on) gets per tracker
            accs = []
            for n in cfg.nodes:
                if n.kind != "stmt":
                    continue
                for c in node_calls(n):
                    if isinstance(c.func, ast.Attribute) and c.func.attr in ("add", "update", "append") \
                            and (base_path(c.func.value) == mp or (base_path(c.func.value) or "").startswith(mp + ".")) \
                            and any(in_loop_of(c, tv) for tv in tvars):
                        accs.append((n, c))
            if not accs:
                raise AnalysisError("the servermap %s handed to the Encoder is not filled in a loop over %s (form not "
                                    "modelled)" % (mp, tpar))
            for (n, c) in accs:
                r.site(fn, c, "servermap entry per tracker and share")
                rcv = c.func.value
                key = rcv.slice if isinstance(rcv, ast.Subscript) else rcv.args[0] if (
                    isinstance(rcv, ast.Call) and call_tail(rcv) in ("setdefault", "get") and rcv.args) else None
                key = fnorm.resolve(n, key) if key is not None else None
                vals = [fnorm.resolve(n, v) for a_ in c.args for v in (a_.elts if isinstance(a_, (ast.Set, ast.List, ast.Tuple)) else [a_])]
                owners = {v.func.value.id for v in vals if isinstance(v, ast.Call) and isinstance(v.func, ast.Attribute)
                          and v.func.attr == "get_serverid" and isinstance(v.func.value, ast.Name) and v.func.value.id in tvars}
                if key is None or len(owners) != 1 or len(vals) != 1:
                    raise AnalysisError("servermap entry %s: form not modelled" % src(fn, c))
                (tv,) = tuple(owners)
                r.require(isinstance(key, ast.Name) and share_owner(c, key.id) == tv, fn, fn.loc(c),
                          "the servermap handed to the Encoder gets %s for share %s, which is not a share number iterated "
                          "from %s.buckets: a server is counted for a share it holds no bucket for, so happiness is judged "
                          "on a layout that is not being written" % (src(fn, vals[0]), src(fn, key), tv))
            # (A) a comparison of totals before the hand-over, or (B) a membership test per share before it is counted
            wa = find_path_avoiding(cfg, lambda m, _h=hn: m is _h, gate_edge=total_gate, kill=mutates(lp))
            gates = [n for n in cfg.nodes if n.kind == "test" and any(
                total_gate(n, (pol, n.ast)) or share_gate(n, (pol, n.ast)) for pol in ("T", "F"))]
            if not wa:
                r.site(fn, gates[0].ast if gates else None, "duplicate test (totals)")
                continue
            wb = None
            for (n, c) in accs:
                heads = [m for m in cfg.nodes if m.kind == "iter" and any(m.ast is own for (t, it, own) in all_loops
                         if isinstance(own, ast.For) and any(isinstance(y, ast.Name) and y.id in svars for y in ast.walk(t)))
                         and any(x is c for x in ast.walk(m.ast))]
                if not heads:
                    wb = wa
                    break
                for h in heads[-1:]:
                    w = find_path_avoiding(cfg, lambda m, _n=n: m is _n, gate_edge=share_gate, start=h)
                    if w:
                        wb = w
            if wb is None and gates:
                r.site(fn, gates[0].ast, "duplicate test (per share)")
                continue
            (tn, w) = wa[0]
            near = [n for n in cfg.nodes if n.kind == "test" and isinstance(n.ast, ast.Compare)
                    and any(collapsed(n, x) for x in [n.ast.left] + list(n.ast.comparators))]
            r.violation(fn, fn.loc(hc), "CHKUploader.set_shareholders reaches %s without a test that fails when two trackers "
                        "hold the same share number%s: %s keeps one bucket writer per share number (the later tracker "
                        "replaces the earlier one) while %s still names both servers, so the Encoder judges "
                        "servers-of-happiness on a layout in which a share is counted on a server whose bucket is never "
                        "written or closed, and the upload can succeed below the threshold (path: %s)" % (
                            src(fn, hc), (" (%s compares two quantities that are both counted per share number and are "
                                          "always equal)" % src(fn, near[0].ast)) if near else "", lp, mp, w.brief()), w)
