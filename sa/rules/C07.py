"""C07 Share placement is complete, respects read-only servers, maximizes spread.

Decided: structural necessary conditions of happiness_upload.share_placement and
its helpers (DESIGN.md section 5, C07), including the structural necessary
conditions of the Edmonds-Karp copy whose matching *is* the placement
(_compute_maximum_graph, residual_network, augmenting_path_for, bfs).  The
value-level optimality of the matching is undecided."""
from sa.h import *

EXPLANATION = (
    "Decided (structural, all paths): (1) R9 loop-escape alias: in happiness_upload, happinessutil and "
    "immutable.upload no container created outside a loop is inserted into another container in one iteration "
    "and mutated in another while the name is never re-bound in between (the same object would be shared by "
    "all iterations' slots); in particular the adjacency row of peer p in _servermap_flow_graph must be an "
    "object created in p's iteration; (2) flow-graph index space of the placement copy: _reindex bases 1 and "
    "len(peers)+1 agree between _calculate_mappings and _servermap_flow_graph, source row first, peer rows at "
    "peer_to_index[peer] holding share_to_index[s] for s in servermap[peer] only (guarded), share rows "
    "[sink_num], sink = len(peers)+len(shares)+1 = last row, the matching is read back with the sink index "
    "dim-1 and converted through index_to_share/index_to_peer; (3) read-only exclusion: read-only servers enter "
    "only phase 1 and only with the shares they hold (servermap branch), the writable candidate set is a "
    "difference chain rooted at `peers`, homeless distribution gets only entries with k not in readonly_peers, "
    "the round-robin draws from peers - readonly_peers, PeerSelector keeps peers and readonly_peers disjoint and "
    "passes them in the right order; (4) completeness and phase algebra: the result ranges over every key of "
    "the merge readonly+existing+new (in this override order), every empty/None value is replaced, phase 2/3 "
    "share and peer arguments are shares-used and shares-used-existing (ids from _extract_ids of the previous "
    "phase), every share index gets a key in _compute_maximum_graph; (5) spread: the set of writable candidate servers "
    "of phases 2/3 loses servers only by subtracting the ids matched in earlier phases (no other removal); "
    "(6) the matching that becomes the placement (_compute_maximum_graph) is augmented skew-symmetrically: per edge "
    "(u, v) of the augmenting path found in the residual graph, flow[u][v] += d and flow[v][u] -= d on every way "
    "through the iteration, d = min residual capacity along that path (= 1), flow matrix with distinct zero rows "
    "of width len(graph); (7) residual freshness: after any store into the flow table the pair (residual_graph, "
    "residual_function) is recomputed by residual_network(graph, flow) before it is read again (loop test, path "
    "search, delta, read-back), loop test and path search use that graph, every result is returned only after "
    "the test failed (an empty dict only for an empty graph / share list), the read-back takes a share's server "
    "from the residual graph's row; (8) helpers: augmenting_path_for searches 0 -> len(graph)-1 through the BFS "
    "predecessors, residual_network reverses exactly the saturated edges (capacity 1, distinct rows), bfs enqueues "
    "only WHITE vertices after colouring them and recording the predecessor; (9) early exits: share_placement returns "
    "anything but the full result only after finding `peers` empty, _servermap_flow_graph anything but its graph only "
    "after finding servermap / shares / peers empty; (10) homeless distribution: a homeless share goes to component [1] "
    "of the item taken from the priority queue in that iteration or to a key of the writable servermap that holds it, "
    "queue items carry keys of the priority table or the server just taken, the priority table's keys (setdefault, "
    "subscript and augmented stores) are keys of the writable servermap or guarded by a membership test in it, every "
    "item taken is put back on every way through the iteration, the queue is filled from the table and read only after "
    "the table / its source was found non-empty (Queue.get() blocks otherwise); (11) the selector acts on the "
    "placement: get_share_placements returns the share_placement result, get_shareholders recomputes it after every "
    "yield before _allocation_for reads it, _allocation_for(tracker) returns exactly the share numbers whose server is "
    "tracker.get_serverid(), the allocation loop runs over the trackers of the writable servers and passes a tracker "
    "over only when the request equals its buckets (or is empty), the retry loop is left early only on an unchanged "
    "snapshot / its own condition / an empty local collection, _create_trackers makes every candidate known, "
    "classifies by maxsize >= allocated_size and marks exactly the rest read-only; (12) a tracker taken off the "
    "writable tracker list is also reported to the peer selector (or found not to be in its writable set), so the "
    "next placement differs; (13) trackers of read-only servers are asked for existing shares, the answer handler "
    "records each share with add_peer_with_share(<tracker id>, share) on the non-failure path, the Deferred is "
    "collected and the collection awaited before the first placement; (14) the selector keeps what it is told: the "
    "relation given to share_placement as peers_to_shares is created as a new empty mapping in PeerSelector.__init__, "
    "add_peer_with_share(p, s) reaches its end only with s in that relation's set for p (CFG monitor over the recording "
    "steps M[p].add(s), M.setdefault(p, <new set>).add(s), M[p] = <set holding s> / M.setdefault(p, <set holding s>) "
    "where p is known to have no entry, M[p] = M[p] | {s}, ...) and never replaces the set recorded for p where p may "
    "have an entry, add_peer(p) ends only with p in the writable set, mark_bad_peer(p) ends with p in neither server set; "
    "(1b) R9 through the container: an object created outside a loop and put under several keys of a container whose "
    "held objects are changed in place (C[k].add(..), C.setdefault(k, d).add(..)), and dict.fromkeys(keys, <mutable>) "
    "with in-place changes, are reported like (1); "
    "(15) the table the augmentation loop works on is always a flow: created zero (6), it is written by nothing but the "
    "augmentation pair along an augmenting path - an interprocedural who-writes analysis (levels table / row, followed "
    "through reaching definitions, aliases, row objects, keyword and positional arguments into every package function the "
    "table is handed to, residual_network included) finds no other store, in-place method or row replacement; a table that "
    "leaves the analysable code (unknown callee, attribute, closure) is an analysis error, not a pass; "
    "(16) the placement is a function of its arguments: in share_placement and every package function it calls no state "
    "that outlives the call (module-level name re-bound through `global`, module-level container / function or class "
    "attribute changed from inside a function - also through a local alias - with values that depend on a parameter or on "
    "such state, mutable default argument changed in place) reaches a branch, a returned value, an argument of another "
    "function of the computation or an object of the caller; statistics that are only written and values built once from "
    "constants are not state of earlier calls. "
    "Undecided: whether a writer other than the augmentation pair (15) happens to leave a valid flow (a warm start that "
    "records whole source-server-share-sink units within the capacities would be correct; it is reported all the same, "
    "because conservation and capacity of arbitrary stores are value-level), and whether remembered state (16) is keyed by "
    "the full contents of the arguments (such a cache would be correct; it is reported as well); "
    "that the flow found is maximum once (6)-(8) hold (termination/optimality of Edmonds-Karp), "
    "PriorityQueue tie-breaking, set iteration order; evenness of the homeless distribution (priority values and "
    "increments) and the lease-renewal preference; the pruning of the phase-2 servermap in share_placement (it only "
    "preserves existing allocations on writable servers: completeness, read-only exclusion and the size of the spread "
    "do not depend on the phase-2 matching); constants that make the retry loop run at least once "
    "(effective_happiness = -1, last_happiness = None), timeouts, the 2*N server window; existing shares of writable "
    "servers (transfer saving only); what _buckets_allocated does with an answer (C06).")
TECHNIQUE = ("static analysis: CFG cycle/reaching-definition alias rule (R9), normal-form index-space agreement, "
             "edge-fact dominance and set-difference-chain normal forms over share_placement, CFG x staleness "
             "monitor and update-pair normal form for the placement's Edmonds-Karp copy, key-provenance chains and "
             "must-follow (get/put) over the homeless distribution, must-precede with yield as kill for the "
             "selector's use of the placement, CFG x (recorded, key-known-absent) monitor for the selector's "
             "multimap insertion, interprocedural who-writes (escape) analysis of the flow table, taint of "
             "call-outliving module state into branches / results over the call closure")

HU = "immutable.happiness_upload"
UP = "immutable.upload"
MAXG = HU + ":_compute_maximum_graph"
SWEEP_MODULES = ("allmydata.immutable.happiness_upload", "allmydata.util.happinessutil", "allmydata.immutable.upload")


# ===================================================================== R9 core
_MUT_CTORS = {"list", "dict", "set", "bytearray", "deque", "defaultdict", "OrderedDict", "Counter", "DictOfSets"}
_MUT_LITERALS = (ast.List, ast.Dict, ast.Set, ast.ListComp, ast.DictComp, ast.SetComp)
_INSERTERS = {"append", "insert", "add", "setdefault", "put", "put_nowait", "appendleft", "extend", "update"}
_MUTATORS = {"append", "extend", "insert", "add", "update", "pop", "popitem", "remove", "discard", "clear",
             "setdefault", "sort", "reverse", "appendleft", "popleft", "intersection_update",
             "difference_update", "symmetric_difference_update"}


def fresh_mutable(v) -> bool:
    """The expression creates a new mutable container object each time it is evaluated."""
    if isinstance(v, _MUT_LITERALS):
        return True
    return isinstance(v, ast.Call) and isinstance(v.func, ast.Name) and v.func.id in _MUT_CTORS


from ..index import aug_value


def def_value(node, name):
    """Value bound to plain name `name` by CFG node `node` (None: opaque binding)."""
    a = node.ast
    if node.kind != "stmt":
        return None
    if isinstance(a, ast.Assign):
        for t in a.targets:
            if isinstance(t, ast.Name) and t.id == name:
                return a.value
            if isinstance(t, (ast.Tuple, ast.List)):
                if isinstance(a.value, (ast.Tuple, ast.List)) and len(t.elts) == len(a.value.elts):
                    for tt, vv in zip(t.elts, a.value.elts):
                        if isinstance(tt, ast.Name) and tt.id == name:
                            return vv
                else:
                    for i, tt in enumerate(t.elts):
                        if isinstance(tt, ast.Name) and tt.id == name:
                            return ast.Subscript(value=a.value, slice=ast.Constant(value=i), ctx=ast.Load())
    if isinstance(a, ast.AnnAssign) and isinstance(a.target, ast.Name) and a.target.id == name:
        return a.value
    if isinstance(a, ast.AugAssign) and isinstance(a.target, ast.Name) and a.target.id == name \
            and isinstance(a.op, ast.Sub):
        # `x -= E` stores `x - E` (the engine's canonical form of `x = x - E`)
        return aug_value(a)
    return None


def rebinds(n, name) -> bool:
    """Node gives `name` a (possibly) different object.  `x += ..` on a container is in place."""
    if n.kind == "stmt" and isinstance(n.ast, ast.AugAssign):
        return False
    return name in node_stores(n)


def mutates(n, name) -> bool:
    a = n.ast
    if a is None:
        return False
    for e in node_exprs(n):
        for x in own_nodes(e):
            if isinstance(x, ast.Call) and isinstance(x.func, ast.Attribute) and x.func.attr in _MUTATORS \
                    and isinstance(x.func.value, ast.Name) and x.func.value.id == name:
                return True
    if n.kind == "stmt":
        tg = []
        if isinstance(a, ast.Assign):
            tg = a.targets
        elif isinstance(a, ast.AugAssign):
            tg = [a.target]
            if isinstance(a.target, ast.Name) and a.target.id == name:
                return True
        elif isinstance(a, ast.Delete):
            tg = a.targets
        for t in tg:
            if isinstance(t, ast.Subscript) and isinstance(t.value, ast.Name) and t.value.id == name:
                return True
    return False


def _display_names(e):
    """Plain names whose object is the value itself or an element of a display."""
    if isinstance(e, ast.Name):
        return [e.id]
    if isinstance(e, (ast.Tuple, ast.List, ast.Set)):
        return [x for s in e.elts for x in _display_names(s)]
    if isinstance(e, ast.Dict):
        return [x for s in e.values for x in _display_names(s)]
    if isinstance(e, ast.Starred):
        return []
    return []


def escaping_stores(n):
    """[(name, how)] plain names whose object is put into another container at node n."""
    out = []
    a = n.ast
    if a is None:
        return out
    for e in node_exprs(n):
        for x in own_nodes(e):
            if isinstance(x, ast.Call) and isinstance(x.func, ast.Attribute) and x.func.attr in _INSERTERS:
                recv = x.func.value
                rname = recv.id if isinstance(recv, ast.Name) else None
                vals = list(x.args) + [k.value for k in x.keywords]
                if x.func.attr in ("extend", "update"):
                    # only displays passed to extend/update put the element objects in
                    vals = [v for v in vals if isinstance(v, (ast.List, ast.Tuple, ast.Set, ast.Dict))]
                for v in vals:
                    for nm in _display_names(v):
                        if nm != rname:
                            out.append((nm, "%s.%s(..)" % (src(None, recv), x.func.attr)))
    if n.kind == "stmt" and isinstance(a, ast.Assign):
        for t in a.targets:
            if isinstance(t, ast.Subscript):
                for nm in _display_names(a.value):
                    if not (isinstance(t.value, ast.Name) and t.value.id == nm):
                        out.append((nm, "%s[..] = .." % src(None, t.value)))
    return out


def escaping_stores2(n):
    """[(name, how, container path or None)]: escaping_stores plus the attribute path of the receiving container."""
    out = []
    a = n.ast
    if a is None:
        return out
    for e in node_exprs(n):
        for x in own_nodes(e):
            if isinstance(x, ast.Call) and isinstance(x.func, ast.Attribute) and x.func.attr in _INSERTERS:
                recv = x.func.value
                rname = recv.id if isinstance(recv, ast.Name) else None
                vals = list(x.args) + [k.value for k in x.keywords]
                if x.func.attr in ("extend", "update"):
                    vals = [v for v in vals if isinstance(v, (ast.List, ast.Tuple, ast.Set, ast.Dict))]
                for v in vals:
                    for nm in _display_names(v):
                        if nm != rname:
                            out.append((nm, "%s.%s(..)" % (src(None, recv), x.func.attr), attr_path(recv)))
    if n.kind == "stmt" and isinstance(a, ast.Assign):
        for t in a.targets:
            if isinstance(t, ast.Subscript):
                for nm in _display_names(a.value):
                    if not (isinstance(t.value, ast.Name) and t.value.id == nm):
                        out.append((nm, "%s[..] = .." % src(None, t.value), attr_path(t.value)))
    return out


def held_by(cfg, rd, n, e, cpath, depth=2) -> bool:
    """Expression e (evaluated at node n) is an object held by the container `cpath`: C[k], C.get(k), C.setdefault(k, d),
    a local bound to one of these, the value variable of `for v in C.values()` / `for k, v in C.items()`."""
    if isinstance(e, ast.Subscript):
        return attr_path(e.value) == cpath
    if isinstance(e, ast.Call) and isinstance(e.func, ast.Attribute) and e.func.attr in ("setdefault", "get"):
        return attr_path(e.func.value) == cpath
    if isinstance(e, ast.Name) and depth > 0:
        for d in rd.get(n.id, {}).get(e.id, ()):
            if d < 0:
                continue
            dn = cfg.nodes[d]
            if dn.kind == "iter":
                base, view = unwrap_view(dn.ast.iter)
                t = dn.ast.target
                if attr_path(base) == cpath and (
                        (view == "values" and isinstance(t, ast.Name)) or
                        (view == "items" and isinstance(t, (ast.Tuple, ast.List)) and len(t.elts) == 2
                         and isinstance(t.elts[1], ast.Name) and t.elts[1].id == e.id)):
                    return True
                continue
            v = def_value(dn, e.id)
            if v is not None and held_by(cfg, rd, dn, v, cpath, depth - 1):
                return True
    return False


def element_mutations(cfg, rd, cpath):
    """CFG nodes that change, in place, an object held by the container `cpath` (C[k].add(..), C.setdefault(k, d).append(..),
    C[k] |= .., C[k][i] = .., v.add(..) for a local v bound to an element)."""
    out = []
    for n in cfg.nodes:
        a = n.ast
        if a is None:
            continue
        hit = False
        for e in node_exprs(n):
            for x in own_nodes(e):
                if isinstance(x, ast.Call) and isinstance(x.func, ast.Attribute) and x.func.attr in _MUTATORS \
                        and held_by(cfg, rd, n, x.func.value, cpath):
                    hit = True
        if n.kind == "stmt":
            tg = a.targets if isinstance(a, (ast.Assign, ast.Delete)) else ([a.target] if isinstance(a, ast.AugAssign) else [])
            for t in tg:
                if isinstance(t, ast.Subscript) and held_by(cfg, rd, n, t.value, cpath):
                    hit = True
                if isinstance(a, ast.AugAssign) and held_by(cfg, rd, n, t, cpath) \
                        and not isinstance(a.value, ast.Constant):
                    hit = True
        if hit:
            out.append(n)
    return out


def shared_slots(fn, r, n, name, how, cpath, creators):
    """R9 through the container: the object `name` is put into the container `cpath` at n in one iteration and again in
    the next (a cycle through n that never re-binds the name), and an object held by that container is changed in
    place at a node n can reach - the change shows under every key that got the object.  True when the rule holds."""
    if cpath is None:
        return True
    cfg = fn.cfg()
    on, path = shared_cycle(cfg, n, name)
    r.count(len(on) + 1)
    if not on:
        return True
    rd = C.reaching_defs(cfg)
    muts = [m for m in element_mutations(cfg, rd, cpath) if m is n or reach_from(cfg, n, m)]
    if not muts:
        return True
    w = ["L%d %r" % (cfg.nodes[i].lineno, cfg.nodes[i]) for i in path]
    r.violation(fn, fn.loc(n.ast),
                "shared slot object: `%s` (created at line %s) is put into %s by %s again and again while no way round "
                "the loop re-binds it, and the objects held by %s are changed in place at line %s - every key that got "
                "the object sees the additions made for the others" % (
                    name, ",".join(str(c.lineno) for c in creators) or "?", cpath, how, cpath,
                    ",".join(str(m.lineno) for m in muts)), w)
    return False


def fromkeys_shared(fn):
    """[(node, container name, value expr)] for `C = dict.fromkeys(keys, V)` with V a mutable object (one object under
    every key) when objects held by C are changed in place afterwards."""
    out = []
    if not any(isinstance(x, ast.Call) and call_tail(x) == "fromkeys" for x in func_own_nodes(fn)):
        return out
    cfg = fn.cfg()
    rd = C.reaching_defs(cfg)
    for n in cfg.stmt_nodes():
        a = n.ast
        if n.kind != "stmt" or not isinstance(a, ast.Assign) or len(a.targets) != 1 or not isinstance(a.value, ast.Call):
            continue
        c = a.value
        if call_tail(c) != "fromkeys" or len(c.args) != 2 or attr_path(a.targets[0]) is None:
            continue
        v = c.args[1]
        mutable = fresh_mutable(v) or (isinstance(v, ast.Name) and bool(creators_of(cfg, rd, n, v.id)))
        if not mutable:
            continue
        cpath = attr_path(a.targets[0])
        muts = [m for m in element_mutations(cfg, rd, cpath) if reach_from(cfg, n, m)]
        if muts:
            out.append((n, cpath, v, muts))
    return out


def shared_cycle(cfg, s, name):
    """Nodes lying on a CFG cycle through `s` along which `name` is never re-bound
    (the object stored at `s` in one iteration is the object stored in the next).
    Returns (set of node ids, witness path ids) - empty set when no such cycle."""
    fwd = {s.id: None}
    back = None
    work = [s.id]
    while work:
        x = work.pop()
        if x != s.id and rebinds(cfg.nodes[x], name):
            continue                      # cannot pass through a re-binding
        for (d, _lab) in cfg.succ[x]:
            if d == s.id and back is None:
                back = x
            if d not in fwd:
                fwd[d] = x
                work.append(d)
    if back is None:
        return set(), []
    # backward: nodes from which s is reached without passing a re-binding
    bwd = {s.id}
    work = [s.id]
    while work:
        x = work.pop()
        for (p, _lab) in cfg.pred[x]:
            if p in bwd:
                continue
            if p != s.id and rebinds(cfg.nodes[p], name):
                continue
            bwd.add(p)
            work.append(p)
    on = {x for x in fwd if x in bwd and (x == s.id or not rebinds(cfg.nodes[x], name))}
    path = [s.id]
    x = back
    seen = set()
    while x is not None and x not in seen:
        seen.add(x)
        path.append(x)
        x = fwd.get(x)
    path.reverse()
    return on, path


def on_cycle(cfg, n) -> bool:
    seen = set()
    work = [d for (d, _l) in cfg.succ[n.id]]
    while work:
        x = work.pop()
        if x == n.id:
            return True
        if x in seen:
            continue
        seen.add(x)
        work.extend(d for (d, _l) in cfg.succ[x])
    return False


def creators_of(cfg, rd, n, name):
    out = []
    for d in rd.get(n.id, {}).get(name, ()):
        if d < 0:
            continue
        v = def_value(cfg.nodes[d], name)
        if v is not None and fresh_mutable(v):
            out.append(cfg.nodes[d])
    return out


def r9_alias(fn, r, n, name, how, creators, what="stored"):
    """The R9 test for one (store node, name).  Returns True when it holds."""
    cfg = fn.cfg()
    on, path = shared_cycle(cfg, n, name)
    r.count(len(on) + 1)
    if not on:
        return True           # re-bound on every way round the loop
    muts = [cfg.nodes[i] for i in sorted(on) if mutates(cfg.nodes[i], name)]
    if not muts:
        return True           # a constant shared object: harmless as long as nobody mutates it
    w = ["L%d %r" % (cfg.nodes[i].lineno, cfg.nodes[i]) for i in path]
    r.violation(fn, fn.loc(n.ast),
                "loop-escape alias: `%s` (created at line %s) is %s by %s in every iteration and mutated at line %s "
                "while no path round the loop re-binds it - all iterations share one object" % (
                    name, ",".join(str(c.lineno) for c in creators) or "?", what, how,
                    ",".join(str(m.lineno) for m in muts)), w)
    return False


# ============================================================ small utilities
def names_loaded(e):
    return {x.id for x in own_nodes(e, into_lambda=True) if isinstance(x, ast.Name) and isinstance(x.ctx, ast.Load)}


def unwrap(e, tails=("list", "set", "sorted", "tuple", "frozenset", "iter")):
    """Strip order/representation-only wrappers: list(x) -> x."""
    while isinstance(e, ast.Call) and isinstance(e.func, ast.Name) and e.func.id in tails and len(e.args) == 1 \
            and not e.keywords:
        e = e.args[0]
    return e


def unwrap_view(e):
    """x.items()/x.keys()/list(x.items()) -> (x, 'items'|'keys'|'values'|None)."""
    e = unwrap(e)
    if isinstance(e, ast.Call) and isinstance(e.func, ast.Attribute) and e.func.attr in ("items", "keys", "values") \
            and not e.args:
        return e.func.value, e.func.attr
    return e, None


class Flow:
    """Flow-sensitive resolution of plain names through unique reaching definitions."""

    def __init__(self, fn):
        self.fn = fn
        self.cfg = fn.cfg()
        self.rd = C.reaching_defs(self.cfg)
        self.params = list(fn.params)

    def node_of(self, sub) -> Node:
        for n in self.cfg.nodes:
            for e in node_exprs(n):
                for x in own_nodes(e, into_lambda=True):
                    if x is sub:
                        return n
        raise AnchorVanished("expression not found in the CFG of %s" % self.fn.qual)

    def unique_def(self, n, name):
        """(def node, value) when exactly one non-parameter definition reaches n."""
        ds = self.rd.get(n.id, {}).get(name)
        if not ds or len(ds) != 1:
            return None, None
        (d,) = tuple(ds)
        if d < 0:
            return None, None
        dn = self.cfg.nodes[d]
        return dn, def_value(dn, name)

    def is_param(self, n, name) -> bool:
        ds = self.rd.get(n.id, {}).get(name)
        return bool(ds) and set(ds) == {C.PARAM_DEF}

    def chain(self, n, e, depth=8):
        """Normal form of a set expression as a difference chain: (base, frozenset(subtrahend origins)).
        `set(x)`, `x - a - b`, `x - (a | b)`, `x.difference(a)` and name copies are folded."""
        e = unwrap(e, tails=("set", "frozenset"))
        if isinstance(e, ast.Name):
            dn, v = self.unique_def(n, e.id)
            if v is not None and depth > 0:
                copy_ctor = isinstance(v, ast.Call) and isinstance(v.func, ast.Name) \
                    and v.func.id in ("set", "frozenset") and len(v.args) == 1
                if copy_ctor or not fresh_mutable(v):
                    return self.chain(dn, v, depth - 1)
            return (e.id, frozenset())
        if isinstance(e, ast.BinOp) and isinstance(e.op, ast.Sub):
            b, m = self.chain(n, e.left, depth)
            return (b, m | self.union_atoms(n, e.right, depth))
        if isinstance(e, ast.Call) and isinstance(e.func, ast.Attribute) and e.func.attr == "difference" and e.args:
            b, m = self.chain(n, e.func.value, depth)
            for a in e.args:
                m = m | self.union_atoms(n, a, depth)
            return (b, m)
        return (norm_plain(e), frozenset())

    def union_atoms(self, n, e, depth=8):
        e = unwrap(e, tails=("set", "frozenset"))
        if isinstance(e, ast.BinOp) and isinstance(e.op, ast.BitOr):
            return self.union_atoms(n, e.left, depth) | self.union_atoms(n, e.right, depth)
        if isinstance(e, ast.Call) and isinstance(e.func, ast.Attribute) and e.func.attr == "union":
            out = self.union_atoms(n, e.func.value, depth)
            for a in e.args:
                out = out | self.union_atoms(n, a, depth)
            return out
        return frozenset([self.origin(n, e, depth)])

    def origin(self, n, e, depth=8) -> str:
        """Where a value comes from: names are followed through unique definitions; the result is a
        normal-form string in which tuple-unpacking shows as f(x)[i]."""
        if isinstance(e, ast.Name):
            dn, v = self.unique_def(n, e.id)
            if v is not None and depth > 0 and (not fresh_mutable(v) or (isinstance(v, ast.Call) and v.args)):
                return self.origin(dn, v, depth - 1)
            return e.id
        if isinstance(e, ast.Subscript) and isinstance(e.slice, ast.Constant):
            return "%s[%r]" % (self.origin(n, e.value, depth), e.slice.value)
        if isinstance(e, ast.Call):
            f = call_name(e) or "?"
            parts = [self.origin(n, a, depth) for a in e.args]
            parts += sorted("%s=%s" % (k.arg, self.origin(n, k.value, depth)) for k in e.keywords if k.arg)
            return "%s(%s)" % (f, ", ".join(parts))
        return norm_plain(e)


def reach_from(cfg, a, b) -> bool:
    seen = set()
    work = [d for (d, _l) in cfg.succ[a.id]]
    while work:
        x = work.pop()
        if x == b.id:
            return True
        if x in seen:
            continue
        seen.add(x)
        work.extend(d for (d, _l) in cfg.succ[x])
    return False


def enclosing_for(fn, node_ast):
    """The ast.For statements whose body encloses an AST node of fn (outermost first)."""
    out = []

    def walk(stmts, stack):
        for st in stmts:
            if not any(x is node_ast for x in ast.walk(st)):
                continue
            for field in ("body", "orelse", "finalbody"):
                sub = getattr(st, field, None)
                if isinstance(sub, list) and sub and isinstance(sub[0], ast.stmt):
                    inner = stack + [st] if (isinstance(st, ast.For) and field == "body") else stack
                    if walk(sub, inner):
                        return True
            for h in getattr(st, "handlers", []) or []:
                if walk(h.body, stack):
                    return True
            out.extend(stack)
            return True
        return False
    walk(fn.body, [])
    return out


def sink_terms(e):
    """len(a) + len(b) + 1  /  len(a + b) + 1  ->  (1, ['a', 'b']); None when of another shape."""
    const = 0
    names = []

    def add_names(x):
        if isinstance(x, ast.BinOp) and isinstance(x.op, ast.Add):
            return add_names(x.left) and add_names(x.right)
        if isinstance(x, ast.Name):
            names.append(x.id)
            return True
        return False

    def go(x):
        nonlocal const
        if isinstance(x, ast.BinOp) and isinstance(x.op, ast.Add):
            return go(x.left) and go(x.right)
        if isinstance(x, ast.Constant) and isinstance(x.value, int) and not isinstance(x.value, bool):
            const += x.value
            return True
        if isinstance(x, ast.Call) and isinstance(x.func, ast.Name) and x.func.id == "len" and len(x.args) == 1:
            return add_names(x.args[0])
        return False
    if not go(e):
        return None
    return (const, sorted(names))


def container_stores(n, cname):
    """[(kind, key/index expr or None, value expr)] for stores into container `cname` at node n:
    c.insert(i, v), c.append(v), c[i] = v, c.setdefault(k, v)."""
    out = []
    for e in node_exprs(n):
        for x in own_nodes(e):
            if isinstance(x, ast.Call) and isinstance(x.func, ast.Attribute) and isinstance(x.func.value, ast.Name) \
                    and x.func.value.id == cname:
                if x.func.attr in ("insert", "setdefault") and len(x.args) == 2:
                    out.append((x.func.attr, x.args[0], x.args[1]))
                elif x.func.attr in ("append", "add") and len(x.args) == 1:
                    out.append((x.func.attr, None, x.args[0]))
    a = n.ast
    if n.kind == "stmt" and isinstance(a, ast.Assign):
        for t in a.targets:
            if isinstance(t, ast.Subscript) and isinstance(t.value, ast.Name) and t.value.id == cname:
                out.append(("setitem", t.slice, a.value))
    return out


def returned_name(fn):
    names = {n.ast.value.id for n in fn.cfg().find(is_return) if isinstance(n.ast.value, ast.Name)}
    if len(names) != 1:
        raise AnchorVanished("%s no longer returns one named container" % fn.qual)
    return names.pop()


def loops_over(fn, name):
    """ast.For statements of fn (own nodes) iterating (a view/sorted copy of) plain name `name`."""
    out = []
    for x in func_own_nodes(fn):
        if isinstance(x, ast.For):
            it, _v = unwrap_view(x.iter)
            if isinstance(it, ast.Name) and it.id == name:
                out.append(x)
    return out


def iter_node(cfg, for_ast):
    for n in cfg.nodes:
        if n.kind == "iter" and n.ast is for_ast:
            return n
    raise AnchorVanished("loop head not in CFG")


def body_skips(cfg, head, gate, gate_edge=None) -> list:
    """Witness (node ids) of a way through one iteration of the loop at `head` that passes no `gate` node
    (and no `gate_edge` edge)."""
    start = [d for (d, l) in cfg.succ[head.id] if l == "iter"]
    par = {d: None for d in start}
    work = list(start)
    while work:
        x = work.pop()
        nx = cfg.nodes[x]
        if nx is head or nx.kind == "exit":
            p = []
            while x is not None:
                p.append(x)
                x = par[x]
            return list(reversed(p))
        if gate(nx):
            continue
        for (d, l) in cfg.succ[x]:
            if l == "exc" and cfg.nodes[d].kind == "raise":
                continue
            if gate_edge is not None and gate_edge(nx, l):
                continue
            if d not in par:
                par[d] = x
                work.append(d)
    return []


def fact_gate(fnorm, want):
    """gate_edge predicate: the canonical fact on the edge satisfies want(op, l, r).
    fnorm=None: facts over the plain names (no substitution of locals)."""
    plain = Normaliser(Env(None, depth=0))

    def g(n, lab):
        if fnorm is None:
            f = fact_on_edge(plain, n, lab)
        else:
            f = fnorm.edge_fact(n, lab)
        return bool(f) and bool(want(*f))
    return g


# ===================================== Edmonds-Karp copy used by the placement
# (the same necessary conditions that C08 decides for "both copies"; the matching computed by
# happiness_upload._compute_maximum_graph IS the placement, so C07 decides them for that copy itself)
def nested_subscript(t):
    """x[a][b] -> (x, a, b) for plain-name x."""
    if isinstance(t, ast.Subscript) and isinstance(t.value, ast.Subscript) and isinstance(t.value.value, ast.Name):
        return t.value.value.id, t.value.slice, t.slice
    return None


def flow_store(n):
    """(table, row, col, sign, delta) when CFG node n stores into x[a][b]: `x[a][b] += d` / `x[a][b] -= d` /
    `x[a][b] = x[a][b] + d` / `x[a][b] = d + x[a][b]` / `x[a][b] = x[a][b] - d`; sign None for another store."""
    if n.kind != "stmt":
        return None
    a = n.ast
    if isinstance(a, ast.AugAssign):
        ns = nested_subscript(a.target)
        if ns:
            sign = 1 if isinstance(a.op, ast.Add) else (-1 if isinstance(a.op, ast.Sub) else None)
            return (ns[0], ns[1], ns[2], sign, a.value)
    if isinstance(a, ast.Assign):
        for t in a.targets:
            ns = nested_subscript(t)
            if not ns:
                continue
            v, tn = a.value, norm_plain(t)
            if isinstance(v, ast.BinOp) and isinstance(v.op, (ast.Add, ast.Sub)):
                if norm_plain(v.left) == tn:
                    return (ns[0], ns[1], ns[2], 1 if isinstance(v.op, ast.Add) else -1, v.right)
                if isinstance(v.op, ast.Add) and norm_plain(v.right) == tn:
                    return (ns[0], ns[1], ns[2], 1, v.left)
            return (ns[0], ns[1], ns[2], None, v)
    return None


def distinct_rows(e) -> bool:
    """A 2-D table expression creates one fresh row object per row."""
    if isinstance(e, ast.ListComp):
        return fresh_mutable(e.elt) or (isinstance(e.elt, ast.BinOp) and isinstance(e.elt.op, ast.Mult)
                                        and any(isinstance(s, ast.List) for s in (e.elt.left, e.elt.right)))
    return False


def loads_of(n):
    out = set()
    for e in node_exprs(n):
        for x in own_nodes(e, into_lambda=True):
            if isinstance(x, ast.Name) and isinstance(x.ctx, ast.Load):
                out.add(x.id)
    return out


def same_block(fn, a, b) -> bool:
    """Two simple statements of fn sit in the same statement list."""
    def lists(stmts):
        yield stmts
        for st in stmts:
            for field in ("body", "orelse", "finalbody"):
                sub = getattr(st, field, None)
                if isinstance(sub, list) and sub and isinstance(sub[0], ast.stmt):
                    for l in lists(sub):
                        yield l
    for l in lists(fn.body):
        if any(s is a for s in l) and any(s is b for s in l):
            return True
    return False


class EK:
    """Names and nodes of one Edmonds-Karp loop: the recomputations `rg, rf = residual_network(net, f)`, the stores
    into the flow table f[.][.], the residual pair (rg, rf)."""

    def __init__(self, fn):
        self.fn = fn
        self.cfg = cfg = fn.cfg()
        self.fl = Flow(fn)
        self.rec = [n for n in cfg.stmt_nodes() if n.kind == "stmt" and isinstance(n.ast, ast.Assign)
                    and isinstance(n.ast.value, ast.Call) and call_tail(n.ast.value) == "residual_network"]
        if not self.rec:
            raise AnchorVanished("%s: no `.. = residual_network(..)`" % fn.qual)
        pairs = set()
        for n in self.rec:
            t = n.ast.targets[0]
            if len(n.ast.targets) == 1 and isinstance(t, (ast.Tuple, ast.List)) and len(t.elts) == 2 \
                    and all(isinstance(e, ast.Name) for e in t.elts):
                pairs.add((t.elts[0].id, t.elts[1].id))
            else:
                pairs.add(None)
        if len(pairs) != 1 or None in pairs:
            raise AnchorVanished("%s: residual_network result is not unpacked into one (graph, capacity) pair" % fn.qual)
        self.rg, self.rf = pairs.pop()
        self.stores = [(n, flow_store(n)) for n in cfg.stmt_nodes() if flow_store(n)]
        tables = {s[0] for (_n, s) in self.stores}
        if not tables:
            raise AnchorVanished("%s: no store into a flow table f[u][v]" % fn.qual)
        if len(tables) != 1:
            raise AnchorVanished("%s: 2-D stores into several tables %s" % (fn.qual, sorted(tables)))
        self.ff = tables.pop()
        self.upd = [n for (n, _s) in self.stores]

    def is_upd(self, n) -> bool:
        return any(n is x for x in self.upd)

    def is_rec(self, n) -> bool:
        return any(n is x for x in self.rec)

    def network_origin(self, n):
        """Origin of the first argument of the recomputation at n (copies list(x)/tuple(x) and name copies folded)."""
        e = arg(n.ast.value, 0, "graph")
        at = n
        for _ in range(8):
            if e is None:
                return "?"
            e = unwrap(e, tails=("list", "tuple"))
            if not isinstance(e, ast.Name):
                return self.fl.origin(at, e)
            dn, v = self.fl.unique_def(at, e.id)
            if v is None or fresh_mutable(v) and not (isinstance(v, ast.Call) and v.args):
                return e.id
            at, e = dn, v
        return "?"


def ek_update_rule(r, fn, what):
    """Skew-symmetric update of one Edmonds-Karp copy (sites: update loop, two deltas, flow matrix)."""
    ek = EK(fn)
    cfg, fl, ff, rg, rf = ek.cfg, ek.fl, ek.ff, ek.rg, ek.rf
    loops = {}
    for (n, s) in ek.stores:
        enc = enclosing_for(fn, n.ast)
        if not enc:
            r.violation(fn, fn.loc(n.ast), "%s: %s is changed outside the loop over the augmenting path" % (what, src(fn, n.ast)))
            continue
        loops.setdefault(id(enc[-1]), (enc[-1], []))[1].append((n, s))
    if not loops:
        raise AnchorVanished("%s: loop over the augmenting path" % fn.qual)
    for (loop, us) in loops.values():
        r.site(fn, loop, "update loop")
        tgt = loop.target
        okt = isinstance(tgt, (ast.Tuple, ast.List)) and len(tgt.elts) == 2 and all(isinstance(e, ast.Name) for e in tgt.elts)
        if not r.require(okt, fn, fn.loc(loop), "%s: the update loop does not unpack the path's edges (u, v)" % what):
            continue
        u, v = tgt.elts[0].id, tgt.elts[1].id
        head = iter_node(cfg, loop)
        it = unwrap(loop.iter, tails=("list", "tuple"))
        pv_ = fl.unique_def(head, it.id)[1] if isinstance(it, ast.Name) else it
        po = norm_plain(pv_) if pv_ is not None else src(fn, loop.iter)
        r.require(po == "augmenting_path_for(%s)" % rg, fn, fn.loc(loop),
                  "%s: the update loop runs over %s, not over the augmenting path found in %s" % (what, po, rg))
        odd = [(n, s) for (n, s) in us if s[3] is None]
        for (n, s) in odd:
            r.violation(fn, fn.loc(n.ast), "%s: %s is neither `+= d` nor `-= d`" % (what, src(fn, n.ast)))
        fwd = [(n, s) for (n, s) in us if s[3] == 1 and (norm_plain(s[1]), norm_plain(s[2])) == (u, v)]
        rev = [(n, s) for (n, s) in us if s[3] == -1 and (norm_plain(s[1]), norm_plain(s[2])) == (v, u)]
        rest = [(n, s) for (n, s) in us if s[3] is not None and not any(n is x for (x, _s) in fwd + rev)]
        if not fwd:
            r.violation(fn, fn.loc(loop), "%s: no %s[%s][%s] += d for the edge (%s, %s) of the augmenting path: the flow over "
                        "a free edge is never raised" % (what, ff, u, v, u, v))
        if not rev:
            r.violation(fn, fn.loc(loop), "%s: no mirrored update %s[%s][%s] -= d for the edge (%s, %s) of the augmenting path: "
                        "a path that goes back over an edge used earlier no longer cancels that assignment (the "
                        "residual network keeps the edge saturated), so the matching is not maximum" % (what, ff, v, u, u, v))
        if len(fwd) > 1 or len(rev) > 1:
            r.violation(fn, fn.loc((fwd + rev)[0][0].ast), "%s: an edge of the path is updated more than once per direction" % what)
        for (n, s) in rest:
            r.violation(fn, fn.loc(n.ast), "%s: %s is not part of the pair %s[%s][%s] += d / %s[%s][%s] -= d" % (
                what, src(fn, n.ast), ff, u, v, ff, v, u))
        for (which, lst) in (("forward", fwd[:1]), ("mirrored", rev[:1])):
            for (n, s) in lst:
                w = body_skips(cfg, head, lambda x, _n=n: x is _n)
                if w:
                    r.violation(fn, fn.loc(n.ast), "%s: an edge of the path can be left without its %s update" % (what, which),
                                ["L%d %r" % (cfg.nodes[i].lineno, cfg.nodes[i]) for i in w])
                # delta = bottleneck of the same path (every residual capacity is 1, so the constant 1 is that value)
                d = s[4]
                r.site(fn, d, "delta (%s)" % which)
                dv = fl.unique_def(n, d.id)[1] if isinstance(d, ast.Name) else d
                okd = isinstance(dv, ast.Constant) and dv.value == 1 and dv.value is not True
                if isinstance(dv, ast.Call) and isinstance(dv.func, ast.Name) and dv.func.id == "min" and len(dv.args) == 1 \
                        and not dv.keywords and isinstance(dv.args[0], (ast.GeneratorExp, ast.ListComp)) \
                        and len(dv.args[0].generators) == 1:
                    ge = dv.args[0]
                    g0 = ge.generators[0]
                    ns = nested_subscript(ge.elt)
                    if ns and isinstance(g0.target, (ast.Tuple, ast.List)) and len(g0.target.elts) == 2 and not g0.ifs:
                        gu, gv = [norm_plain(e) for e in g0.target.elts]
                        okd = ns[0] == rf and (norm_plain(ns[1]), norm_plain(ns[2])) == (gu, gv) \
                            and norm_plain(unwrap(g0.iter, tails=("list", "tuple"))) == norm_plain(it)
                r.require(okd, fn, fn.loc(n.ast), "%s: the %s flow changes by %s; expected min(%s[u][v] for (u, v) in <the same "
                          "path>) (= 1): skew symmetry / the unit capacity is lost" % (
                              what, which, src(fn, dv) if dv is not None else src(fn, d), rf))
    # flow matrix
    fdefs = [n for n in cfg.stmt_nodes() if n.kind == "stmt" and isinstance(n.ast, ast.Assign)
             and [attr_path(t) for t in n.ast.targets] == [ff]]
    if len(fdefs) != 1:
        raise AnchorVanished("%s: single initialisation of %s" % (fn.qual, ff))
    fv = fdefs[0].ast.value
    r.site(fn, fv, "flow matrix")
    r.require(distinct_rows(fv), fn, fn.loc(fv), "%s: the rows of %s are one shared object (%s): an update of one edge "
              "would change every row" % (what, ff, src(fn, fv)))
    if isinstance(fv, ast.ListComp):
        net = ek.network_origin(ek.rec[-1])
        dims = set()
        for comp in [fv] + ([fv.elt] if isinstance(fv.elt, ast.ListComp) else []):
            itx = comp.generators[0].iter
            if isinstance(itx, ast.Call) and call_tail(itx) == "range" and len(itx.args) == 1:
                dims.add(fl.origin(fdefs[0], itx.args[0]))
            else:
                dims.add(src(fn, itx))
        if isinstance(fv.elt, ast.BinOp):
            for s_ in (fv.elt.left, fv.elt.right):
                if not isinstance(s_, ast.List):
                    dims.add(fl.origin(fdefs[0], s_))
        r.require(dims == {"len(%s)" % net}, fn, fn.loc(fv), "%s: flow matrix dimension %s, expected len(%s) x len(%s)" % (
            what, sorted(dims), net, net))
        zero = None
        if isinstance(fv.elt, ast.ListComp):
            zero = fv.elt.elt
        elif isinstance(fv.elt, ast.BinOp):
            zs = [s_ for s_ in (fv.elt.left, fv.elt.right) if isinstance(s_, ast.List) and len(s_.elts) == 1]
            zero = zs[0].elts[0] if zs else None
        if zero is not None:
            r.require(isinstance(zero, ast.Constant) and zero.value == 0 and zero.value is not False, fn, fn.loc(fv),
                      "%s: the initial flow is not zero" % what)


def ek_freshness_rule(r, fn, what, net_param=None, empty_result_ok=None):
    """Residual freshness of one Edmonds-Karp copy (sites: recomputations, loop test, path searches)."""
    ek = EK(fn)
    cfg, fl, ff, rg, rf = ek.cfg, ek.fl, ek.ff, ek.rg, ek.rf
    nets = set()
    for n in ek.rec:
        r.site(fn, n.ast, "residual_network recomputation")
        c = n.ast.value
        a0, a1 = arg(c, 0, "graph"), arg(c, 1, "f")
        nets.add(ek.network_origin(n))
        r.require(a1 is not None and norm_plain(a1) == ff, fn, fn.loc(n.ast),
                  "%s: the residual network is derived from %s, not from the flow being updated (%s)" % (
                      what, src(fn, a1), ff))
        r.require(a0 is not None and rg not in names_in(a0) and rf not in names_in(a0), fn, fn.loc(n.ast),
                  "%s: the residual network is derived from the previous residual network instead of the flow network" % what)
    r.require(len(nets) == 1, fn, fn.loc(), "%s: residual networks are derived from different graphs: %s" % (what, sorted(nets)))
    if net_param is not None:
        r.require(nets <= {net_param}, fn, fn.loc(ek.rec[0].ast), "%s: the residual network is derived from %s, expected the "
                  "flow network `%s` the function was given" % (what, sorted(nets), net_param))

    def infeasible(n, lab):
        """the edge of a constant test (`while True`) that is never taken"""
        return n.kind == "test" and isinstance(lab, tuple) and isinstance(n.ast, ast.Constant) \
            and bool(n.ast.value) != (lab[0] == "T")

    def transfer(n, lab, nxt, st):
        if n.kind in ("entry", "exit", "raise"):
            return st
        if infeasible(n, lab):
            return None
        if ek.is_upd(n):
            return True
        if ek.is_rec(n) and lab != "exc":
            return False
        return st
    # initial state "stale": the pair must have been computed before its first read, too
    visited, parent = explore(cfg, True, transfer)
    r.count(len(visited))
    reads = [n for n in cfg.nodes if n.kind not in ("entry", "exit", "raise") and ({rg, rf} & loads_of(n))]
    if not reads:
        raise AnchorVanished("%s: the residual graph is never read" % fn.qual)
    done = set()
    for (nid, st) in sorted(visited):
        n = cfg.nodes[nid]
        if st and any(n is x for x in reads) and nid not in done:
            done.add(nid)
            w = witness(cfg, parent, (nid, st))
            r.violation(fn, fn.loc(n.ast), "%s: stale residual network: %s is read after %s was created/updated and before "
                        "residual_network(..) (re)computed it (path: %s)" % (
                            what, "/".join(sorted({rg, rf} & loads_of(n))), ff, w.brief()), w)
    apf = "augmenting_path_for(%s)" % rg
    plain = Normaliser(Env(None, depth=0))

    def fact1(n, lab):
        f = fact_on_edge(plain, n, lab)
        if f and f[0] in ("truth", "false") and isinstance(n.ast, ast.Name):
            v = fl.unique_def(n, n.ast.id)[1]
            if v is not None:
                return (f[0], norm_plain(v), None)
        return f

    def has_path_edge(n, lab):
        f = fact1(n, lab)
        return bool(f) and f[0] == "truth" and f[1] == apf

    def no_path_edge(n, lab):
        f = fact1(n, lab)
        return infeasible(n, lab) or (bool(f) and f[0] == "false" and f[1] == apf)
    tests = [n for n in cfg.nodes if n.kind == "test" and (fact1(n, ("T", n.ast)) or ("", ""))[1] == apf]
    if not tests:
        raise AnchorVanished("%s: loop test on augmenting_path_for(%s)" % (fn.qual, rg))
    for n in tests:
        r.site(fn, n.ast, "augmenting-path test")
    for n in cfg.nodes:
        for c in node_calls(n):
            if call_tail(c) == "augmenting_path_for":
                r.site(fn, c, "augmenting_path_for call")
                r.require(len(c.args) == 1 and norm_plain(c.args[0]) == rg, fn, fn.loc(c),
                          "%s: the augmenting path is searched in %s, not in the residual graph %s" % (
                              what, src(fn, c.args[0] if c.args else None), rg))
    # the flow is changed only along a path that the (unchanged) residual graph was just tested to have
    seen_loops = set()
    for u_ in ek.upd:
        enc = enclosing_for(fn, u_.ast)
        if not enc or id(enc[-1]) in seen_loops:
            continue
        seen_loops.add(id(enc[-1]))
        hd = iter_node(cfg, enc[-1])
        # a recomputation after the whole path was applied invalidates the test; one inside the update loop
        # (per edge) does not change which path is being applied
        bad = find_path_avoiding(cfg, lambda x, _h=hd: x is _h, gate_edge=has_path_edge,
                                 kill=lambda x, _l=enc[-1]: ek.is_rec(x) and _l not in enclosing_for(fn, x.ast))
        for (t, w) in bad:
            r.violation(fn, fn.loc(t.ast), "%s: the flow is augmented although the current residual graph was not tested "
                        "to contain an augmenting path" % what, w)
    # every result is produced only after the loop test failed (or under the caller-supplied excuse)
    outs = [n for n in cfg.find(is_return) if n.ast.value is not None]
    if not outs:
        raise AnchorVanished("%s: result return" % fn.qual)
    for o in outs:
        def gate(n, lab, _o=o):
            return no_path_edge(n, lab) or (empty_result_ok is not None and empty_result_ok(o, n, lab))
        bad = find_path_avoiding(cfg, lambda x, _o=o: x is _o, gate_edge=gate, kill=lambda x: ek.is_upd(x))
        for (t, w) in bad:
            r.violation(fn, fn.loc(t.ast), "%s: a result is returned while an augmenting path may still exist (the loop is "
                        "not left through a failed augmenting_path_for(%s))" % (what, rg), w)
    return ek


def ek_helpers_rule(r, idx):
    """augmenting_path_for / residual_network / bfs: the helpers the placement copy of Edmonds-Karp runs on."""
    # ---- augmenting_path_for
    ap = idx.func(HU + ":augmenting_path_for")
    AG = first_positional_params(ap)[0]
    acfg = ap.cfg()
    anorm = FlowNorm(ap)
    r.site(ap, None, "augmenting_path_for")
    bc = calls_in_func(ap, "bfs")
    if len(bc) != 1:
        raise AnchorVanished("augmenting_path_for: bfs call")
    r.require([norm_plain(a) for a in bc[0].args] == [AG, "0"], ap, ap.loc(bc[0]),
              "the search must start at the source, bfs(%s, 0); got %s" % (AG, src(ap, bc[0])))
    sink = norm_src("len(%s) - 1" % AG)
    prets = [n for n in acfg.find(is_return) if isinstance(n.ast.value, ast.Name)]
    if len(prets) != 1:
        raise AnchorVanished("augmenting_path_for: path return")
    bt = "bfs(%s, 0)" % AG
    for (t, w) in find_path_avoiding(acfg, lambda x: x is prets[0],
                                     gate_edge=fact_gate(anorm, lambda op, l, rr: op == "truth" and l == "%s[%s]" % (bt, sink))):
        r.violation(ap, ap.loc(t.ast), "a path is returned without the sink (vertex len(%s) - 1) having been reached" % AG, w)
    pname = prets[0].ast.value.id
    ins = [c for c in calls_in_func(ap, "insert") if call_name(c) == pname + ".insert"] + \
          [c for c in calls_in_func(ap, "append") if call_name(c) == pname + ".append"]
    wl_ = [x for x in func_own_nodes(ap) if isinstance(x, ast.While)]
    okp = len(ins) == 1 and len(wl_) == 1
    if okp:
        c = ins[0]
        edge = c.args[-1]
        wnode = acfg.find(lambda n: any(x is c for x in node_calls(n)))[0]
        cur = None
        if isinstance(edge, ast.Tuple) and len(edge.elts) == 2 and isinstance(edge.elts[1], ast.Name):
            cur = edge.elts[1].id
            okp = norm_plain(edge.elts[0]) == "bfs_tree[%s]" % cur or anorm.norm(wnode, edge.elts[0]) == "%s[%s]" % (bt, cur)
            okp = okp and call_tail(c) == "insert" and norm_plain(c.args[0]) == "0"
            # walk: cur starts at the sink, moves to its predecessor, stops at 0
            steps = [n for n in acfg.stmt_nodes() if n.kind == "stmt" and isinstance(n.ast, ast.Assign)
                     and [attr_path(t) for t in n.ast.targets] == [cur]]
            vals = sorted(anorm.norm(n, n.ast.value) for n in steps)
            okp = okp and vals == sorted([sink, "%s[%s]" % (bt, cur)])
            wt = Normaliser(Env(None, depth=0)).cmp(wl_[0].test, True)
            okp = okp and wt == ("!=", "0", cur)
        else:
            okp = False
    r.require(okp, ap, ap.loc(), "the path must be rebuilt from the sink len(%s) - 1 through the BFS predecessors down to "
              "vertex 0, as edges (predecessor, vertex) in source-to-sink order" % AG)

    # ---- residual_network
    rn = idx.func(HU + ":residual_network")
    RG_, RF_ = first_positional_params(rn)[:2]
    ncfg = rn.cfg()
    nnorm = FlowNorm(rn)
    rr = [n for n in ncfg.find(is_return) if isinstance(n.ast.value, ast.Tuple) and len(n.ast.value.elts) == 2
          and all(isinstance(e, ast.Name) for e in n.ast.value.elts)]
    if len(rr) != 1:
        raise AnchorVanished("residual_network returns (graph, capacity)")
    ng, cf = [e.id for e in rr[0].ast.value.elts]
    nl = Flow(rn)
    for nm in (ng, cf):
        dn, v = nl.unique_def(rr[0], nm)
        r.site(rn, v, "residual table %s" % nm)
        r.require(v is not None and distinct_rows(v), rn, rn.loc(v) if v is not None else rn.loc(),
                  "the rows of %s are not distinct objects" % nm)
    apps = [(n, c) for n in ncfg.stmt_nodes() for c in node_calls(n) if call_tail(c) == "append"
            and isinstance(c.func.value, ast.Subscript) and norm_plain(c.func.value.value) == ng]
    if not apps:
        raise AnchorVanished("residual_network: edge insertions %s[..].append(..)" % ng)
    lps = [x for x in func_own_nodes(rn) if isinstance(x, ast.For)]
    outer = [l for l in lps if not enclosing_for(rn, l)]
    inner = [l for l in lps if enclosing_for(rn, l)]
    okl = len(outer) == 1 and len(inner) == 1 and norm_plain(outer[0].iter) == "range(len(%s))" % RG_ \
        and norm_plain(inner[0].iter) == "%s[%s]" % (RG_, norm_plain(outer[0].target))
    r.site(rn, outer[0] if outer else None, "edge loop")
    r.require(okl, rn, rn.loc(), "residual_network must visit every edge (i, v): for i in range(len(%s)): for v in %s[i]" % (RG_, RG_))
    if okl:
        i_, v_ = norm_plain(outer[0].target), norm_plain(inner[0].target)
        sat = "%s[%s][%s]" % (RF_, i_, v_)
        hin = iter_node(ncfg, inner[0])
        for (n, c) in apps:
            r.site(rn, c, "residual edge")
            frm, to = norm_plain(c.func.value.slice), norm_plain(c.args[0])
            if (frm, to) == (v_, i_):
                want = lambda op, l, rr_: op == "==" and {l, rr_} == {"1", sat}
                what = "a reverse edge is added for an edge that carries no flow"
            elif (frm, to) == (i_, v_):
                want = lambda op, l, rr_: (op == "!=" and {l, rr_} == {"1", sat}) or (op == "==" and {l, rr_} == {"0", sat})
                what = "a forward edge is kept although the edge is saturated"
            else:
                r.violation(rn, rn.loc(c), "residual edge %s -> %s is neither the edge (%s, %s) nor its reverse" % (frm, to, i_, v_))
                continue
            for (t, w) in find_path_avoiding(ncfg, lambda x, _n=n: x is _n, gate_edge=fact_gate(None, want),
                                             kill=lambda x: x is hin):
                r.violation(rn, rn.loc(t.ast), what, w)
        kinds = {(norm_plain(c.func.value.slice), norm_plain(c.args[0])) for (_n, c) in apps if c.args}
        r.require((v_, i_) in kinds, rn, rn.loc(inner[0]), "residual_network never adds the reverse edge %s -> %s of a saturated "
                  "edge: an assignment made by an earlier augmenting path can never be re-routed" % (v_, i_))
        r.require((i_, v_) in kinds, rn, rn.loc(inner[0]), "residual_network never keeps the unused edge %s -> %s" % (i_, v_))
        w = body_skips(ncfg, hin, lambda x: any(x is n for (n, _c) in apps))
        r.require(not w, rn, rn.loc(inner[0]), "an edge can vanish from the residual network")
        # capacities: +1 in the direction of the residual edge
        for (n, c) in apps:
            frm, to = norm_plain(c.func.value.slice), norm_plain(c.args[0])
            enc_if = [m for m in ncfg.stmt_nodes() if m.kind == "stmt" and isinstance(m.ast, ast.Assign)
                      and nested_subscript(m.ast.targets[0]) and nested_subscript(m.ast.targets[0])[0] == cf]
            same = [m for m in enc_if if same_block(rn, n.ast, m.ast)]
            got = {(norm_plain(nested_subscript(m.ast.targets[0])[1]), norm_plain(nested_subscript(m.ast.targets[0])[2])):
                   norm_plain(m.ast.value) for m in same}
            r.require(got.get((frm, to)) == "1", rn, rn.loc(c),
                      "residual capacity of the edge %s -> %s is %s, expected 1" % (frm, to, got.get((frm, to))))

    bf = idx.func(HU + ":bfs")
    BG, BS = first_positional_params(bf)[:2]
    bcfg = bf.cfg()
    bnorm = FlowNorm(bf)
    pred = returned_name(bf)
    qs = [n for n in bcfg.stmt_nodes() if n.kind == "stmt" and isinstance(n.ast, ast.Assign)
          and isinstance(n.ast.value, ast.List) and [norm_plain(e) for e in n.ast.value.elts] == [BS]]
    if len(qs) != 1:
        raise AnchorVanished("bfs: queue = [s]")
    qn = attr_path(qs[0].ast.targets[0])
    enq = [(n, c) for n in bcfg.stmt_nodes() for c in node_calls(n)
           if call_name(c) in (qn + ".append", qn + ".insert", qn + ".extend", qn + ".appendleft")]
    if not enq:
        raise AnchorVanished("bfs: enqueue")
    lps = [x for x in func_own_nodes(bf) if isinstance(x, ast.For)]
    whl = [x for x in func_own_nodes(bf) if isinstance(x, ast.While)]
    deq = [(n, c) for n in bcfg.stmt_nodes() for c in node_calls(n) if call_name(c) in (qn + ".pop", qn + ".popleft")]
    r.site(bf, deq[0][1] if deq else None, "dequeue / adjacency")
    okq = len(deq) == 1 and len(lps) == 1 and len(whl) == 1 and isinstance(deq[0][0].ast, ast.Assign)
    cur = attr_path(deq[0][0].ast.targets[0]) if okq else None
    okq = okq and cur is not None and norm_plain(lps[0].iter) == "%s[%s]" % (BG, cur) \
        and Normaliser(Env(None, depth=0)).cmp(whl[0].test, True) == ("truth", qn, None)
    r.require(okq, bf, bf.loc(), "bfs must pop a vertex n while the queue is non-empty and scan %s[n]" % BG)
    # colour table and WHITE
    for (n, c) in enq:
        r.site(bf, c, "enqueue")
        v = norm_plain(c.args[-1]) if c.args else "?"
        # colour test
        colour = None
        white = None
        for t in bcfg.nodes:
            if t.kind == "test":
                f = bnorm.edge_fact(t, ("T", t.ast))
                if f and f[0] == "==":
                    for side, other in ((f[1], f[2]), (f[2], f[1])):
                        m_ = re.match(r"^(\w+)\[%s\]$" % re.escape(v), side or "")
                        if m_:
                            colour, white = m_.group(1), other
        if not r.require(colour is not None, bf, bf.loc(c), "vertex %s is enqueued without any colour test" % v):
            continue
        r.require(white == "0" or white == "WHITE", bf, bf.loc(c), "the colour compared with is %s, not WHITE" % white)
        init = Flow(bf).unique_def(qs[0], colour)[1]
        wname = None
        okw = isinstance(init, ast.ListComp) and norm_plain(init.generators[0].iter) == "range(len(%s))" % BG
        if okw:
            wname = bnorm.norm(qs[0], init.elt)
            okw = wname == white
        r.require(okw, bf, bf.loc(init) if init is not None else bf.loc(),
                  "every vertex of %s must start WHITE (%s) in %s" % (BG, white, colour))
        gate = fact_gate(bnorm, lambda op, l, rr, _c=colour, _v=v, _w=white: op == "==" and {l, rr} == {"%s[%s]" % (_c, _v), _w})
        kill_v = lambda x, _v=v: (x.kind == "iter" and _v in node_stores(x))
        for (t, w) in find_path_avoiding(bcfg, lambda x, _n=n: x is _n, gate_edge=gate, kill=kill_v):
            r.violation(bf, bf.loc(t.ast), "vertex %s can be enqueued although it is not WHITE (a vertex could be visited "
                        "twice and its predecessor overwritten: the path walk may cycle)" % v, w)

        def recolours(x, _c=colour, _v=v, _w=white):
            if x.kind == "stmt" and isinstance(x.ast, ast.Assign) and len(x.ast.targets) == 1:
                t = x.ast.targets[0]
                return isinstance(t, ast.Subscript) and norm_plain(t.value) == _c and norm_plain(t.slice) == _v \
                    and bnorm.norm(x, x.ast.value) != _w
            return False

        def sets_pred(x, _v=v):
            if x.kind == "stmt" and isinstance(x.ast, ast.Assign) and len(x.ast.targets) == 1:
                t = x.ast.targets[0]
                return isinstance(t, ast.Subscript) and norm_plain(t.value) == pred and norm_plain(t.slice) == _v \
                    and norm_plain(x.ast.value) == cur
            return False
        for (what, g_) in (("coloured non-WHITE", recolours), ("given its predecessor %s[%s] = %s" % (pred, v, cur), sets_pred)):
            for (t, w) in find_path_avoiding(bcfg, lambda x, _n=n: x is _n, gate_node=g_, kill=kill_v):
                r.violation(bf, bf.loc(t.ast), "vertex %s is enqueued without having been %s" % (v, what), w)
    # predecessor table
    pinit = Flow(bf).unique_def(qs[0], pred)[1]
    r.require(isinstance(pinit, ast.ListComp) and isinstance(pinit.elt, ast.Constant) and pinit.elt.value is None
              and norm_plain(pinit.generators[0].iter) == "range(len(%s))" % BG, bf, bf.loc(),
              "the predecessor table must start as None for every vertex (augmenting_path_for tests the sink's entry)")


# ===================================== who may change the flow table (rule 15; C08.7 uses it for both copies)
# The augmentation pair f[u][v] += d / f[v][u] -= d along an augmenting path keeps every invariant of a flow
# (conservation at the inner vertices, capacity, skew symmetry) and the zero table is a flow, so a table that is
# changed by nothing else is always a flow.  Rules 6/7 look at the stores they can see inside the loop function;
# this part decides that nothing else writes: no callee the table is handed to, no alias, no row object.
_SCALAR_BUILTINS = {"len", "sum", "min", "max", "any", "all", "repr", "str", "print", "id", "isinstance", "type", "bool",
                    "abs", "hash", "format", "range", "int", "float"}
_DEEP_COPIERS = {"deepcopy"}
_ROW_CARRIERS = {"list", "tuple", "sorted", "reversed", "iter", "set", "frozenset", "enumerate", "zip"}
_TABLE_MUTATORS = _MUTATORS | {"__setitem__", "__delitem__", "__iadd__", "__imul__"}
_TABLE_READERS = {"copy", "index", "count", "__getitem__", "__len__", "__iter__", "__contains__"}


class TableSummary:
    def __init__(self):
        self.writes = []      # (fn, ast node, text)
        self.unknown = []     # (fn, ast node, text)
        self.handed = []      # (call, [callee quals]) - calls of the analysed function that receive the table / a row
        self.ret = 0          # level of the value returned
        self.ret_elts = None  # per-position levels when every return is a tuple display of one length
        self.states = 0


class TableUse:
    """Interprocedural 'who writes' analysis for a 2-D table (a list of row lists) that is handed around by
    reference.  Levels: 2 = the table (or a container holding its row objects), 1 = one of its rows, 0 = anything
    else.  Inside a function the level of a name is taken from its reaching definitions."""

    def __init__(self, idx):
        self.idx = idx
        self.cg = get_callgraph(idx)
        self.memo = {}
        self.active = set()

    # ---- callee parameters that receive table-level arguments
    def _bind_args(self, callee, call, levels, kwlevels):
        a = callee.node.args
        pos = [x.arg for x in getattr(a, "posonlyargs", [])] + [x.arg for x in a.args]
        if callee.cls is not None and isinstance(call.func, ast.Attribute) and pos:
            pos = pos[1:]
        kwonly = [x.arg for x in a.kwonlyargs]
        roots = {}
        for (i, l) in enumerate(levels):
            if l is None:
                return None               # starred
            if l == 0:
                continue
            if i < len(pos):
                roots[pos[i]] = max(roots.get(pos[i], 0), l)
            else:
                return None               # *args of the callee
        for (k, l) in kwlevels:
            if l == 0:
                continue
            if k is None or k not in pos + kwonly:
                return None
            roots[k] = max(roots.get(k, 0), l)
        return roots

    def summary(self, callee, roots, depth):
        key = (callee.qual, tuple(sorted(roots.items())))
        if key in self.memo:
            return self.memo[key]
        if key in self.active or depth <= 0:
            s = TableSummary()
            s.unknown.append((callee, callee.node, "%s (call chain too deep / recursive)" % short(callee)))
            return s
        self.active.add(key)
        try:
            s = self.analyse(callee, roots=roots, depth=depth)
        finally:
            self.active.discard(key)
        self.memo[key] = s
        return s

    def analyse(self, fn, roots=None, forced=None, skip=(), depth=4, root=False) -> TableSummary:
        roots = roots or {}
        forced = forced or {}
        cfg = fn.cfg()
        rd = C.reaching_defs(cfg)
        reach = cfg.reachable_nodes()
        lev = dict(forced)
        out = TableSummary()
        tu = self
        local_names = set(fn.params) | {nm for n_ in cfg.nodes for nm in node_stores(n_) if "." not in nm and not nm.endswith("[]")}

        def name_level(n, name, env):
            if name in env:
                return env[name]
            if name not in local_names:
                return roots.get(name, 0)      # a free variable of a nested function: the enclosing function's object
            best = 0
            for d in rd.get(n.id, {}).get(name, ()):
                best = max(best, roots.get(name, 0) if d < 0 else lev.get((d, name), 0))
            return best

        def elem(l):
            return l - 1 if l > 0 else 0

        def comp_env(n, gens, env):
            env2 = dict(env)
            for g in gens:
                bind_target(g.target, g.iter, n, env2, env2)
            return env2

        def bind_target(t, it, n, env, into):
            """Bind the target of `for t in it` / a comprehension generator (levels of the elements of `it`)."""
            it_ = it
            if isinstance(it_, ast.Call) and isinstance(it_.func, ast.Name) and it_.func.id == "enumerate" and it_.args \
                    and isinstance(t, (ast.Tuple, ast.List)) and len(t.elts) == 2:
                bind_names(t.elts[0], 0, into)
                bind_names(t.elts[1], elem(lvl(n, it_.args[0], env)), into)
                return
            if isinstance(it_, ast.Call) and isinstance(it_.func, ast.Name) and it_.func.id == "zip" \
                    and isinstance(t, (ast.Tuple, ast.List)) and len(t.elts) == len(it_.args):
                for (tt, aa) in zip(t.elts, it_.args):
                    bind_names(tt, elem(lvl(n, aa, env)), into)
                return
            l = elem(lvl(n, it_, env))
            if isinstance(t, (ast.Tuple, ast.List)):
                l = elem(l)
            bind_names(t, l, into)

        def bind_names(t, l, into):
            if isinstance(t, ast.Name):
                into[t.id] = max(into.get(t.id, 0), l) if into is not None else l
            elif isinstance(t, (ast.Tuple, ast.List)):
                for e in t.elts:
                    bind_names(e, l, into)
            elif isinstance(t, ast.Starred):
                bind_names(t.value, min(2, l + 1) if l else 0, into)

        def callees_of(c):
            return [f for f in tu.cg.resolve(fn, c) if isinstance(f, FuncInfo)]

        def call_level(n, c, env):
            f = c.func
            args = list(c.args) + [k.value for k in c.keywords]
            if isinstance(f, ast.Name):
                if f.id in _SCALAR_BUILTINS or f.id in _DEEP_COPIERS:
                    return 0
                if f.id in _ROW_CARRIERS:
                    m = max([lvl(n, a, env) for a in args] or [0])
                    return 2 if m == 2 else 0
            if isinstance(f, ast.Attribute):
                if call_tail(c) in _DEEP_COPIERS:
                    return 0
                b = lvl(n, f.value, env)
                if b > 0:
                    if f.attr == "copy":
                        return 2 if b == 2 else 0
                    if f.attr in ("pop", "__getitem__"):
                        return elem(b)
                    return 0
            m = max([lvl(n, a, env) for a in args] or [0])
            if m == 0:
                return 0
            cs = callees_of(c)
            if not cs:
                return m            # unknown callee: the result may be the argument itself
            best = 0
            for callee in cs:
                rts = tu._bind_args(callee, c, [None if isinstance(a, ast.Starred) else lvl(n, a, env) for a in c.args],
                                    [(k.arg, lvl(n, k.value, env)) for k in c.keywords])
                if rts is None:
                    return m
                if rts:
                    best = max(best, tu.summary(callee, rts, depth - 1).ret)
            return best

        def lvl(n, e, env):
            if e is None:
                return 0
            if isinstance(e, ast.Name):
                return name_level(n, e.id, env)
            if isinstance(e, ast.Subscript):
                if isinstance(e.value, ast.Call) and isinstance(e.slice, ast.Constant) and isinstance(e.slice.value, int):
                    for callee in callees_of(e.value):
                        rts = tu._bind_args(callee, e.value,
                                            [None if isinstance(a, ast.Starred) else lvl(n, a, env) for a in e.value.args],
                                            [(k.arg, lvl(n, k.value, env)) for k in e.value.keywords])
                        if rts is not None:
                            if not rts:
                                return 0
                            s = tu.summary(callee, rts, depth - 1)
                            if s.ret_elts is not None and 0 <= e.slice.value < len(s.ret_elts):
                                return s.ret_elts[e.slice.value]
                b = lvl(n, e.value, env)
                if b == 0:
                    return 0
                if isinstance(e.slice, ast.Slice):
                    return 2 if b == 2 else 0
                return b - 1
            if isinstance(e, ast.Starred):
                return lvl(n, e.value, env)
            if isinstance(e, (ast.Tuple, ast.List, ast.Set)):
                m = max([lvl(n, x, env) for x in e.elts] or [0])
                return min(2, m + 1) if m else 0
            if isinstance(e, ast.Dict):
                m = max([lvl(n, x, env) for x in e.values if x is not None] or [0])
                return min(2, m + 1) if m else 0
            if isinstance(e, ast.IfExp):
                return max(lvl(n, e.body, env), lvl(n, e.orelse, env))
            if isinstance(e, ast.BoolOp):
                return max(lvl(n, v, env) for v in e.values)
            if isinstance(e, ast.NamedExpr):
                return lvl(n, e.value, env)
            if isinstance(e, ast.BinOp):
                m = max(lvl(n, e.left, env), lvl(n, e.right, env))
                return 2 if m == 2 else 0
            if isinstance(e, (ast.ListComp, ast.SetComp, ast.GeneratorExp)):
                m = lvl(n, e.elt, comp_env(n, e.generators, env))
                return min(2, m + 1) if m else 0
            if isinstance(e, ast.DictComp):
                m = lvl(n, e.value, comp_env(n, e.generators, env))
                return min(2, m + 1) if m else 0
            if isinstance(e, ast.Call):
                return call_level(n, e, env)
            return 0

        # ---- levels of the definitions (fixpoint; levels only grow)
        nodes = [n for n in cfg.nodes if n.id in reach and n.ast is not None]
        for _round in range(6):
            changed = False
            for n in nodes:
                new = {}
                a = n.ast
                if n.kind == "iter":
                    bind_target(a.target, a.iter, n, {}, new)
                elif n.kind == "stmt":
                    for nm in node_stores(n):
                        if "." in nm or nm.endswith("[]"):
                            continue
                        if isinstance(a, ast.AugAssign):
                            new[nm] = max(name_level(n, nm, {}), lvl(n, a.value, {}))
                            continue
                        v = def_value(n, nm)
                        if v is not None:
                            new[nm] = lvl(n, v, {})
                        elif isinstance(a, (ast.Assign, ast.AnnAssign)) and a.value is not None:
                            new[nm] = lvl(n, a.value, {})
                    for e in node_exprs(n):
                        for x in own_nodes(e):
                            if isinstance(x, ast.NamedExpr) and isinstance(x.target, ast.Name):
                                new[x.target.id] = max(new.get(x.target.id, 0), lvl(n, x.value, {}))
                for (nm, l) in new.items():
                    if (n.id, nm) in forced:
                        continue
                    if l > lev.get((n.id, nm), 0):
                        lev[(n.id, nm)] = l
                        changed = True
            if not changed:
                break
        out.states = len(nodes)

        # ---- events
        def targets_of(n):
            a = n.ast
            if n.kind == "iter":
                return [a.target]
            if n.kind == "with":
                return [i.optional_vars for i in a.items if i.optional_vars is not None]
            if n.kind != "stmt":
                return []
            if isinstance(a, (ast.Assign, ast.Delete)):
                return list(a.targets)
            if isinstance(a, (ast.AugAssign, ast.AnnAssign)):
                return [a.target]
            return []

        def flat(ts):
            for t in ts:
                if isinstance(t, (ast.Tuple, ast.List)):
                    for x in flat(t.elts):
                        yield x
                elif isinstance(t, ast.Starred):
                    for x in flat([t.value]):
                        yield x
                else:
                    yield t

        def scan_calls(n, e, env):
            """Events of the calls inside expression e (comprehension variables get their levels through env)."""
            if isinstance(e, (ast.ListComp, ast.SetComp, ast.GeneratorExp, ast.DictComp)):
                env2 = comp_env(n, e.generators, env)
                for g in e.generators:
                    scan_calls(n, g.iter, env2)
                    for i_ in g.ifs:
                        scan_calls(n, i_, env2)
                for sub in ([e.key, e.value] if isinstance(e, ast.DictComp) else [e.elt]):
                    scan_calls(n, sub, env2)
                return
            if isinstance(e, ast.Lambda) or isinstance(e, (ast.FunctionDef, ast.AsyncFunctionDef)):
                body = [e.body] if isinstance(e, ast.Lambda) else e.body
                bound = {x.arg for x in ast.walk(e.args) if isinstance(x, ast.arg)}
                for b in body:
                    for x in ast.walk(b):
                        if isinstance(x, ast.Name) and isinstance(x.ctx, ast.Load) and x.id not in bound \
                                and name_level(n, x.id, env) > 0:
                            out.unknown.append((fn, e, "`%s` is captured by a nested function / lambda" % x.id))
                            return
                return
            if isinstance(e, ast.Call):
                one_call(n, e, env)
            if isinstance(e, (ast.Yield, ast.YieldFrom)) and lvl(n, e.value, env) > 0:
                out.unknown.append((fn, e, "the table is yielded"))
            for c in ast.iter_child_nodes(e):
                if isinstance(c, ast.ClassDef):
                    continue
                scan_calls(n, c, env)

        def one_call(n, c, env):
            f = c.func
            args = list(c.args) + [k.value for k in c.keywords]
            alev = [lvl(n, a, env) for a in args]
            if isinstance(f, ast.Attribute):
                b = lvl(n, f.value, env)
                if b > 0:
                    if f.attr in _TABLE_MUTATORS:
                        out.writes.append((fn, c, "%s changes %s in place" % (src(fn, c), "the table" if b == 2 else "a row of the table")))
                    elif f.attr not in _TABLE_READERS:
                        out.unknown.append((fn, c, "%s: method .%s of the table" % (src(fn, c), f.attr)))
                    return
                if max(alev or [0]) > 0 and f.attr in _INSERTERS and not callees_of(c):
                    out.unknown.append((fn, c, "%s puts the table / a row into another container" % src(fn, c)))
                    return
            if max(alev or [0]) == 0:
                return
            if isinstance(f, ast.Name) and (f.id in _SCALAR_BUILTINS or f.id in _DEEP_COPIERS or f.id in _ROW_CARRIERS):
                return
            if isinstance(f, ast.Attribute) and call_tail(c) in _DEEP_COPIERS:
                return
            cs = callees_of(c)
            if not cs:
                out.unknown.append((fn, c, "%s: handed to `%s`, which is not a function of the package" % (
                    src(fn, c), call_name(c) or src(fn, f))))
                return
            out.handed.append((c, [x.qual for x in cs]))
            for callee in cs:
                rts = tu._bind_args(callee, c, [None if isinstance(a, ast.Starred) else lvl(n, a, env) for a in c.args],
                                    [(k.arg, lvl(n, k.value, env)) for k in c.keywords])
                if rts is None:
                    out.unknown.append((fn, c, "%s: cannot match the arguments with the parameters of %s" % (src(fn, c), short(callee))))
                    continue
                if not rts:
                    continue
                s = tu.summary(callee, rts, depth - 1)
                what_ = ", ".join("%s%s" % (p, "" if l == 2 else " (a row)") for (p, l) in sorted(rts.items()))
                for (wf, wn, wt) in s.writes:
                    out.writes.append((fn, c, "%s hands it to %s as `%s`, and there %s (line %s)" % (
                        src(fn, c), short(callee), what_, wt, getattr(wn, "lineno", "?"))))
                for (wf, wn, wt) in s.unknown:
                    out.unknown.append((fn, c, "%s -> %s: %s" % (src(fn, c), short(callee), wt)))

        rets = []
        for n in nodes:
            if id(n.ast) in skip:
                continue
            a = n.ast
            for t in flat(targets_of(n)):
                if isinstance(t, ast.Subscript):
                    b = lvl(n, t.value, {})
                    if b > 0:
                        out.writes.append((fn, a, "%s stores into %s" % (
                            src(fn, a), "the table (a whole row is replaced / removed)" if b == 2 else "a row of the table")))
                    elif n.kind == "stmt" and isinstance(a, (ast.Assign, ast.AnnAssign)) and lvl(n, a.value, {}) > 0:
                        out.unknown.append((fn, a, "%s puts the table / a row into another container" % src(fn, a)))
                elif isinstance(t, ast.Attribute):
                    if n.kind == "stmt" and isinstance(a, (ast.Assign, ast.AnnAssign)) and lvl(n, a.value, {}) > 0:
                        out.unknown.append((fn, a, "%s keeps the table / a row in an attribute" % src(fn, a)))
                elif isinstance(t, ast.Name) and isinstance(a, ast.AugAssign) and n.kind == "stmt" \
                        and name_level(n, t.id, {}) > 0:
                    out.writes.append((fn, a, "%s changes %s in place" % (src(fn, a), t.id)))
            for e in node_exprs(n):
                scan_calls(n, e, {})
            if n.kind == "stmt" and isinstance(a, (ast.FunctionDef, ast.AsyncFunctionDef)):
                # a nested function works on the enclosing function's objects through its free variables
                bound = {x.arg for x in ast.walk(a.args) if isinstance(x, ast.arg)}
                bound |= {x.id for b_ in a.body for x in ast.walk(b_) if isinstance(x, ast.Name) and isinstance(x.ctx, ast.Store)}
                cap = {}
                for b_ in a.body:
                    for x in ast.walk(b_):
                        if isinstance(x, ast.Name) and isinstance(x.ctx, ast.Load) and x.id not in bound:
                            l = max([v_ for ((_d, nm_), v_) in lev.items() if nm_ == x.id] +
                                    [roots.get(x.id, 0) if (x.id in fn.params or x.id not in local_names) else 0])
                            if l > 0:
                                cap[x.id] = l
                if cap:
                    nf = fn.nested.get(a.name)
                    if nf is None:
                        out.unknown.append((fn, a, "`%s` is captured by the nested function %s" % (", ".join(sorted(cap)), a.name)))
                    else:
                        s_ = tu.summary(nf, cap, depth - 1)
                        for (wf, wn, wt) in s_.writes:
                            out.writes.append((fn, a, "the nested function %s works on `%s` of the enclosing function, and there %s "
                                               "(line %s)" % (a.name, ", ".join(sorted(cap)), wt, getattr(wn, "lineno", "?"))))
                        for (wf, wn, wt) in s_.unknown:
                            out.unknown.append((fn, a, "nested function %s: %s" % (a.name, wt)))
            if n.kind == "stmt" and isinstance(a, ast.Return) and a.value is not None:
                rets.append((n, a.value))
        if rets:
            out.ret = max(lvl(n, v, {}) for (n, v) in rets)
            if all(isinstance(v, ast.Tuple) for (_n, v) in rets) and len({len(v.elts) for (_n, v) in rets}) == 1:
                out.ret_elts = [max(lvl(n, v.elts[i], {}) for (n, v) in rets) for i in range(len(rets[0][1].elts))]
                out.ret = max(out.ret_elts or [0])
        return out


def ek_confinement_rule(r, fn, what, idx):
    """The flow table of one Edmonds-Karp copy is written by nothing but the recognised augmentation stores
    (sites: creation of the table, every call that receives it)."""
    ek = EK(fn)
    cfg, ff = ek.cfg, ek.ff
    fdefs = [n for n in cfg.stmt_nodes() if n.kind == "stmt" and isinstance(n.ast, ast.Assign)
             and [attr_path(t) for t in n.ast.targets] == [ff]]
    if len(fdefs) != 1:
        raise AnchorVanished("%s: single initialisation of %s" % (fn.qual, ff))
    r.site(fn, fdefs[0].ast, "flow table created")
    tu = TableUse(idx)
    s = tu.analyse(fn, forced={(fdefs[0].id, ff): 2}, skip={id(n.ast) for n in ek.upd}, root=True)
    r.count(s.states + sum(x.states for x in tu.memo.values()))
    for (c, quals) in s.handed:
        r.site(fn, c, "flow table handed to %s" % ", ".join(q.split(":", 1)[1] for q in quals))
    seen = set()
    for (wf, wn, wt) in s.writes:
        if id(wn) in seen:
            continue
        seen.add(id(wn))
        r.violation(fn, fn.loc(wn), "%s: the flow table %s is changed outside the augmentation along an augmenting path: %s. "
                    "Only the pair %s[u][v] += d / %s[v][u] -= d over every edge of a source-to-sink path keeps the table a "
                    "flow (conservation at every server and share vertex); a unit recorded on a server->share edge without "
                    "its share->sink unit leaves the share reachable for a second server, so the matching is smaller than "
                    "the maximum" % (what, ff, wt, ff, ff))
    if s.unknown and not s.writes:
        raise AnalysisError("%s: cannot decide who may change the flow table %s: %s" % (
            fn.qual, ff, "; ".join("%s (line %s)" % (t, getattr(n_, "lineno", "?")) for (_f, n_, t) in s.unknown[:3])))
    return s


# ===================================== state that outlives a call (C08.6; rule 16 for the placement)
def call_closure(idx, roots):
    """{qual: FuncInfo} of the package functions reachable from `roots` through resolvable calls (and their nested
    functions)."""
    cg = get_callgraph(idx)
    seen = {}
    work = list(roots)
    while work:
        fn = work.pop()
        if fn.qual in seen:
            continue
        seen[fn.qual] = fn
        work.extend(fn.nested.values())
        for (_c, targets) in cg.callees(fn):
            work.extend(t for t in targets if isinstance(t, FuncInfo))
    return seen


def _root_name(e):
    while isinstance(e, (ast.Attribute, ast.Subscript, ast.Call)):
        e = e.func if isinstance(e, ast.Call) else e.value
    return e.id if isinstance(e, ast.Name) else None


def _first_attr(e):
    """N.a.b[..] -> 'a' (the attribute taken directly from the root name), None when the root is subscripted/called."""
    prev = None
    while isinstance(e, (ast.Attribute, ast.Subscript, ast.Call)):
        prev = e
        e = e.func if isinstance(e, ast.Call) else e.value
    return prev.attr if isinstance(prev, ast.Attribute) else None


def _locals_of(fn):
    """Names that are local in fn (parameters and stored names that are not declared global), enclosing functions'
    locals included."""
    out = set()
    f = fn
    while f is not None:
        decl = {nm for x in func_own_nodes(f) if isinstance(x, (ast.Global, ast.Nonlocal)) for nm in x.names}
        own = set(f.params)
        for x in func_own_nodes(f, into_lambda=False):
            if isinstance(x, ast.Name) and isinstance(x.ctx, (ast.Store, ast.Del)):
                own.add(x.id)
            elif isinstance(x, (ast.FunctionDef, ast.AsyncFunctionDef, ast.ClassDef)):
                own.add(x.name)
            elif isinstance(x, (ast.Import, ast.ImportFrom)):
                own.update((al.asname or al.name).split(".")[0] for al in x.names)
            elif isinstance(x, ast.ExceptHandler) and x.name:
                own.add(x.name)
        out |= (own - decl) if f is fn else own
        f = f.parent
    return out


class ModuleState:
    """Objects of one module that live longer than a call and are changed at run time (from inside a function):
    module-level names re-bound through `global`, module-level containers changed in place, attributes set on
    module-level functions / classes / objects.  `real` keeps those whose stored values depend on a parameter of the
    storing function or on such state itself (what was stored depends on earlier calls); a value computed once from
    nothing but constants (lazily built table) is not state of earlier calls."""

    def __init__(self, idx, module):
        self.module = module
        self.names = {}      # name -> [(fn, stmt/call node, [value exprs])]
        self.attrs = {}      # (name, attr) -> [(fn, node, [value exprs])]
        top = set(module.assigns) | set(module.funcs) | set(module.classes)
        for fn in idx.funcs.values():
            if fn.module is not module or isinstance(fn.node, ast.Lambda):
                continue
            decl = {nm for x in func_own_nodes(fn) if isinstance(x, ast.Global) for nm in x.names}
            loc = _locals_of(fn)
            # a local that is just another name of a module-level object: L = N
            alias = {}
            for x in func_own_nodes(fn):
                if isinstance(x, ast.Assign) and len(x.targets) == 1 and isinstance(x.targets[0], ast.Name) \
                        and isinstance(x.value, ast.Name) and x.value.id not in loc and (x.value.id in top or x.value.id in decl):
                    alias[x.targets[0].id] = x.value.id
            loc = loc - set(alias)

            def rootn(e, _a=alias):
                rn = _root_name(e)
                return _a.get(rn, rn)
            for x in func_own_nodes(fn, into_lambda=True):
                tg, vals = [], []
                if isinstance(x, ast.Assign):
                    tg, vals = list(x.targets), [x.value]
                elif isinstance(x, ast.AugAssign):
                    tg, vals = [x.target], [aug_value(x)]
                elif isinstance(x, ast.AnnAssign) and x.value is not None:
                    tg, vals = [x.target], [x.value]
                elif isinstance(x, ast.Delete):
                    tg = list(x.targets)
                elif isinstance(x, (ast.For, ast.AsyncFor)):
                    tg, vals = [x.target], [x.iter]
                elif isinstance(x, ast.NamedExpr):
                    tg, vals = [x.target], [x.value]
                elif isinstance(x, ast.Call) and isinstance(x.func, ast.Attribute) and x.func.attr in _MUTATORS:
                    rn = rootn(x.func.value)
                    if rn is not None and rn not in loc and (rn in top or rn in decl):
                        vs = list(x.args) + [k.value for k in x.keywords]
                        fa = _first_attr(x.func.value)
                        if fa is None:
                            self.names.setdefault(rn, []).append((fn, x, vs))
                        else:
                            self.attrs.setdefault((rn, fa), []).append((fn, x, vs))
                    continue
                stack = list(tg)
                while stack:
                    t = stack.pop()
                    if isinstance(t, (ast.Tuple, ast.List)):
                        stack.extend(t.elts)
                    elif isinstance(t, ast.Starred):
                        stack.append(t.value)
                    elif isinstance(t, ast.Name):
                        if t.id in decl:
                            self.names.setdefault(t.id, []).append((fn, x, vals))
                    elif isinstance(t, (ast.Subscript, ast.Attribute)):
                        rn = rootn(t)
                        if rn is None or rn in loc or not (rn in top or rn in decl):
                            continue
                        extra = [t.slice] if isinstance(t, ast.Subscript) else []
                        fa = _first_attr(t)
                        if fa is None:
                            self.names.setdefault(rn, []).append((fn, x, vals + extra))
                        else:
                            self.attrs.setdefault((rn, fa), []).append((fn, x, vals + extra))
        every = set(self.names) | {k[0] for k in self.attrs}

        def real(recs):
            for (fn, _x, vals) in recs:
                ps = set(fn.params)
                for v in vals:
                    if depends_on(fn, v) & (ps | every):
                        return True
            return False
        self.real_names = {k for (k, v) in self.names.items() if real(v)}
        self.real_attrs = {k for (k, v) in self.attrs.items() if real(v)}

    def how(self, key):
        recs = self.names.get(key) if isinstance(key, str) else self.attrs.get(key)
        return ", ".join(sorted({"%s line %s" % (short(f), getattr(x, "lineno", "?")) for (f, x, _v) in recs or []}))


def _mutable_default_state(fn):
    """Parameters of fn whose default is one mutable object (created when the function is defined) that fn changes in
    place: the object carries data from call to call."""
    a = getattr(fn.node, "args", None)
    if a is None:
        return set()
    pos = list(getattr(a, "posonlyargs", [])) + list(a.args)
    pairs = list(zip(pos[len(pos) - len(a.defaults):], a.defaults)) + \
        [(p, d) for (p, d) in zip(a.kwonlyargs, a.kw_defaults) if d is not None]
    out = set()
    for (p, d) in pairs:
        if not fresh_mutable(d):
            continue
        for x in func_own_nodes(fn, into_lambda=True):
            hit = False
            if isinstance(x, ast.Call) and isinstance(x.func, ast.Attribute) and x.func.attr in _MUTATORS \
                    and _root_name(x.func.value) == p.arg:
                hit = True
            elif isinstance(x, (ast.Assign, ast.AugAssign, ast.Delete)):
                for t in (x.targets if isinstance(x, (ast.Assign, ast.Delete)) else [x.target]):
                    if isinstance(t, (ast.Subscript, ast.Attribute)) and _root_name(t) == p.arg:
                        hit = True
            if hit:
                out.add(p.arg)
    return out


def state_feeds(fn, ms: ModuleState, closure, cg):
    """[(ast node, state name, text)]: places of fn where state that outlives the call can reach what fn computes:
    a branch / loop / assertion on it (unless all it guards is book-keeping of that state or logging), a returned
    value, an argument of another function of the computation, a store into a parameter's object."""
    loc = _locals_of(fn)
    names = {k for k in ms.real_names if k not in loc}
    attrs = {k for k in ms.real_attrs if k[0] not in loc}
    dflt = _mutable_default_state(fn)
    names |= dflt
    if not names and not attrs:
        return []
    why = {}

    def touched(e):
        """State names the expression reads (directly, or through a tainted local)."""
        got = set()
        if e is None:
            return got
        for x in own_nodes(e, into_lambda=True):
            if isinstance(x, ast.Name) and isinstance(x.ctx, ast.Load):
                if x.id in names:
                    got.add(x.id)
                elif x.id in why:
                    got |= why[x.id]
            elif isinstance(x, ast.Attribute) and isinstance(x.value, ast.Name) and (x.value.id, x.attr) in attrs:
                got.add("%s.%s" % (x.value.id, x.attr))
        return got
    defs = def_exprs(fn)
    for _ in range(8):
        changed = False
        for (nm, exprs) in defs.items():
            if "." in nm or nm in names:
                continue
            if nm not in loc:
                continue
            got = set()
            for v in exprs:
                got |= touched(v)
            if got - why.get(nm, set()):
                why[nm] = why.get(nm, set()) | got
                changed = True
        if not changed:
            break

    def is_state_target(t):
        if isinstance(t, (ast.Tuple, ast.List)):
            return all(is_state_target(x) for x in t.elts)
        if isinstance(t, ast.Name):
            return t.id in names
        rn = _root_name(t)
        if rn in names:
            return True
        fa = _first_attr(t)
        return fa is not None and (rn, fa) in attrs

    def in_closure(c):
        return any(isinstance(f, FuncInfo) and f.qual in closure for f in cg.resolve(fn, c))

    def exempt(st):
        """Book-keeping of the state itself, or a call that leaves the computation (logging)."""
        if isinstance(st, (ast.Pass, ast.Global, ast.Nonlocal)):
            return True
        if isinstance(st, ast.Expr):
            v = st.value
            if isinstance(v, ast.Constant):
                return True
            if isinstance(v, ast.Call):
                if isinstance(v.func, ast.Attribute) and (_root_name(v.func.value) in names or
                                                          (_root_name(v.func.value), _first_attr(v.func.value)) in attrs):
                    return True
                if in_closure(v):
                    return False
                if isinstance(v.func, ast.Attribute) and _root_name(v.func.value) in loc:
                    return False
                return True
            return False
        if isinstance(st, (ast.Assign, ast.AugAssign, ast.AnnAssign)):
            tg = st.targets if isinstance(st, ast.Assign) else [st.target]
            return all(is_state_target(t) for t in tg)
        if isinstance(st, ast.If):
            return all(exempt(s) for s in st.body + st.orelse)
        return False
    out = []

    def hit(node, got, text):
        for s in sorted(got):
            out.append((node, s, text))

    def visit(stmts):
        for st in stmts:
            if isinstance(st, ast.If):
                got = touched(st.test)
                if got and not all(exempt(s) for s in st.body + st.orelse):
                    hit(st.test, got, "the branch on `%s`" % src(fn, st.test))
                visit(st.body)
                visit(st.orelse)
            elif isinstance(st, ast.While):
                got = touched(st.test)
                if got and not all(exempt(s) for s in st.body + st.orelse):
                    hit(st.test, got, "the loop test `%s`" % src(fn, st.test))
                visit(st.body)
                visit(st.orelse)
            elif isinstance(st, (ast.For, ast.AsyncFor)):
                got = touched(st.iter)
                if got and not all(exempt(s) for s in st.body + st.orelse):
                    hit(st.iter, got, "the loop over `%s`" % src(fn, st.iter))
                visit(st.body)
                visit(st.orelse)
            elif isinstance(st, ast.Return):
                got = touched(st.value)
                if got:
                    hit(st, got, "the returned value `%s`" % src(fn, st.value))
            elif isinstance(st, ast.Assert):
                got = touched(st.test)
                if got:
                    hit(st, got, "the assertion `%s`" % src(fn, st.test))
            elif isinstance(st, (ast.Assign, ast.AugAssign, ast.AnnAssign)):
                tg = st.targets if isinstance(st, ast.Assign) else [st.target]
                got = touched(st.value)
                for t in tg:
                    if isinstance(t, (ast.Subscript, ast.Attribute)) and not is_state_target(t):
                        g2 = got | (touched(t.slice) if isinstance(t, ast.Subscript) else set())
                        rn = _root_name(t)
                        if g2 and rn in set(fn.params) - dflt:
                            hit(st, g2, "the store `%s` into an object the caller passed in" % src(fn, st))
            elif isinstance(st, ast.Expr):
                v = st.value
                if isinstance(v, ast.Call) and in_closure(v):
                    got = set()
                    for a_ in list(v.args) + [k.value for k in v.keywords]:
                        got |= touched(a_)
                    if got:
                        hit(st, got, "the argument of `%s`" % src(fn, v))
                elif isinstance(v, (ast.Yield, ast.YieldFrom, ast.Await)):
                    got = touched(v.value)
                    if got:
                        hit(st, got, "the yielded value `%s`" % src(fn, v))
            elif isinstance(st, (ast.With, ast.AsyncWith)):
                visit(st.body)
            elif isinstance(st, ast.Try):
                visit(st.body)
                for h in st.handlers:
                    visit(h.body)
                visit(st.orelse)
                visit(st.finalbody)
    visit(fn.body)
    return [(n, s, t, "a mutable default argument of %s" % short(fn) if s in dflt else ms.how(
        s if "." not in s or s in ms.names else tuple(s.split(".", 1)))) for (n, s, t) in out]


def no_persistent_state_rule(r, idx, roots, what):
    """No function of the computation rooted at `roots` lets state that outlives a call reach its result
    (sites: the functions of the computation)."""
    cg = get_callgraph(idx)
    closure = call_closure(idx, roots)
    states = {}
    n_ = 0
    for q in sorted(closure):
        fn = closure[q]
        if isinstance(fn.node, ast.Lambda):
            continue
        r.site(fn, None, "function of the computation")
        ms = states.get(fn.module.name)
        if ms is None:
            ms = states[fn.module.name] = ModuleState(idx, fn.module)
        n_ += len(fn.cfg().nodes)
        seen = set()
        for (node, s, text, how) in state_feeds(fn, ms, closure, cg):
            if (id(node), s) in seen:
                continue
            seen.add((id(node), s))
            r.violation("%s[%s]" % (fn.qual, s), fn.loc(node), "%s: in %s %s depends on `%s`, which outlives the call and is "
                        "changed at run time (%s): the result is no longer a function of the arguments' current contents - "
                        "a second call after the caller changed its mapping in place can be answered from what an earlier "
                        "call saw" % (what, short(fn), text, s, how))
    r.count(n_)
    return closure


# ============================================ emptiness facts / key provenance (rules 9-11)
_EMPTY_DISPLAYS = ("{}", "[]", "()", "set()", "dict()", "list()", "frozenset()")


def empty_fact(op, l, r, names) -> bool:
    """The canonical edge fact (op, l, r) says that one of `names` is empty / false."""
    for x in names:
        ln = "len(%s)" % x
        if op == "false" and l in (x, ln):
            return True
        if op in ("==", "is") and (({l, r} == {ln, "0"}) or any({l, r} == {x, d} for d in _EMPTY_DISPLAYS)):
            return True
        if (op, l, r) in (("<", ln, "1"), ("<=", ln, "0")):
            return True
    return False


def nonempty_fact(op, l, r, names) -> bool:
    """The canonical edge fact (op, l, r) says that one of `names` is non-empty."""
    for x in names:
        ln = "len(%s)" % x
        if op == "truth" and l in (x, ln):
            return True
        if op == "!=" and (({l, r} == {ln, "0"}) or any({l, r} == {x, d} for d in _EMPTY_DISPLAYS)):
            return True
        if (op, l, r) in (("<", "0", ln), ("<=", "1", ln)):
            return True
    return False


def has_adders(fn, name) -> bool:
    """Some call in fn may put further elements into the plain-name container `name`."""
    for x in func_own_nodes(fn):
        if isinstance(x, ast.Call) and isinstance(x.func, ast.Attribute) and isinstance(x.func.value, ast.Name) \
                and x.func.value.id == name and x.func.attr in ("add", "update", "append", "extend", "insert",
                                                                "setdefault", "appendleft"):
            return True
        if isinstance(x, (ast.Assign, ast.AugAssign)):
            for t in (x.targets if isinstance(x, ast.Assign) else [x.target]):
                if isinstance(t, ast.Subscript) and isinstance(t.value, ast.Name) and t.value.id == name:
                    return True
    return False


def keys_of(fl, n, e, root, depth=6) -> bool:
    """Expression e (evaluated at CFG node n) is a collection holding only keys of the dict parameter `root`:
    root / root.keys() / sorted(root) / set([k for k in root]) / [k for k, v in root.items()] / a name copy of one
    of these that nothing is added to / a difference or intersection of such a collection."""
    e = unwrap(e)
    base, view = unwrap_view(e)
    if view in ("items", "values"):
        return False
    if view == "keys":
        e = base
        if not (isinstance(e, ast.Name) and e.id == root):
            return False
    if isinstance(e, ast.Name):
        if e.id == root:
            return fl.is_param(n, root)
        dn, v = fl.unique_def(n, e.id)
        if v is None or depth <= 0 or has_adders(fl.fn, e.id):
            return False
        return keys_of(fl, dn, v, root, depth - 1)
    if isinstance(e, (ast.ListComp, ast.SetComp, ast.GeneratorExp)) and len(e.generators) == 1 and isinstance(e.elt, ast.Name):
        g = e.generators[0]
        if isinstance(g.target, ast.Name) and g.target.id == e.elt.id:
            return keys_of(fl, n, g.iter, root, depth - 1)
        b2, v2 = unwrap_view(g.iter)
        if v2 == "items" and isinstance(g.target, ast.Tuple) and g.target.elts and isinstance(g.target.elts[0], ast.Name) \
                and g.target.elts[0].id == e.elt.id:
            return keys_of(fl, n, b2, root, depth - 1)
        return False
    if isinstance(e, ast.BinOp) and isinstance(e.op, (ast.Sub, ast.BitAnd)):
        return keys_of(fl, n, e.left, root, depth - 1)
    return False


def loop_key(fn, fl, n, e, ok_iter):
    """e is a plain name bound (at CFG node n) by an enclosing `for e in X` / `for e, _ in X.items()` whose
    iterable satisfies ok_iter(head node, X).  Returns the ast.For or None."""
    if not isinstance(e, ast.Name) or n.kind != "stmt":
        return None
    dn, _v = fl.unique_def(n, e.id)
    if dn is None or dn.kind != "iter":
        return None
    for l in enclosing_for(fn, n.ast):
        if l is not dn.ast:
            continue
        base, view = unwrap_view(l.iter)
        t = l.target
        if view == "items":
            okt = isinstance(t, ast.Tuple) and t.elts and isinstance(t.elts[0], ast.Name) and t.elts[0].id == e.id
        elif view in (None, "keys"):
            okt = isinstance(t, ast.Name) and t.id == e.id
        else:
            okt = False
        if okt and ok_iter(dn, base if view else l.iter):
            return l
    return None


def set_elements(e):
    """set([x]) / {x} / set((x,)) / frozenset([x]) -> [x]; None for another shape."""
    if isinstance(e, ast.Set):
        return list(e.elts)
    if isinstance(e, ast.Call) and isinstance(e.func, ast.Name) and e.func.id in ("set", "frozenset") and len(e.args) == 1 \
            and not e.keywords and isinstance(e.args[0], (ast.List, ast.Tuple, ast.Set)):
        return list(e.args[0].elts)
    return None


def handler_records_shares(hm):
    """A response handler `hm(self, res, tracker, ..)` records every share number of `res` under the tracker's server:
    for s in res[.keys()]: <selector>.add_peer_with_share(<tracker>.get_serverid(), s).
    True / False (no such call at all) / message (a call of another shape)."""
    cfg = hm.cfg()
    fl = Flow(hm)
    params = first_positional_params(hm)
    calls = [(n, c) for n in cfg.stmt_nodes() for c in node_calls(n) if call_tail(c) == "add_peer_with_share"]
    if not calls or not params:
        return False
    RES = params[0]
    for (n, c) in calls:
        if len(c.args) != 2:
            return "%s: add_peer_with_share is not given (server id, share number)" % hm.name
        sid = fl.origin(n, c.args[0])
        if not any(sid == "%s.get_serverid()" % p for p in params[1:]):
            return "%s records the share under %s, not under the id of the tracker that answered" % (hm.name, sid)
        lp = loop_key(hm, fl, n, c.args[1], lambda head, it: fl.origin(head, unwrap_view(unwrap(it))[0]) == RES)
        if lp is None:
            return "%s records %s, which is not a share number of the answer `%s`" % (hm.name, src(hm, c.args[1]), RES)
        w = body_skips(cfg, iter_node(cfg, lp), lambda x, _n=n: x is _n)
        if w:
            return "%s can skip a share number of the answer" % hm.name
        plain = Normaliser(Env(None, depth=0))

        def failed(x, lab):
            f = fact_on_edge(plain, x, lab)
            return bool(f) and f[0] == "truth" and f[1].startswith("isinstance(%s, " % RES) and "Failure" in f[1]
        if not find_path_avoiding(cfg, lambda x, _n=n: x is _n, gate_edge=failed):
            return "%s records shares only when the answer is a Failure" % hm.name
    return True


def has_yield(n) -> bool:
    return any(isinstance(x, (ast.Yield, ast.YieldFrom, ast.Await)) for e in node_exprs(n) for x in own_nodes(e))


# ===================================== recording into a relation (rule 14; C08.5 uses it for shares_by_server)
_SET_ADDERS = ("add",)
_SET_MERGERS = ("update", "union_update")
_KEYERRORS = ("KeyError", "LookupError", "Exception", "BaseException")


def handler_catches(h, names=_KEYERRORS) -> bool:
    """The `except` clause catches KeyError (by that name, a base class of it, or as a bare `except:`)."""
    t = getattr(h, "type", None)
    if t is None:
        return True
    for x in (t.elts if isinstance(t, ast.Tuple) else [t]):
        if (attr_path(x) or "").split(".")[-1] in names:
            return True
    return False


class PairRecord:
    """Decides, over all paths, that a piece of code records the pair (K, V) in the relation M (a mapping key -> set of
    values) without losing what M[K] held before.

    The monitor runs over the CFG (of the whole function, or of one iteration of the loop at `head`) with the state
    (recorded, what is known about `K in M`, a local set that already got V).  Recording steps:
      M[K].add(V) / M.setdefault(K, <new set>).add(V) / M.get(K).add(V) / M[K] |= {V} / M[K].update([V]) / M.add(K, V)
      (each also through a local bound to the receiver) - when the statement completes normally;
      M[K] = M[K] | {V} (old value kept) - always;
      M[K] = <new set holding V> / M.setdefault(K, <new set holding V>) - only where K is known to be absent (KeyError
      handler of a read of M[K], `K not in M`, `M.get(K) is None`); elsewhere the former keeps V but *overwrites* the
      earlier values (reported) and the latter does nothing for a key that is present;
      L = M.get(K, <new set>); L.add(V); M[K] = L.
    Results: .unrecorded [(witness)] ways to the end on which the pair was not recorded, .clobbers [(node, witness)],
    .foreign [(node, text)] insertions into M of something other than (K, V), .ops recording statements seen."""

    def __init__(self, fn, M, K, V, head=None):
        self.fn, self.M, self.K, self.V, self.head = fn, M, K, V, head
        self.cfg = fn.cfg()
        self.fl = Flow(fn)
        self.ops = {}
        self.foreign = {}
        self._clob = {}
        self.unrecorded = []
        self.clobbers = []
        self._run()

    # ---- expression classification
    def res(self, n, e, depth=4):
        """Follow plain-name copies to the defining expression: (node, expr)."""
        while depth > 0 and isinstance(e, ast.Name):
            dn, v = self.fl.unique_def(n, e.id)
            if v is None:
                break
            n, e, depth = dn, v, depth - 1
        return n, e

    def is_m(self, n, e, depth=4) -> bool:
        """e is the relation M (or a local that was bound to it)."""
        while depth > 0 and isinstance(e, ast.Name) and e.id != self.M:
            dn, v = self.fl.unique_def(n, e.id)
            if v is None or attr_path(v) is None:
                break
            n, e, depth = dn, v, depth - 1
        return attr_path(e) == self.M

    def is_k(self, n, e) -> bool:
        return e is not None and self.fl.origin(n, e) == self.K

    def is_v(self, n, e) -> bool:
        return e is not None and self.fl.origin(n, e) == self.V

    def slot(self, n, e):
        """e refers to the value M holds under some key: (kind, node, key expr, default expr) with kind in
        sub | setdefault | get1 | get2 (get2 also stands for `M.get(k) or <default>`)."""
        n2, e2 = self.res(n, e)
        if isinstance(e2, ast.Subscript) and self.is_m(n2, e2.value):
            return ("sub", n2, e2.slice, None)
        if isinstance(e2, ast.Call) and isinstance(e2.func, ast.Attribute) and self.is_m(n2, e2.func.value) \
                and not e2.keywords:
            a = e2.func.attr
            if a == "setdefault" and len(e2.args) == 2:
                return ("setdefault", n2, e2.args[0], e2.args[1])
            if a == "get" and len(e2.args) == 1:
                return ("get1", n2, e2.args[0], None)
            if a == "get" and len(e2.args) == 2:
                return ("get2", n2, e2.args[0], e2.args[1])
        if isinstance(e2, ast.BoolOp) and isinstance(e2.op, ast.Or) and len(e2.values) == 2:
            s = self.slot(n2, e2.values[0])
            if s and s[0] in ("get1", "get2"):
                return ("get2", s[1], s[2], e2.values[1])
        return None

    def new_set(self, n, e):
        """(e creates a set object, that set holds V) - names followed to their definition."""
        n2, e2 = self.res(n, e)
        if isinstance(e2, ast.Set):
            return True, any(self.is_v(n2, x) for x in e2.elts)
        if isinstance(e2, ast.SetComp):
            return True, False
        if isinstance(e2, ast.Call) and isinstance(e2.func, ast.Name) and e2.func.id == "set" and not e2.keywords:
            if not e2.args:
                return True, False
            a = e2.args[0]
            if len(e2.args) == 1 and isinstance(a, (ast.List, ast.Tuple, ast.Set)):
                return True, any(self.is_v(n2, x) for x in a.elts)
            return True, False
        return False, False

    def holds_v(self, n, e) -> bool:
        """A collection display / new set that holds V ({V}, [V], (V,), set([V]))."""
        n2, e2 = self.res(n, e)
        if isinstance(e2, (ast.List, ast.Tuple, ast.Set)):
            return any(self.is_v(n2, x) for x in e2.elts)
        return self.new_set(n2, e2)[1]

    def union_parts(self, e):
        if isinstance(e, ast.BinOp) and isinstance(e.op, ast.BitOr):
            return self.union_parts(e.left) + self.union_parts(e.right)
        if isinstance(e, ast.Call) and isinstance(e.func, ast.Attribute) and e.func.attr == "union" and not e.keywords:
            out = self.union_parts(e.func.value)
            for a in e.args:
                out += self.union_parts(a)
            return out
        return [e]

    # ---- the monitor
    def _knowledge(self, n, lab, know):
        """What the edge (n, lab) tells about `K in M`."""
        if n.kind != "test" or not isinstance(lab, tuple):
            return know
        pos = lab[0] == "T"
        c = n.ast
        if isinstance(c, ast.Compare) and len(c.ops) == 1:
            op, l, r = c.ops[0], c.left, c.comparators[0]
            if isinstance(op, (ast.In, ast.NotIn)) and self.is_k(n, l):
                base, view = unwrap_view(r)
                if view in (None, "keys") and self.is_m(n, base):
                    return "present" if isinstance(op, ast.In) == pos else "absent"
            if isinstance(op, (ast.Is, ast.IsNot, ast.Eq, ast.NotEq)):
                for (x, y) in ((l, r), (r, l)):
                    if isinstance(y, ast.Constant) and y.value is None:
                        s = self.slot(n, x)
                        if s and s[0] == "get1" and self.is_k(s[1], s[2]):
                            return "absent" if isinstance(op, (ast.Is, ast.Eq)) == pos else "present"
            return know
        s = self.slot(n, c)
        if s and s[0] == "get1" and self.is_k(s[1], s[2]):
            return "present" if pos else "absent"      # an entry that is an empty set may be replaced as well
        return know

    def _note_foreign(self, n, what):
        self.foreign.setdefault(n.id, (n, what))

    def _effects(self, n, st):
        rec, know, pend = st
        a = n.ast
        here = (n.id, st)
        calls = [x for e in node_exprs(n) for x in own_nodes(e) if isinstance(x, ast.Call)
                 and isinstance(x.func, ast.Attribute)]
        for c in calls:
            meth, recv = c.func.attr, c.func.value
            if c.keywords:
                continue
            if meth in _SET_ADDERS + _SET_MERGERS and len(c.args) == 1:
                s = self.slot(n, recv)
                val_ok = self.is_v(n, c.args[0]) if meth in _SET_ADDERS else self.holds_v(n, c.args[0])
                if s is not None:
                    kind, kn, key, dflt = s
                    if not (self.is_k(kn, key) and val_ok):
                        self._note_foreign(n, "%s records (%s, %s)" % (src(self.fn, c), src(self.fn, key), src(self.fn, c.args[0])))
                        continue
                    if kind in ("sub", "get1") or (kind == "setdefault" and self.new_set(kn, dflt)[0]):
                        rec, know = True, "present"
                        self.ops[id(c)] = c
                    elif kind == "get2" and isinstance(recv, ast.Name):
                        pend = recv.id             # old-or-new set: counts once it is stored back
                elif isinstance(recv, ast.Name) and val_ok and self.new_set(n, recv)[0]:
                    pend = recv.id
            elif meth == "add" and len(c.args) == 2 and self.is_m(n, recv):
                if self.is_k(n, c.args[0]) and self.is_v(n, c.args[1]):
                    rec, know = True, "present"
                    self.ops[id(c)] = c
                else:
                    self._note_foreign(n, "%s records (%s, %s)" % (src(self.fn, c), src(self.fn, c.args[0]), src(self.fn, c.args[1])))
            elif meth == "setdefault" and len(c.args) == 2 and self.is_m(n, recv):
                if not self.is_k(n, c.args[0]):
                    if self.new_set(n, c.args[1])[0]:
                        self._note_foreign(n, "%s makes an entry for %s" % (src(self.fn, c), src(self.fn, c.args[0])))
                    continue
                if self.new_set(n, c.args[1])[1]:
                    self.ops[id(c)] = c
                    if know == "absent":
                        rec = True
                know = "present"
        targets = []
        if n.kind == "stmt" and isinstance(a, ast.Assign):
            targets = [(t, a.value, None) for t in a.targets]
        elif n.kind == "stmt" and isinstance(a, ast.AugAssign):
            targets = [(a.target, a.value, a.op)]
        for (t, val, op) in targets:
            if not (isinstance(t, ast.Subscript) and self.is_m(n, t.value)):
                continue
            if not self.is_k(n, t.slice):
                self._note_foreign(n, "%s stores under %s" % (src(self.fn, a), src(self.fn, t.slice)))
                continue
            if op is not None:
                if isinstance(op, ast.BitOr) and self.holds_v(n, val):
                    rec, know = True, "present"
                    self.ops[id(a)] = a
                continue
            keeps, has_v, fresh = False, False, False
            vn, ve = n, val
            if isinstance(val, ast.Name) and self.slot(n, val) is None and not self.new_set(n, val)[0]:
                vn, ve = self.res(n, val)
            for p in self.union_parts(ve):
                named = isinstance(p, ast.Name) and pend == p.id
                s = self.slot(vn, p)
                if s is not None:
                    if self.is_k(s[1], s[2]) and (s[0] != "get2" or self.new_set(s[1], s[3])[0]):
                        keeps = True
                        has_v = has_v or named or (s[0] == "get2" and self.new_set(s[1], s[3])[1])
                    continue
                isnew, hv = self.new_set(vn, p)
                if isnew:
                    fresh = True
                    has_v = has_v or hv or named
            if keeps:
                if has_v:
                    rec = True
                    self.ops[id(a)] = a
            elif know == "absent":
                if has_v:
                    rec = True
                    self.ops[id(a)] = a
            else:
                if has_v:
                    self.ops[id(a)] = a
                    rec = True          # this pair is there - the earlier ones are gone (reported)
                self._clob.setdefault(n.id, (n, here, fresh))
            know = "present"
        return (rec, know, pend)

    def _run(self):
        cfg, head = self.cfg, self.head
        START = ("start", None, None)

        def transfer(n, lab, nxt, st):
            if n.kind in ("exit", "raise"):
                return None
            if head is not None and n is head:
                return (False, None, None) if (st == START and lab == "iter") else None
            return self._step(n, lab, nxt, (False, None, None) if st == START else st)
        visited, parent = explore(cfg, START, transfer, start=head)
        ends = [cfg.exit] + ([head] if head is not None else [])
        seen = set()
        for (nid, st) in sorted(visited, key=lambda x: (x[0], str(x[1]))):
            n = cfg.nodes[nid]
            if any(n is e for e in ends) and st != START and not st[0] and nid not in seen:
                seen.add(nid)
                self.unrecorded.append(witness(cfg, parent, (nid, st)))
        for (n, here, fresh) in self._clob.values():
            self.clobbers.append((n, witness(cfg, parent, here) if here in parent else None, fresh))

    def _step(self, n, lab, nxt, st):
        if n.kind == "entry":
            return st
        if lab == "exc":
            if nxt.kind == "raise":
                return None
            rec, know, pend = st
            if nxt.kind == "except" and handler_catches(nxt.ast):
                reads = [x for e in node_exprs(n) for x in own_nodes(e) if isinstance(x, ast.Subscript)]
                if any(self.is_m(n, x.value) and self.is_k(n, x.slice) for x in reads):
                    know = "absent"
            return (rec, know, pend)
        rec, know, pend = self._effects(n, st) if n.kind in ("stmt", "test", "iter", "with") else st
        know = self._knowledge(n, lab, know)
        return (rec, know, pend)


def run(ctx: Context):
    idx = ctx.idx
    reported = set()

    # ------------------------------------------------------------------ 1
    with ctx.rule("C07.1", "R9", "loop-escape alias: no container created outside a loop is inserted per iteration and "
                  "mutated per iteration without re-binding (sweep of happiness_upload, happinessutil, "
                  "immutable.upload); the adjacency row stored for peer p in _servermap_flow_graph is built from "
                  "containers created in p's iteration", expected=1) as r:
        fn = idx.func(HU + ":_servermap_flow_graph")
        fl = Flow(fn)
        cfg = fn.cfg()
        P = first_positional_params(fn)[0]
        g = returned_name(fn)
        ploops = loops_over(fn, P)
        rows = []
        for n in cfg.stmt_nodes():
            encl = enclosing_for(fn, n.ast) if n.kind == "stmt" else []
            if not any(l in ploops for l in encl):
                continue
            for (kind, key, val) in container_stores(n, g):
                rows.append((n, key, val))
        if not rows:
            raise AnchorVanished("_servermap_flow_graph: no per-peer store into the graph inside `for .. in %s`" % P)
        for (n, key, val) in rows:
            r.site(fn, n.ast, "adjacency row of a peer")
            funcs = {id(c.func) for c in own_nodes(val) if isinstance(c, ast.Call)}
            for nm in sorted({x.id for x in own_nodes(val) if isinstance(x, ast.Name) and id(x) not in funcs}):
                cr = creators_of(cfg, fl.rd, n, nm)
                if not cr:
                    continue
                reported.add((fn.qual, id(n.ast), nm))
                r9_alias(fn, r, n, nm, "%s[peer index]" % g, cr, what="stored (or copied into the row)")
        # general sweep
        total = 0
        for f in idx.funcs.values():
            if f.module.name in SWEEP_MODULES and not isinstance(f.node, ast.Lambda):
                cfg2 = f.cfg()
                rd2 = C.reaching_defs(cfg2)
                reach = cfg2.reachable_nodes()
                for n in cfg2.stmt_nodes():
                    if n.id not in reach:
                        continue
                    for (name, how, cpath) in escaping_stores2(n):
                        cr = creators_of(cfg2, rd2, n, name)
                        if not cr or not on_cycle(cfg2, n):
                            continue
                        total += 1
                        r.site(f, n.ast, "%s -> %s" % (name, how))
                        if (f.qual, id(n.ast), name) not in reported:
                            if r9_alias(f, r, n, name, how, cr):
                                # the same object under several keys, changed through the container
                                shared_slots(f, r, n, name, how, cpath, cr)
                for (n, cpath, v, muts) in fromkeys_shared(f):
                    r.violation(f, f.loc(n.ast), "shared slot object: dict.fromkeys(.., %s) puts ONE object under every key of "
                                "%s, and the objects held by %s are changed in place at line %s" % (
                                    src(f, v), cpath, cpath, ",".join(str(m.lineno) for m in muts)))
        ctx.note("R9: %d insertions of locally created containers inside loops examined" % total)

    # ------------------------------------------------------------------ 2
    with ctx.rule("C07.2", "R5", "index space of the placement flow graph: _reindex bases, source/peer/share/sink rows "
                  "of _servermap_flow_graph and _flow_network, row provenance servermap[peer], read-back with the "
                  "sink index and conversion through index_to_share/index_to_peer", expected=22) as r:
        # (a) _reindex itself
        rx = idx.func(HU + ":_reindex")
        items, base = first_positional_params(rx)[:2]
        rcfg = rx.cfg()
        rets = [n for n in rcfg.find(is_return) if isinstance(n.ast.value, ast.Tuple) and len(n.ast.value.elts) == 2
                and all(isinstance(e, ast.Name) for e in n.ast.value.elts)]
        if len(rets) != 1:
            raise AnchorVanished("_reindex no longer returns a pair of named dicts")
        fwd_name, back_name = [e.id for e in rets[0].ast.value.elts]
        rloops = loops_over(rx, items)
        if len(rloops) != 1:
            raise AnchorVanished("_reindex: loop over %s" % items)
        lv = rloops[0].target.id if isinstance(rloops[0].target, ast.Name) else None
        head = iter_node(rcfg, rloops[0])
        r.site(rx, rloops[0], "_reindex numbering loop")
        st_f = [(n, k, v) for n in rcfg.stmt_nodes() for (_k, k, v) in container_stores(n, fwd_name)]
        st_b = [(n, k, v) for n in rcfg.stmt_nodes() for (_k, k, v) in container_stores(n, back_name)]
        r.require(len(st_f) == 1 and norm_plain(st_f[0][1]) == lv and norm_plain(st_f[0][2]) == base, rx, rx.loc(),
                  "_reindex: %s is not filled with {item: current index}" % fwd_name)
        r.require(len(st_b) == 1 and norm_plain(st_b[0][1]) == base and norm_plain(st_b[0][2]) == lv, rx, rx.loc(),
                  "_reindex: %s is not filled with {current index: item}" % back_name)
        incs = [n for n in rcfg.stmt_nodes() if n.kind == "stmt" and isinstance(n.ast, ast.AugAssign)
                and isinstance(n.ast.op, ast.Add) and attr_path(n.ast.target) == base
                and norm_plain(n.ast.value) == "1"]
        incs += [n for n in rcfg.stmt_nodes() if n.kind == "stmt" and isinstance(n.ast, ast.Assign)
                 and [attr_path(t) for t in n.ast.targets] == [base]
                 and norm_plain(n.ast.value) == norm_src("%s + 1" % base)]
        if r.require(len(incs) == 1, rx, rx.loc(), "_reindex: the index is not advanced by exactly one per item"):
            inc = incs[0]
            stores_fb = {id(x[0]) for x in st_f + st_b}
            w = body_skips(rcfg, head, lambda n: n is inc)
            r.require(not w, rx, rx.loc(inc.ast), "_reindex: an item can be numbered without advancing the index")
            # the increment comes after both stores of the iteration
            for (n, _k, _v) in st_f + st_b:
                late = find_path_from_to_avoiding(rcfg, lambda m: m is inc, lambda m: m is head,
                                                  ends=lambda m, _n=n: m is _n)
                r.require(not late, rx, rx.loc(inc.ast), "_reindex: the index is advanced between the two table stores")

        # (b) bases agree in _calculate_mappings and _servermap_flow_graph
        tables = {}
        for q in ("_calculate_mappings", "_servermap_flow_graph"):
            f = idx.func(HU + ":" + q)
            ps = first_positional_params(f)
            P, SH = ps[0], ps[1]
            nm = N(f)
            cs = calls_in_func(f, "_reindex")
            got = {}
            for c in cs:
                a0, a1 = arg(c, 0, "items"), arg(c, 1, "base")
                if isinstance(a0, ast.Name) and a1 is not None:
                    got[a0.id] = (c, nm.norm(a1))
            if P not in got or SH not in got:
                raise AnchorVanished("%s: _reindex(%s, ..) / _reindex(%s, ..)" % (q, P, SH))
            r.site(f, got[P][0], "peer numbering")
            r.site(f, got[SH][0], "share numbering")
            r.require(got[P][1] == "1", f, f.loc(got[P][0]),
                      "%s numbers the peers from %s; vertex 0 is the source, peers must start at 1" % (q, got[P][1]))
            want = norm_src("len(%s) + 1" % P)
            r.require(got[SH][1] == want, f, f.loc(got[SH][0]),
                      "%s numbers the shares from %s, expected %s (directly after the peers)" % (q, got[SH][1], want))
            # names of the tables
            tb = {}
            for x in func_own_nodes(f):
                if isinstance(x, ast.Assign) and isinstance(x.value, ast.Call) and call_tail(x.value) == "_reindex" \
                        and isinstance(x.targets[0], ast.Tuple) and len(x.targets[0].elts) == 2:
                    a0 = arg(x.value, 0, "items")
                    kind = "peer" if (isinstance(a0, ast.Name) and a0.id == P) else "share"
                    tb[kind + "_to_index"] = attr_path(x.targets[0].elts[0])
                    tb["index_to_" + kind] = attr_path(x.targets[0].elts[1])
            tables[q] = tb

        # (c) _servermap_flow_graph layout
        fn = idx.func(HU + ":_servermap_flow_graph")
        fl = Flow(fn)
        cfg = fn.cfg()
        fnorm = FlowNorm(fn)
        P, SH, SM = first_positional_params(fn)[:3]
        g = returned_name(fn)
        tb = tables["_servermap_flow_graph"]
        p2i, s2i = tb.get("peer_to_index"), tb.get("share_to_index")
        if not p2i or not s2i:
            raise AnchorVanished("_servermap_flow_graph: index tables")
        ploops, sloops = loops_over(fn, P), loops_over(fn, SH)
        all_stores = [(n, kind, key, val) for n in cfg.stmt_nodes() for (kind, key, val) in container_stores(n, g)]

        def in_loop(n, loops):
            return n.kind == "stmt" and any(l in loops for l in enclosing_for(fn, n.ast))
        peer_rows = [x for x in all_stores if in_loop(x[0], ploops)]
        share_rows = [x for x in all_stores if in_loop(x[0], sloops) and not in_loop(x[0], ploops)]
        others = [x for x in all_stores if x not in peer_rows and x not in share_rows]
        if not peer_rows or not share_rows or not others:
            raise AnchorVanished("_servermap_flow_graph: source/peer/share/sink rows")
        # source row
        srcs = [x for x in others if isinstance(x[3], ast.ListComp)]
        sinks = [x for x in others if isinstance(x[3], ast.List) and not x[3].elts]
        r.site(fn, srcs[0][0].ast if srcs else None, "source row")
        ok = False
        if len(srcs) == 1 and srcs[0][1] == "append":
            lc = srcs[0][3]
            if len(lc.generators) == 1 and not lc.generators[0].ifs and isinstance(lc.generators[0].target, ast.Name):
                tv = lc.generators[0].target.id
                ok = norm_plain(unwrap(lc.generators[0].iter)) == P and norm_plain(lc.elt) == "%s[%s]" % (p2i, tv)
        r.require(ok, fn, fn.loc(srcs[0][0].ast if srcs else None),
                  "the source row (vertex 0) is not [%s[p] for p in %s]" % (p2i, P))
        if srcs:
            for (t, w) in find_path_avoiding(cfg, lambda m: any(m is x[0] for x in peer_rows + share_rows + sinks),
                                             gate_node=lambda m: m is srcs[0][0]):
                r.violation(fn, fn.loc(t.ast), "a row is added to the graph before the source row (vertex 0)", w)
        # peer rows
        for (n, kind, key, val) in peer_rows:
            r.site(fn, n.ast, "peer row index")
            loop = [l for l in enclosing_for(fn, n.ast) if l in ploops][0]
            pv = loop.target.id if isinstance(loop.target, ast.Name) else "?"
            r.require(kind in ("insert", "setitem") and key is not None and norm_plain(key) == "%s[%s]" % (p2i, pv),
                      fn, fn.loc(n.ast), "peer row stored at %s, expected index %s[%s]" % (
                          src(fn, key) if key is not None else "the end", p2i, pv))
            # provenance of the row's elements
            rv = val.id if isinstance(val, ast.Name) else None
            elems = []
            if rv is not None:
                for m in cfg.stmt_nodes():
                    if in_loop(m, [loop]):
                        for (k2, key2, v2) in container_stores(m, rv):
                            elems.append((m, v2))
            comp = fl.unique_def(n, rv)[1] if rv else val
            if isinstance(comp, ast.ListComp):
                gen = comp.generators[0]
                tv = gen.target.id if isinstance(gen.target, ast.Name) else "?"
                it = norm_plain(gen.iter)
                guards = {norm_plain(i) for i in gen.ifs}
                okc = len(comp.generators) == 1 and norm_plain(comp.elt) == "%s[%s]" % (s2i, tv) \
                    and norm_src("%s in %s" % (tv, s2i)) in guards \
                    and (it.startswith("%s.get(%s, " % (SM, pv)) or it == "%s[%s]" % (SM, pv))
                r.site(fn, comp, "row elements (comprehension)")
                r.require(okc, fn, fn.loc(comp), "row of peer %s is %s, expected %s[s] for s in %s[%s] if s in %s" % (
                    pv, src(fn, comp), s2i, SM, pv, s2i))
                if it == "%s[%s]" % (SM, pv):
                    bad = find_path_avoiding(cfg, lambda m: m is fl.node_of(comp),
                                             gate_edge=fact_gate(None, lambda op, l, rr: (op, l, rr) == ("in", pv, SM)),
                                             kill=lambda m: m.kind == "iter" and m.ast is loop)
                    for (t, w) in bad:
                        r.violation(fn, fn.loc(t.ast), "%s[%s] is read without checking %s in %s" % (SM, pv, pv, SM), w)
                continue
            if not elems:
                r.violation(fn, fn.loc(n.ast), "the row stored for peer %s is never filled from %s[%s]" % (pv, SM, pv))
                continue
            for (m, v2) in elems:
                r.site(fn, m.ast, "row element")
                inner = [l for l in enclosing_for(fn, m.ast) if l is not loop and l not in ploops]
                sv = inner[-1].target.id if inner and isinstance(inner[-1].target, ast.Name) else None
                it = norm_plain(unwrap(inner[-1].iter)) if inner else None
                r.require(sv is not None and norm_plain(v2) == "%s[%s]" % (s2i, sv) and it == "%s[%s]" % (SM, pv),
                          fn, fn.loc(m.ast), "row of peer %s gets %s for %s in %s; expected %s[s] for s in %s[%s] "
                          "(a server is adjacent only to the shares it holds)" % (
                              pv, src(fn, v2), sv, it, s2i, SM, pv))
                if sv is None:
                    continue
                for (what, fact) in (("%s in %s" % (pv, SM), ("in", pv, SM)), ("%s in %s" % (sv, s2i), ("in", sv, s2i))):
                    bad = find_path_avoiding(
                        cfg, lambda x, _m=m: x is _m,
                        gate_edge=fact_gate(None, lambda op, l, rr, _f=fact: (op, l, rr) == _f),
                        kill=lambda x, _v=fact[1]: x.kind == "iter" and _v in node_stores(x))
                    r.count(len(cfg.nodes))
                    for (t, w) in bad:
                        r.violation(fn, fn.loc(t.ast), "row element added without the guard `%s` (KeyError for a share "
                                    "outside this phase / a peer without shares) (path: %s)" % (what, w.brief()), w)
        # share rows + sink
        sink_names = set()
        for (n, kind, key, val) in share_rows:
            r.site(fn, n.ast, "share row")
            loop = [l for l in enclosing_for(fn, n.ast) if l in sloops][0]
            shv = loop.target.id if isinstance(loop.target, ast.Name) else "?"
            okk = kind in ("insert", "setitem") and key is not None and norm_plain(key) == "%s[%s]" % (s2i, shv)
            r.require(okk, fn, fn.loc(n.ast), "share row stored at %s, expected index %s[%s]" % (
                src(fn, key) if key is not None else "the end", s2i, shv))
            okv = isinstance(val, ast.List) and len(val.elts) == 1
            r.require(okv, fn, fn.loc(n.ast), "a share vertex must have exactly one edge, to the sink; got %s" % src(fn, val))
            if okv:
                se = fl.unique_def(n, val.elts[0].id)[1] if isinstance(val.elts[0], ast.Name) else val.elts[0]
                st = sink_terms(se) if se is not None else None
                r.require(st == (1, sorted([P, SH])), fn, fn.loc(n.ast),
                          "sink index is %s, expected len(%s) + len(%s) + 1 (the last row)" % (
                              src(fn, se) if se is not None else "?", P, SH))
            # peers loop is finished before the first share row
            heads = [iter_node(cfg, l) for l in ploops]
            bad = find_path_avoiding(cfg, lambda x, _n=n: x is _n,
                                     gate_edge=lambda x, lab: lab == "done" and any(x is h for h in heads))
            for (t, w) in bad:
                r.violation(fn, fn.loc(t.ast), "share rows are inserted before all peer rows (indices would shift)", w)
        r.site(fn, sinks[0][0].ast if sinks else None, "sink row")
        if r.require(len(sinks) == 1 and sinks[0][1] == "append", fn, fn.loc(), "no single empty sink row is appended last"):
            sk = sinks[0][0]
            heads = [iter_node(cfg, l) for l in sloops]
            bad = find_path_avoiding(cfg, lambda x: x is sk,
                                     gate_edge=lambda x, lab: lab == "done" and any(x is h for h in heads))
            for (t, w) in bad:
                r.violation(fn, fn.loc(t.ast), "the sink row is appended before the share rows", w)
            rg = [n for n in cfg.find(is_return) if isinstance(n.ast.value, ast.Name) and n.ast.value.id == g]
            bad = find_path_avoiding(cfg, lambda x: any(x is y for y in rg), gate_node=lambda x: x is sk)
            for (t, w) in bad:
                r.violation(fn, fn.loc(t.ast), "graph returned without its sink row", w)

        # (d) _flow_network
        fw = idx.func(HU + ":_flow_network")
        PI, SI = first_positional_params(fw)[:2]
        wcfg = fw.cfg()
        wl = Flow(fw)
        gw = returned_name(fw)
        wst = [(n, kind, key, val) for n in wcfg.stmt_nodes() for (kind, key, val) in container_stores(n, gw)]
        wp = [x for x in wst if x[0].kind == "stmt" and any(l in loops_over(fw, PI) for l in enclosing_for(fw, x[0].ast))]
        ws = [x for x in wst if x[0].kind == "stmt" and any(l in loops_over(fw, SI) for l in enclosing_for(fw, x[0].ast))]
        wo = [x for x in wst if x not in wp and x not in ws]
        if len(wp) != 1 or len(ws) != 1 or len(wo) != 2:
            raise AnchorVanished("_flow_network: source/peer/share/sink rows")
        r.site(fw, wp[0][0].ast, "_flow_network peer rows")
        lp = [l for l in enclosing_for(fw, wp[0][0].ast)][0]
        r.require(wp[0][2] is not None and norm_plain(wp[0][2]) == norm_plain(lp.target)
                  and norm_plain(unwrap(wp[0][3])) == SI, fw, fw.loc(wp[0][0].ast),
                  "_flow_network: a peer vertex is not connected to every share index at its own index")
        r.site(fw, ws[0][0].ast, "_flow_network share rows")
        ls = [l for l in enclosing_for(fw, ws[0][0].ast)][0]
        val = ws[0][3]
        se = None
        if isinstance(val, ast.List) and len(val.elts) == 1:
            se = wl.unique_def(ws[0][0], val.elts[0].id)[1] if isinstance(val.elts[0], ast.Name) else val.elts[0]
        r.require(ws[0][2] is not None and norm_plain(ws[0][2]) == norm_plain(ls.target) and se is not None
                  and sink_terms(se) == (1, sorted([PI, SI])), fw, fw.loc(ws[0][0].ast),
                  "_flow_network: share rows must be [sink] with sink = len(%s) + len(%s) + 1" % (PI, SI))
        first = [x for x in wo if isinstance(x[3], ast.Name)]
        last = [x for x in wo if isinstance(x[3], ast.List) and not x[3].elts]
        r.require(len(first) == 1 and first[0][1] == "append" and first[0][3].id == PI and len(last) == 1
                  and last[0][1] == "append", fw, fw.loc(), "_flow_network: source row %s / empty sink row" % PI)
        if len(first) == 1 and len(last) == 1:
            for (t, w) in find_path_avoiding(wcfg, lambda x: x is wp[0][0] or x is ws[0][0] or x is last[0][0],
                                             gate_node=lambda x: x is first[0][0]):
                r.violation(fw, fw.loc(t.ast), "_flow_network: a row precedes the source row", w)
            hp = iter_node(wcfg, lp)
            hs = iter_node(wcfg, ls)
            for (t, w) in find_path_avoiding(wcfg, lambda x: x is ws[0][0], gate_edge=lambda x, lab: x is hp and lab == "done"):
                r.violation(fw, fw.loc(t.ast), "_flow_network: share rows before peer rows", w)
            for (t, w) in find_path_avoiding(wcfg, lambda x: x is last[0][0], gate_edge=lambda x, lab: x is hs and lab == "done"):
                r.violation(fw, fw.loc(t.ast), "_flow_network: sink row before share rows", w)

        # (e) _calculate_mappings plumbing
        cm = idx.func(HU + ":_calculate_mappings")
        cl = Flow(cm)
        ccfg = cm.cfg()
        cnorm = FlowNorm(cm)
        P, SH, SM = first_positional_params(cm)[:3]
        tb = tables["_calculate_mappings"]
        want_pi = "_reindex(%s, 1)" % P
        want_si = "_reindex(%s, %s)" % (SH, norm_src("len(%s) + 1" % P))

        def the_call(tail):
            ns = [n for n in ccfg.nodes if calls_at(n, tail)]
            if len(ns) != 1:
                raise AnchorVanished("_calculate_mappings: call of %s" % tail)
            return ns[0], calls_at(ns[0], tail)[0]
        n_sf, c_sf = the_call("_servermap_flow_graph")
        n_fn, c_fn = the_call("_flow_network")
        n_mx, c_mx = the_call("_compute_maximum_graph")
        n_cv, c_cv = the_call("_convert_mappings")
        r.site(cm, c_sf, "servermap graph call")
        r.require([norm_plain(a) for a in c_sf.args] == [P, SH, SM] and not c_sf.keywords, cm, cm.loc(c_sf),
                  "_servermap_flow_graph is not given (%s, %s, %s): the two numberings would disagree" % (P, SH, SM))

        def index_list(n, e, table_origin, over):
            e = cl.unique_def(n, e.id)[1] if isinstance(e, ast.Name) else e
            if not (isinstance(e, ast.ListComp) and len(e.generators) == 1 and not e.generators[0].ifs):
                return False
            gen = e.generators[0]
            if not (isinstance(e.elt, ast.Subscript) and isinstance(gen.target, ast.Name)
                    and norm_plain(e.elt.slice) == gen.target.id and norm_plain(unwrap(gen.iter)) == over):
                return False
            return cl.origin(cl.node_of(e), e.elt.value) == table_origin
        r.site(cm, c_fn, "complete graph call")
        r.require(len(c_fn.args) == 2 and index_list(n_fn, c_fn.args[0], want_pi + "[0]", P)
                  and index_list(n_fn, c_fn.args[1], want_si + "[0]", SH), cm, cm.loc(c_fn),
                  "_flow_network is not given [peer_to_index[p] for p in %s], [share_to_index[s] for s in %s]" % (P, SH))
        r.site(cm, c_mx, "matching call")
        g_arg = arg(c_mx, 0, "graph")
        gdefs = {d for d in cl.rd.get(n_mx.id, {}).get(g_arg.id, ())} if isinstance(g_arg, ast.Name) else set()
        r.require(gdefs == {n_sf.id, n_fn.id}, cm, cm.loc(c_mx),
                  "the graph given to _compute_maximum_graph is not the one built by _servermap_flow_graph/_flow_network")
        r.require(len(c_mx.args) == 2 and index_list(n_mx, c_mx.args[1], want_si + "[0]", SH), cm, cm.loc(c_mx),
                  "_compute_maximum_graph is not given the index of every share in %s (a share would get no key)" % SH)
        r.site(cm, c_cv, "conversion call")
        got = [cl.origin(n_cv, a) for a in c_cv.args]
        r.require(len(got) == 3 and got[0] == want_pi + "[1]" and got[1] == want_si + "[1]"
                  and got[2].startswith("_compute_maximum_graph("), cm, cm.loc(c_cv),
                  "_convert_mappings gets (%s), expected (index_to_peer, index_to_share, matching)" % ", ".join(got))
        rt = [n for n in ccfg.find(is_return)]
        r.require(len(rt) == 1 and cl.origin(rt[0], rt[0].ast.value).startswith("_convert_mappings("), cm, cm.loc(),
                  "_calculate_mappings does not return the converted matching")
        # servermap branch
        t_fact = fact_gate(cnorm, lambda op, l, rr: op == "truth" and l == SM)
        f_fact = fact_gate(cnorm, lambda op, l, rr: op == "false" and l == SM)
        for (t, w) in find_path_avoiding(ccfg, lambda x: x is n_sf, gate_edge=t_fact):
            r.violation(cm, cm.loc(t.ast), "_servermap_flow_graph is used although no servermap was given", w)
        for (t, w) in find_path_avoiding(ccfg, lambda x: x is n_fn, gate_edge=f_fact):
            r.violation(cm, cm.loc(t.ast), "the complete peers x shares graph is used although a servermap was given: a "
                        "server would be matched with shares it does not hold", w)

        # (f) _compute_maximum_graph read-back
        mg = idx.func(HU + ":_compute_maximum_graph")
        G, SI = first_positional_params(mg)[:2]
        mcfg = mg.cfg()
        mnorm = FlowNorm(mg)
        out = returned_name(mg)
        mloops = loops_over(mg, SI)
        if len(mloops) != 1 or not isinstance(mloops[0].target, ast.Name):
            raise AnchorVanished("_compute_maximum_graph: loop over %s" % SI)
        sv = mloops[0].target.id
        mhead = iter_node(mcfg, mloops[0])
        mst = [(n, key, val) for n in mcfg.stmt_nodes() for (_k, key, val) in container_stores(n, out)]
        if not mst:
            raise AnchorVanished("_compute_maximum_graph: stores into %s" % out)
        r.site(mg, mloops[0], "read-back loop")
        w = body_skips(mcfg, mhead, lambda n: any(n is x[0] for x in mst))
        r.require(not w, mg, mg.loc(mloops[0]), "a share index can leave the read-back loop without a key in %s" % out)
        resid = None
        for (n, key, val) in mst:
            r.site(mg, n.ast, "read-back store")
            r.require(key is not None and norm_plain(key) == sv, mg, mg.loc(n.ast),
                      "matching stored under %s, expected the share index %s" % (src(mg, key), sv))
            sink_list = norm_src("[len(%s) - 1]" % G)
            is_none = isinstance(val, ast.Constant) and val.value is None
            vn = mnorm.norm(n, val)
            m_ = re.match(r"^(.+)\[%s\]\[0\]$" % re.escape(sv), vn)
            if not is_none:
                r.require(m_ is not None, mg, mg.loc(n.ast), "matched peer read as %s, expected residual_graph[%s][0]" % (vn, sv))
                if m_:
                    resid = m_.group(1)
            rname = resid or "residual_graph"

            def at_sink(op, l, rr, _eq=is_none):
                return op == ("==" if _eq else "!=") and sink_list in (l, rr) and \
                    re.match(r"^.+\[%s\]$" % re.escape(sv), rr if l == sink_list else l) is not None
            bad = find_path_avoiding(mcfg, lambda x, _n=n: x is _n, gate_edge=fact_gate(mnorm, at_sink),
                                     kill=lambda x: x is mhead)
            r.count(len(mcfg.nodes))
            for (t, w2) in bad:
                r.violation(mg, mg.loc(t.ast), "share %s without comparing its residual edges with [len(%s) - 1] "
                            "(the sink is the last row)" % ("declared unmatched" if is_none else "read as matched", G), w2)

        # (g) _convert_mappings
        cv = idx.func(HU + ":_convert_mappings")
        I2P, I2S, MG = first_positional_params(cv)[:3]
        vcfg = cv.cfg()
        vnorm = FlowNorm(cv)
        vout = returned_name(cv)
        vloops = loops_over(cv, MG)
        if len(vloops) != 1 or not isinstance(vloops[0].target, ast.Name):
            raise AnchorVanished("_convert_mappings: loop over %s" % MG)
        kv = vloops[0].target.id
        vhead = iter_node(vcfg, vloops[0])
        vst = [(n, key, val) for n in vcfg.stmt_nodes() for (_k, key, val) in container_stores(n, vout)]
        if not vst:
            raise AnchorVanished("_convert_mappings: stores")
        r.site(cv, vloops[0], "conversion loop")
        r.require(not body_skips(vcfg, vhead, lambda n: any(n is x[0] for x in vst)), cv, cv.loc(vloops[0]),
                  "a share of the matching can be dropped by _convert_mappings")
        wantv = {norm_src("set([%s[%s[%s]]])" % (I2P, MG, kv)), norm_src("{%s[%s[%s]]}" % (I2P, MG, kv))}
        for (n, key, val) in vst:
            r.site(cv, n.ast, "conversion store")
            r.require(key is not None and vnorm.norm(n, key) == "%s[%s]" % (I2S, kv), cv, cv.loc(n.ast),
                      "converted key is %s, expected %s[%s]" % (src(cv, key), I2S, kv))
            is_none = isinstance(val, ast.Constant) and val.value is None
            if not is_none:
                r.require(vnorm.norm(n, val) in wantv, cv, cv.loc(n.ast),
                          "converted peer is %s, expected {%s[%s[%s]]}" % (vnorm.norm(n, val), I2P, MG, kv))

            def none_fact(op, l, rr, _eq=is_none):
                ops = ("==", "is") if _eq else ("!=", "is not")
                return op in ops and {l, rr} == {"None", "%s[%s]" % (MG, kv)}
            for (t, w2) in find_path_avoiding(vcfg, lambda x, _n=n: x is _n, gate_edge=fact_gate(vnorm, none_fact),
                                              kill=lambda x: x is vhead):
                r.violation(cv, cv.loc(t.ast), "unmatched (None) and matched shares are confused in _convert_mappings", w2)

    # ------------------------------------------------------- share_placement
    sp = idx.func(HU + ":share_placement")
    sl = Flow(sp)
    scfg = sp.cfg()
    snorm = FlowNorm(sp)
    P, RO, SH, P2S = first_positional_params(sp)[:4]
    calc = [n for n in scfg.nodes if calls_at(n, "_calculate_mappings")]
    phases = []
    if len(calc) == 3 and all(n.kind == "stmt" and isinstance(n.ast, ast.Assign) and len(n.ast.targets) == 1
                              and isinstance(n.ast.targets[0], ast.Name) for n in calc):
        calc.sort(key=lambda n: sum(1 for m in calc if reach_from(scfg, m, n)))
        phases = [(n, calls_at(n, "_calculate_mappings")[0], n.ast.targets[0].id) for n in calc]

    def need_phases():
        if len(phases) != 3:
            raise AnchorVanished("share_placement: three `x = _calculate_mappings(..)` phases")

    def ids_of(target, i):
        return "_extract_ids(%s)[%d]" % (target, i)

    def extract_origin(n, e):
        """'_extract_ids(<name of the mappings variable>)[i]' for a name bound by unpacking _extract_ids."""
        if not isinstance(e, ast.Name):
            return norm_plain(e)
        dn, v = sl.unique_def(n, e.id)
        if isinstance(v, ast.Subscript) and isinstance(v.value, ast.Call) and call_tail(v.value) == "_extract_ids" \
                and isinstance(v.slice, ast.Constant) and len(v.value.args) == 1:
            return "_extract_ids(%s)[%r]" % (norm_plain(v.value.args[0]), v.slice.value)
        return e.id

    def chain_x(n, e):
        """Difference chain whose subtrahends are shown by their _extract_ids origin."""
        b, m = sl.chain(n, e)
        # subtrahend origins were computed by Flow.origin: '_extract_ids(_calculate_mappings(..))[i]'; map the
        # inner call back to the phase's variable
        out = set()
        for o in m:
            for (pn, pc, pt) in phases:
                inner = sl.origin(pn, pn.ast.value)
                o = o.replace(inner, pt)
            out.add(o)
        return b, frozenset(out)

    # ------------------------------------------------------------------ 3
    with ctx.rule("C07.3", "R3", "read-only exclusion: read-only servers take part only in phase 1 with the shares they "
                  "hold; homeless distribution and the round-robin see writable servers only; PeerSelector keeps the "
                  "two sets disjoint and passes them in order", expected=11) as r:
        need_phases()
        (n1, c1, t1), (n2, c2, t2), (n3, c3, t3) = phases
        # phase 1 arguments
        r.site(sp, c1, "phase 1 (read-only servers)")
        a = list(c1.args) + [None] * 3
        sm1 = kwarg(c1, "servermap") or a[2]
        r.require(a[0] is not None and sl.chain(n1, a[0]) == (RO, frozenset()), sp, sp.loc(c1),
                  "phase 1 must match exactly the read-only servers (%s); got %s" % (RO, src(sp, a[0])))
        ro_map = sm1.id if isinstance(sm1, ast.Name) else None
        ro_sh = a[1].id if isinstance(a[1], ast.Name) else None
        if not r.require(ro_map is not None and ro_sh is not None and bool(creators_of(scfg, sl.rd, n1, ro_map))
                         and bool(creators_of(scfg, sl.rd, n1, ro_sh)), sp, sp.loc(c1),
                         "phase 1 is not given a servermap/share set built locally from the read-only servers' shares"):
            ro_map = ro_sh = None
        if ro_map:
            fills = [(n, key, val) for n in scfg.stmt_nodes() for (_k, key, val) in container_stores(n, ro_map)]
            adds = [(n, key, val) for n in scfg.stmt_nodes() for (_k, key, val) in container_stores(n, ro_sh)]
            if not fills or not adds:
                raise AnchorVanished("share_placement: filling of %s / %s" % (ro_map, ro_sh))
            for (n, key, val) in fills:
                r.site(sp, n.ast, "read-only servermap entry")
                loops = enclosing_for(sp, n.ast)
                pv = loops[0].target.id if loops and isinstance(loops[0].target, ast.Name) else None
                okf = pv is not None and key is not None and norm_plain(key) == pv \
                    and norm_plain(unwrap(val)) == "%s[%s]" % (P2S, pv)
                r.require(okf, sp, sp.loc(n.ast), "read-only servermap entry %s -> %s is not peer -> %s[peer]" % (
                    src(sp, key), src(sp, val), P2S))
                if pv:
                    for (t, w) in find_path_avoiding(
                            scfg, lambda x, _n=n: x is _n,
                            gate_edge=fact_gate(None, lambda op, l, rr, _p=pv: (op, l, rr) == ("in", _p, RO)),
                            kill=lambda x, _p=pv: x.kind == "iter" and _p in node_stores(x)):
                        r.violation(sp, sp.loc(t.ast), "a server enters the read-only servermap without `%s in %s`" % (pv, RO), w)
            for (n, key, val) in adds:
                r.site(sp, n.ast, "read-only share")
                loops = enclosing_for(sp, n.ast)
                pv = loops[0].target.id if loops and isinstance(loops[0].target, ast.Name) else None
                okf = len(loops) == 2 and pv is not None and norm_plain(val) == norm_plain(loops[1].target) \
                    and norm_plain(unwrap(loops[1].iter)) == "%s[%s]" % (P2S, pv)
                r.require(okf, sp, sp.loc(n.ast), "phase-1 share set is not filled from %s[peer]" % P2S)
                if pv:
                    for (t, w) in find_path_avoiding(
                            scfg, lambda x, _n=n: x is _n,
                            gate_edge=fact_gate(None, lambda op, l, rr, _p=pv: (op, l, rr) == ("in", _p, RO)),
                            kill=lambda x, _p=pv: x.kind == "iter" and _p in node_stores(x)):
                        r.violation(sp, sp.loc(t.ast), "a writable server's share enters the phase-1 share set", w)
        # phases 2/3: peers argument rooted at the writable set, never containing RO
        for (k, (n, c, t)) in ((2, phases[1]), (3, phases[2])):
            r.site(sp, c, "phase %d peers" % k)
            a0 = arg(c, 0, "peers")
            b, m = chain_x(n, a0) if a0 is not None else ("?", frozenset())
            r.require(b == P, sp, sp.loc(c), "phase %d matches the server set %s; it must be derived from the writable "
                      "servers `%s` by removing servers only" % (k, b, P))
        # homeless distribution
        dh = [n for n in scfg.nodes if calls_at(n, "_distribute_homeless_shares")]
        if len(dh) != 1:
            raise AnchorVanished("share_placement: _distribute_homeless_shares call")
        cdh = calls_at(dh[0], "_distribute_homeless_shares")[0]
        r.site(sp, cdh, "homeless distribution servermap")
        a2 = arg(cdh, 2, "peers_to_shares")
        a2 = sl.unique_def(dh[0], a2.id)[1] if isinstance(a2, ast.Name) else a2
        okd = False
        if isinstance(a2, ast.DictComp) and len(a2.generators) == 1:
            gen = a2.generators[0]
            base_e, view = unwrap_view(gen.iter)
            if view == "items" and norm_plain(base_e) == P2S and isinstance(gen.target, ast.Tuple) and len(gen.target.elts) == 2:
                kx, vx = [norm_plain(e) for e in gen.target.elts]
                guards = {Normaliser(Env(None, depth=0)).cmp(i, True) for i in gen.ifs}
                okd = norm_plain(a2.key) == kx and norm_plain(unwrap(a2.value)) == vx and ("not in", kx, RO) in guards
        r.require(okd, sp, sp.loc(cdh), "_distribute_homeless_shares must get {k: v for k, v in %s.items() if k not in %s}; "
                  "got %s" % (P2S, RO, src(sp, a2)))
        # round robin
        rets = [n for n in scfg.find(is_return) if isinstance(n.ast.value, ast.DictComp)]
        if len(rets) != 1:
            raise AnchorVanished("share_placement: final dict comprehension")
        nexts = [x for x in own_nodes(rets[0].ast.value) if isinstance(x, ast.Call) and call_tail(x) == "next"]
        r.site(sp, rets[0].ast, "round-robin source")
        okr = False
        if len(nexts) == 1 and nexts[0].args and isinstance(nexts[0].args[0], ast.Name):
            dn, v = sl.unique_def(rets[0], nexts[0].args[0].id)
            if isinstance(v, ast.Call) and isinstance(v.func, ast.Name) and v.func.id in sp.nested and len(v.args) == 1:
                gen_fn = sp.nested[v.func.id]
                gp = first_positional_params(gen_fn)[0]
                ys = [x for x in func_own_nodes(gen_fn) if isinstance(x, ast.Yield)]
                fl_ = [x for x in func_own_nodes(gen_fn) if isinstance(x, ast.For)]
                gen_ok = len(ys) == 1 and len(fl_) == 1 and norm_plain(unwrap(fl_[0].iter)) == gp \
                    and ys[0].value is not None and norm_plain(ys[0].value) == norm_plain(fl_[0].target)
                b, m = sl.chain(dn, v.args[0])
                okr = gen_ok and b == P and RO in m
                if gen_ok and not okr:
                    r.violation(sp, sp.loc(v), "the round-robin for don't-care shares draws from %s; it must draw from "
                                "%s - %s" % (src(sp, v.args[0]), P, RO))
                    okr = True
        r.require(okr, sp, sp.loc(rets[0].ast), "don't-care shares are not taken from a round-robin over %s - %s" % (P, RO))
        # _distribute_homeless_shares places only on keys of its servermap
        dfn = idx.func(HU + ":_distribute_homeless_shares")
        DM, DH, DP = first_positional_params(dfn)[:3]
        dcfg = dfn.cfg()
        dst = [(n, key, val) for n in dcfg.stmt_nodes() for (_k, key, val) in container_stores(n, DM)]
        if len(dst) < 2:
            raise AnchorVanished("_distribute_homeless_shares: stores into %s" % DM)
        dfl = Flow(dfn)
        for (n, key, val) in dst:
            r.site(dfn, n.ast, "homeless placement")
            dep = _closure(dfn, dfl, n, val)
            r.require(DP in dep, dfn, dfn.loc(n.ast),
                      "a homeless share is placed on %s, which is not drawn from the keys of %s" % (src(dfn, val), DP))
            loops = [l for l in enclosing_for(dfn, n.ast) if norm_plain(unwrap_view(l.iter)[0]) == DP]
            if loops:
                pv = norm_plain(loops[-1].target)
                kx = norm_plain(key)
                for (t, w) in find_path_avoiding(
                        dcfg, lambda x, _n=n: x is _n,
                        gate_edge=fact_gate(None, lambda op, l, rr: (op, l, rr) == ("in", kx, "%s[%s]" % (DP, pv))),
                        kill=lambda x, _h=iter_node(dcfg, loops[-1]): x is _h):
                    r.violation(dfn, dfn.loc(t.ast), "a lease is 'renewed' on server %s without checking that it holds "
                                "share %s" % (pv, kx), w)
        # PeerSelector
        ps = idx.cls(UP + ":PeerSelector")
        mr = idx.func(UP + ":PeerSelector.mark_readonly_peer")
        pid = first_positional_params(mr)[0]
        mrn = N(mr)
        adds = [c for c in calls_in_func(mr, "add") if mrn.norm(c.func) == "self.readonly_peers.add"
                and [mrn.norm(a) for a in c.args] == [pid]]
        rems = [c for c in list(calls_in_func(mr, "remove")) + list(calls_in_func(mr, "discard"))
                if mrn.norm(c.func) in ("self.peers.remove", "self.peers.discard") and [mrn.norm(a) for a in c.args] == [pid]]
        r.site(mr, None, "mark_readonly_peer")
        r.require(bool(adds) and bool(rems), mr, mr.loc(), "mark_readonly_peer must add the server to readonly_peers and "
                  "remove it from peers (a read-only server left in the writable set gets new shares)")
        gp_ = idx.func(UP + ":PeerSelector.get_share_placements")
        cs = calls_in_func(gp_, "share_placement")
        if len(cs) != 1:
            raise AnchorVanished("get_share_placements: share_placement call")
        r.site(gp_, cs[0], "share_placement call")
        gl = Flow(gp_)
        gn = gl.node_of(cs[0])
        args = [gl.origin(gn, a) for a in cs[0].args]
        r.require(args == ["self.peers", "self.readonly_peers", "set(range(self.total_shares))", "self.existing_shares"]
                  and not cs[0].keywords, gp_, gp_.loc(cs[0]),
                  "share_placement is called with (%s); expected (self.peers, self.readonly_peers, "
                  "set(range(self.total_shares)), self.existing_shares)" % ", ".join(args))

    # ------------------------------------------------------------------ 4
    with ctx.rule("C07.4", "R3", "completeness and phase algebra of share_placement: result over every key of the merge "
                  "readonly+existing+new, empty values replaced, phase 2/3 shares = shares - used [- existing], ids from "
                  "_extract_ids of the previous phase", expected=7) as r:
        need_phases()
        (n1, c1, t1), (n2, c2, t2), (n3, c3, t3) = phases
        rets = [n for n in scfg.find(is_return) if isinstance(n.ast.value, ast.DictComp)]
        if len(rets) != 1:
            raise AnchorVanished("share_placement: final dict comprehension")
        dc = rets[0].ast.value
        r.site(sp, dc, "result comprehension")
        merged = None
        okc = False
        if len(dc.generators) == 1 and not dc.generators[0].ifs:
            gen = dc.generators[0]
            base_e, view = unwrap_view(gen.iter)
            if view == "items" and isinstance(base_e, ast.Name) and isinstance(gen.target, ast.Tuple) and len(gen.target.elts) == 2:
                merged = base_e.id
                kx, vx = [norm_plain(e) for e in gen.target.elts]
                v = dc.value
                okc = norm_plain(dc.key) == kx and isinstance(v, ast.IfExp) and norm_plain(v.test) == vx \
                    and norm_plain(v.body) in ("%s.pop()" % vx, "next(iter(%s))" % vx) \
                    and isinstance(v.orelse, ast.Call) and call_tail(v.orelse) == "next"
        r.require(okc, sp, sp.loc(dc), "the result must be {k: v.pop() if v else next(<round robin>) for k, v in "
                  "mappings.items()} - every share keeps a key and every empty/None value is replaced; got %s" % src(sp, dc))
        # merge order
        if merged:
            dn, v = sl.unique_def(rets[0], merged)
            r.site(sp, v, "merge of the three phases")
            parts = []

            def flat(e):
                if isinstance(e, ast.BinOp) and isinstance(e.op, ast.Add):
                    flat(e.left)
                    flat(e.right)
                else:
                    b, view = unwrap_view(e)
                    parts.append(b.id if (view == "items" and isinstance(b, ast.Name)) else "?")
            if isinstance(v, ast.Call) and call_tail(v) == "dict" and len(v.args) == 1:
                flat(v.args[0])
            elif isinstance(v, ast.Dict) and all(k is None for k in v.keys):
                parts = [x.id if isinstance(x, ast.Name) else "?" for x in v.values]
            r.require(parts == [t1, t2, t3], sp, sp.loc(v) if v is not None else sp.loc(),
                      "the phases are merged as %s; expected %s then %s then %s (a later phase's placement must override "
                      "the None an earlier phase left for the same share)" % (parts, t1, t2, t3))
        # phase share arguments
        for (k, (n, c, t), want) in ((2, phases[1], {ids_of(t1, 1)}), (3, phases[2], {ids_of(t1, 1), ids_of(t2, 1)})):
            r.site(sp, c, "phase %d shares" % k)
            a1 = arg(c, 1, "shares")
            b, m = chain_x(n, a1) if a1 is not None else ("?", frozenset())
            r.require(b == SH and set(m) == want, sp, sp.loc(c),
                      "phase %d matches the shares %s - {%s}; expected %s - {%s}" % (
                          k, b, ", ".join(sorted(m)), SH, ", ".join(sorted(want))))
        # phase 3 peers lose exactly the matched servers; phase 2 the read-only-matched ones
        for (k, (n, c, t), want) in ((2, phases[1], {ids_of(t1, 0)}), (3, phases[2], {ids_of(t1, 0), ids_of(t2, 0)})):
            a0 = arg(c, 0, "peers")
            b, m = chain_x(n, a0) if a0 is not None else ("?", frozenset())
            r.require(want <= set(m) if k == 3 else set(m) <= want, sp, sp.loc(c),
                      "phase %d servers are %s - {%s}; expected the subtrahends {%s}" % (
                          k, b, ", ".join(sorted(m)), ", ".join(sorted(want))))
        # phase 2 servermap is the existing-share map
        r.site(sp, c2, "phase 2 servermap")
        sm2 = kwarg(c2, "servermap") or arg(c2, 2)
        o = sl.origin(n2, sm2) if sm2 is not None else "None"
        r.require(o in ("%s.copy()" % P2S, "dict(%s)" % P2S, P2S), sp, sp.loc(c2),
                  "phase 2 must preserve existing allocations: servermap argument is %s, expected a copy of %s" % (o, P2S))
        r.require(kwarg(c3, "servermap") is None and len(c3.args) == 2, sp, sp.loc(c3),
                  "phase 3 places new shares on any remaining writable server and takes no servermap")
        # homeless set
        dh = [n for n in scfg.nodes if calls_at(n, "_distribute_homeless_shares")]
        if len(dh) != 1:
            raise AnchorVanished("share_placement: _distribute_homeless_shares call")
        cdh = calls_at(dh[0], "_distribute_homeless_shares")[0]
        r.site(sp, cdh, "homeless set")
        hs = arg(cdh, 1, "homeless_shares")
        okh = merged is not None and norm_plain(arg(cdh, 0, "mappings")) == merged and isinstance(hs, ast.Name)
        if okh:
            hadds = [(n, val) for n in scfg.stmt_nodes() for (_k, _key, val) in container_stores(n, hs.id)]
            okh = len(hadds) == 1
            if okh:
                hn, hv = hadds[0]
                loops = enclosing_for(sp, hn.ast)
                okh = len(loops) == 1 and norm_plain(unwrap_view(loops[0].iter)[0]) == merged \
                    and norm_plain(hv) == norm_plain(loops[0].target)
                kvn = norm_plain(loops[0].target) if loops else "?"
                # every None-valued key is added: an iteration may skip the add only past `mappings[k] is not None`
                if loops:
                    head = iter_node(scfg, loops[0])
                    mk = "%s[%s]" % (merged, kvn)

                    def not_none_edge(op, l, rr, _mk=mk):
                        return (op in ("is not", "!=") and {l, rr} == {"None", _mk}) or (op == "truth" and l == _mk)
                    w = body_skips(scfg, head, lambda x: x is hn, gate_edge=fact_gate(None, not_none_edge))
                    if w:
                        r.violation(sp, sp.loc(hn.ast), "a share whose mapping is None can be left out of the homeless set",
                                    ["L%d %r" % (scfg.nodes[i_].lineno, scfg.nodes[i_]) for i_ in w])
                    for (t, w2) in find_path_avoiding(
                            scfg, lambda x: x is hn,
                            gate_edge=fact_gate(None, lambda op, l, rr, _mk=mk: (op in ("is", "==") and {l, rr} == {"None", _mk})
                                                or (op == "false" and l == _mk)),
                            kill=lambda x: x is head):
                        r.violation(sp, sp.loc(t.ast), "a share that already has a server is declared homeless", w2)
        r.require(okh, sp, sp.loc(cdh), "_distribute_homeless_shares must get the merged mappings and the set of its "
                  "None-valued keys")
        # _extract_ids
        ex = idx.func(HU + ":_extract_ids")
        EM = first_positional_params(ex)[0]
        r.site(ex, None, "_extract_ids")
        ert = [n for n in ex.cfg().find(is_return) if isinstance(n.ast.value, ast.Tuple) and len(n.ast.value.elts) == 2
               and all(isinstance(e, ast.Name) for e in n.ast.value.elts)]
        if len(ert) != 1:
            raise AnchorVanished("_extract_ids returns (peers, shares)")
        pe, she = [e.id for e in ert[0].ast.value.elts]
        ecfg = ex.cfg()
        sadd = [(n, v) for n in ecfg.stmt_nodes() for (_k, _key, v) in container_stores(n, she)]
        padd = [(n, v) for n in ecfg.stmt_nodes() for (_k, _key, v) in container_stores(n, pe)]
        oke = len(sadd) == 1 and len(padd) == 1
        if oke:
            l1 = enclosing_for(ex, sadd[0][0].ast)
            l2 = enclosing_for(ex, padd[0][0].ast)
            oke = len(l1) == 1 and norm_plain(unwrap_view(l1[0].iter)[0]) == EM and norm_plain(sadd[0][1]) == norm_plain(l1[0].target) \
                and len(l2) == 2 and norm_plain(padd[0][1]) == norm_plain(l2[1].target) \
                and norm_plain(l2[1].iter) == "%s[%s]" % (EM, norm_plain(l1[0].target))
            kvn = norm_plain(l1[0].target) if l1 else "?"
            # matched (non-None) entries always reach the share add; None entries never do
            if l1:
                mk = "%s[%s]" % (EM, kvn)

                def is_none(op, l, rr):
                    return (op in ("==", "is") and {l, rr} == {"None", mk}) or (op == "false" and l == mk)

                def not_none(op, l, rr):
                    return (op in ("!=", "is not") and {l, rr} == {"None", mk}) or (op == "truth" and l == mk)
                h1 = iter_node(ecfg, l1[0])
                for (t, w) in find_path_avoiding(ecfg, lambda x: x is sadd[0][0] or x is padd[0][0],
                                                 gate_edge=fact_gate(None, not_none), kill=lambda x: x is h1):
                    r.violation(ex, ex.loc(t.ast), "_extract_ids counts an unmatched (None) share as used", w)
                w = body_skips(ecfg, h1, lambda x: x is sadd[0][0], gate_edge=fact_gate(None, is_none))
                if w:
                    r.violation(ex, ex.loc(sadd[0][0].ast), "_extract_ids can skip a matched share",
                                ["L%d %r" % (ecfg.nodes[i_].lineno, ecfg.nodes[i_]) for i_ in w])
        r.require(oke, ex, ex.loc(), "_extract_ids must return (servers, shares) of the entries whose value is not None")
        # callers unpack in this order
        for (k, tgt) in ((1, t1), (2, t2)):
            ok = False
            for x in func_own_nodes(sp):
                if isinstance(x, ast.Assign) and isinstance(x.value, ast.Call) and call_tail(x.value) == "_extract_ids" \
                        and [norm_plain(a) for a in x.value.args] == [tgt]:
                    ok = True
            r.require(ok, sp, sp.loc(), "the ids matched in phase %d are not extracted from %s" % (k, tgt))

    # ------------------------------------------------------------------ 5
    with ctx.rule("C07.5", "R3", "spread: every writable server that phases 1/2 left unmatched is a candidate of phase 3 - "
                  "the candidate set loses servers only by subtracting the matched ids", expected=1) as r:
        need_phases()
        flagged = set()
        # (a removal that only affects phase 2 is harmless: a server without remaining existing shares is an isolated
        # vertex of the phase-2 graph)
        for (k, (n, c, t)) in ((3, phases[2]),):
            a0 = arg(c, 0, "peers")
            r.site(sp, c, "phase %d candidate servers" % k)
            # every name on the definition chain of the argument
            seen = []
            e, at = a0, n
            depth = 0
            while depth < 8:
                depth += 1
                e = unwrap(e, tails=("set", "frozenset"))
                while isinstance(e, ast.BinOp) and isinstance(e.op, ast.Sub):
                    e = unwrap(e.left, tails=("set", "frozenset"))
                if not isinstance(e, ast.Name):
                    break
                dn, v = sl.unique_def(at, e.id)
                if v is None:
                    break
                seen.append((e.id, dn, at))
                e, at = v, dn
            for (nm, dn, use) in seen:
                for m in scfg.stmt_nodes():
                    if not (reach_from(scfg, dn, m) and reach_from(scfg, m, use)):
                        continue
                    for x in [y for ee in node_exprs(m) for y in own_nodes(ee)]:
                        if isinstance(x, ast.Call) and isinstance(x.func, ast.Attribute) and isinstance(x.func.value, ast.Name) \
                                and x.func.value.id == nm and x.func.attr in (
                                    "remove", "discard", "pop", "clear", "difference_update", "intersection_update") \
                                and id(x) not in flagged:
                            flagged.add(id(x))
                            # construct = the removal call inside the function, so that another removal is a new finding
                            r.violation("%s.%s" % (sp.qual, src(sp, x.func)), sp.loc(m.ast), "writable server removed from the candidate set `%s` by %s before "
                                        "phase %d: a server whose existing shares were all matched elsewhere can no longer "
                                        "receive new shares, so the spread is not maximal" % (nm, src(sp, x), k))
                        if isinstance(x, ast.Call) and isinstance(x.func, ast.Attribute) and isinstance(x.func.value, ast.Name) \
                                and x.func.value.id == nm and x.func.attr in ("add", "update") and id(x) not in flagged:
                            flagged.add(id(x))
                            r.violation(sp, sp.loc(m.ast), "server added to the candidate set `%s` by %s" % (nm, src(sp, x)))


    # ------------------------------------------------------------------ 6
    with ctx.rule("C07.6", "R5", "the matching that becomes the placement is augmented skew-symmetrically: for each edge "
                  "(u, v) of the augmenting path _compute_maximum_graph does flow[u][v] += d and flow[v][u] -= d, in every "
                  "iteration, with d = the bottleneck of that path; flow matrix rows are distinct, len(graph) wide, zero",
                  expected=4) as r:
        ek_update_rule(r, idx.func(MAXG), "placement matching")

    # ------------------------------------------------------------------ 7
    with ctx.rule("C07.7", "R2", "residual freshness of the placement matching: after a store into the flow table the pair "
                  "(residual_graph, residual_function) is recomputed from (graph, flow) before it is read again (loop "
                  "test, path search, delta, read-back); test and search use that graph; results only after the test "
                  "failed; the read-back reads that residual graph", expected=4) as r:
        mg = idx.func(MAXG)
        G, SI = first_positional_params(mg)[:2]

        def empty_ok(o, n, lab, _G=G, _S=SI):
            """`return {}` is allowed when the graph (or the list of share indices to read back) is empty:
            `graph == []` / `not graph` / `len(graph) == 0`, same for the share indices."""
            v = o.ast.value
            if not ((isinstance(v, ast.Dict) and not v.keys) or (isinstance(v, ast.Call) and call_name(v) == "dict"
                                                                  and not v.args and not v.keywords)):
                return False
            f = fact_on_edge(Normaliser(Env(None, depth=0)), n, lab)
            if not f:
                return False
            op, l, rr = f
            return any((op == "false" and l == x) or (op == "==" and {l, rr} in ({"[]", x}, {"0", "len(%s)" % x}))
                       for x in (_G, _S))
        ek = ek_freshness_rule(r, mg, "placement matching", net_param=G, empty_result_ok=empty_ok)
        # the read-back decides matched / unmatched from the residual graph (not from the flow network)
        mnorm = FlowNorm(mg)
        mcfg = mg.cfg()
        out = returned_name(mg)
        mloops = loops_over(mg, SI)
        if len(mloops) != 1 or not isinstance(mloops[0].target, ast.Name):
            raise AnchorVanished("_compute_maximum_graph: loop over %s" % SI)
        sv = mloops[0].target.id
        mhead = iter_node(mcfg, mloops[0])
        r.site(mg, mloops[0], "read-back loop")
        mst = [(n, key, val) for n in mcfg.stmt_nodes() for (_k, key, val) in container_stores(n, out)
               if n.kind == "stmt" and mloops[0] in enclosing_for(mg, n.ast)]
        if not mst:
            raise AnchorVanished("_compute_maximum_graph: read-back stores into %s" % out)
        want_row = "%s[%s]" % (ek.rg, sv)
        for (n, key, val) in mst:
            is_none = isinstance(val, ast.Constant) and val.value is None
            # (when one recomputation reaches the read-back, FlowNorm shows it instead of the name)
            rows = {want_row, mnorm.norm(n, parse_expr(want_row))}
            if not is_none:
                vn = mnorm.norm(n, val)
                r.require(vn in {x + "[0]" for x in rows}, mg, mg.loc(n.ast), "the server of share %s is read as %s; expected "
                          "%s[0] - the reversed (saturated) edge of the residual graph" % (sv, vn, want_row))

            def row_fact(op, l, rr, _eq=is_none, _rows=rows):
                return op == ("==" if _eq else "!=") and (l in _rows or rr in _rows)
            bad = find_path_avoiding(mcfg, lambda x, _n=n: x is _n, gate_edge=fact_gate(mnorm, row_fact),
                                     kill=lambda x: x is mhead)
            r.count(len(mcfg.nodes))
            for (t, w2) in bad:
                r.violation(mg, mg.loc(t.ast), "share %s is %s without a comparison of its residual row %s (a table other than "
                            "the residual graph does not show which edges carry flow)" % (
                                sv, "declared unmatched" if is_none else "read as matched", want_row), w2)

    # ------------------------------------------------------------------ 8
    with ctx.rule("C07.8", "R5", "helpers the placement matching runs on: augmenting_path_for searches from vertex 0 to "
                  "len(graph) - 1 and rebuilds the path from the BFS predecessors; residual_network reverses exactly the "
                  "saturated edges with capacity 1 and distinct rows; bfs enqueues a vertex only when WHITE, after "
                  "colouring it and recording its predecessor", expected=8) as r:
        ek_helpers_rule(r, idx)

    # ------------------------------------------------------------------ 9
    with ctx.rule("C07.9", "R3", "early exits: share_placement returns anything other than the full result only when there "
                  "is no writable server; _servermap_flow_graph returns anything other than the graph it built only "
                  "for an empty servermap / share set / server set", expected=2) as r:
        sp_P = first_positional_params(sp)[0]
        r.site(sp, None, "early exits of share_placement")
        finals = [n for n in scfg.find(is_return) if isinstance(n.ast.value, ast.DictComp)]
        if len(finals) != 1:
            raise AnchorVanished("share_placement: final dict comprehension")
        for o in scfg.find(is_return):
            if o is finals[0]:
                continue
            for (t, w) in find_path_avoiding(scfg, lambda x, _o=o: x is _o,
                                             gate_edge=fact_gate(None, lambda op, l, rr: empty_fact(op, l, rr, (sp_P,)))):
                r.violation(sp, sp.loc(t.ast), "share_placement returns %s without having found `%s` empty: with at least one "
                            "writable server every share number must get a server" % (src(sp, t.ast.value) if t.ast.value
                                                                                      is not None else "None", sp_P), w)
        fg = idx.func(HU + ":_servermap_flow_graph")
        r.site(fg, None, "early exits of _servermap_flow_graph")
        fg_params = tuple(first_positional_params(fg)[:3])
        gname = returned_name(fg)
        fgcfg = fg.cfg()
        for o in fgcfg.find(is_return):
            if isinstance(o.ast.value, ast.Name) and o.ast.value.id == gname:
                continue
            for (t, w) in find_path_avoiding(fgcfg, lambda x, _o=o: x is _o,
                                             gate_edge=fact_gate(None, lambda op, l, rr: empty_fact(op, l, rr, fg_params))):
                r.violation(fg, fg.loc(t.ast), "_servermap_flow_graph returns %s instead of the graph although none of %s was "
                            "found empty: the phase matches nothing, so shares held by read-only servers are placed again "
                            "on writable servers and the spread is not maximal" % (
                                src(fg, t.ast.value) if t.ast.value is not None else "None", ", ".join(fg_params)), w)

    # ----------------------------------------------------------------- 10
    with ctx.rule("C07.10", "R3", "homeless distribution: a homeless share goes to the server component of an item taken "
                  "from the priority queue (or to a key of the writable servermap that holds it); queue items carry keys "
                  "of the writable servermap only; priority counters are touched only for such keys; every item taken "
                  "is put back; the queue is read only after its source was found non-empty", expected=7) as r:
        dfn = idx.func(HU + ":_distribute_homeless_shares")
        DM, DH, DP = first_positional_params(dfn)[:3]
        dcfg = dfn.cfg()
        dfl = Flow(dfn)
        gets = [(n, c) for n in dcfg.stmt_nodes() for c in node_calls(n)
                if call_tail(c) in ("get", "get_nowait") and isinstance(c.func, ast.Attribute)
                and isinstance(c.func.value, ast.Name) and not c.args]
        qnames = {c.func.value.id for (_n, c) in gets}
        if len(qnames) != 1:
            raise AnchorVanished("_distribute_homeless_shares: one queue that servers are taken from (.get())")
        Q = qnames.pop()
        taken = "%s.get()[1]" % Q
        puts = [(n, c) for n in dcfg.stmt_nodes() for c in node_calls(n)
                if call_name(c) in (Q + ".put", Q + ".put_nowait") and len(c.args) >= 1]

        def is_put(n):
            return any(n is p for (p, _c) in puts)
        # names holding only keys of the writable servermap
        cand = {DP}
        for n in dcfg.stmt_nodes():
            if n.kind == "stmt" and isinstance(n.ast, ast.Assign) and len(n.ast.targets) == 1 \
                    and isinstance(n.ast.targets[0], ast.Name) and keys_of(dfl, n, n.ast.value, DP):
                nm_ = n.ast.targets[0].id
                if not has_adders(dfn, nm_) and len([m for m in dcfg.stmt_nodes() if nm_ in node_stores(m)]) == 1:
                    cand.add(nm_)

        def over_keys(head, it):
            return keys_of(dfl, head, it, DP)
        # (a) queue items
        PRs = set()
        initial = []
        for (n, c) in puts:
            r.site(dfn, c, "queue item")
            item = c.args[0]
            okp = isinstance(item, ast.Tuple) and len(item.elts) == 2
            comp = item.elts[1] if okp else None
            how = None
            if okp:
                if dfl.origin(n, comp) == taken:
                    how = "back"
                else:
                    found = []

                    def over_pr(head, it, _f=found):
                        it = unwrap(it)
                        if isinstance(it, ast.Name) and not keys_of(dfl, head, it, DP):
                            _f.append(it.id)
                            return True
                        return keys_of(dfl, head, it, DP)
                    if loop_key(dfn, dfl, n, comp, over_pr):
                        how = "initial"
                        PRs.update(found)
                        initial.append(n)
            r.require(how is not None, dfn, dfn.loc(c), "the queue item %s does not carry (count, server) with the server being "
                      "a candidate of the priority table or the server just taken from the queue" % src(dfn, item))
        r.require(bool(initial), dfn, dfn.loc(), "the queue %s is never filled from the candidate servers: %s.get() blocks "
                  "forever as soon as one homeless share is to be distributed" % (Q, Q))
        # (b) the priority table: keys are candidate servers only
        for PR in sorted(PRs):
            dn, v = dfl.unique_def(initial[0], PR)
            okc = v is not None and ((isinstance(v, ast.Dict) and not v.keys) or
                                     (isinstance(v, ast.Call) and call_name(v) in ("dict", "defaultdict", "Counter") and not v.args))
            if isinstance(v, ast.DictComp) and len(v.generators) == 1 and isinstance(v.key, ast.Name) \
                    and isinstance(v.generators[0].target, ast.Name) and v.generators[0].target.id == v.key.id:
                okc = keys_of(dfl, dn, v.generators[0].iter, DP)
            if isinstance(v, ast.Call) and call_name(v) == "dict.fromkeys" and v.args:
                okc = keys_of(dfl, dn, v.args[0], DP)
            if v is not None and not (isinstance(v, ast.Dict) or (isinstance(v, ast.Call) and not v.args)):
                r.site(dfn, v, "priority entry (initial keys)")
            r.require(okc, dfn, dfn.loc(v) if v is not None else dfn.loc(),
                      "the priority table %s does not start empty or with the keys of %s" % (PR, DP))
            touched = []
            for n in dcfg.stmt_nodes():
                for (_k, key, _val) in container_stores(n, PR):
                    if key is not None:
                        touched.append((n, key))
                if n.kind == "stmt" and isinstance(n.ast, ast.AugAssign) and isinstance(n.ast.target, ast.Subscript) \
                        and isinstance(n.ast.target.value, ast.Name) and n.ast.target.value.id == PR:
                    touched.append((n, n.ast.target.slice))
            if not touched and not isinstance(v, ast.DictComp):
                raise AnchorVanished("_distribute_homeless_shares: stores into the priority table %s" % PR)
            for (n, key) in touched:
                r.site(dfn, n.ast, "priority entry")
                if loop_key(dfn, dfl, n, key, over_keys):
                    continue
                kx = norm_plain(key)
                allowed = cand | {PR}
                bad = find_path_avoiding(
                    dcfg, lambda x, _n=n: x is _n,
                    gate_edge=fact_gate(None, lambda op, l, rr, _k=kx: op == "in" and l == _k and rr in allowed),
                    kill=lambda x, _k=kx: x.kind == "iter" and _k in node_stores(x))
                for (t, w) in bad:
                    r.violation(dfn, dfn.loc(t.ast), "priority entry %s[%s] is touched for a server that was not checked to be a "
                                "key of %s (a read-only server matched in phase 1 or a writable server without existing "
                                "shares raises KeyError / becomes a candidate for homeless shares)" % (PR, kx, DP), w)
        # (c) placements made from the queue
        dst2 = [(n, key, val) for n in dcfg.stmt_nodes() for (_k, key, val) in container_stores(n, DM)]
        if not dst2:
            raise AnchorVanished("_distribute_homeless_shares: stores into %s" % DM)
        for (n, key, val) in dst2:
            r.site(dfn, n.ast, "homeless placement server")
            els = set_elements(val)
            if not r.require(els is not None and len(els) == 1, dfn, dfn.loc(n.ast),
                             "a homeless share is mapped to %s, not to a set of one server" % src(dfn, val)):
                continue
            x = els[0]
            okx = dfl.origin(n, x) == taken or loop_key(dfn, dfl, n, x, over_keys) is not None
            r.require(okx, dfn, dfn.loc(n.ast), "a homeless share is placed on %s, which is neither the server component of the "
                      "item taken from %s in this iteration nor a key of %s" % (src(dfn, x), Q, DP))
        # (d) queue discipline
        allq = cand | PRs
        for (n, c) in gets:
            r.site(dfn, c, "queue get")
            enc = enclosing_for(dfn, n.ast) if n.kind == "stmt" else []
            if enc:
                head = iter_node(dcfg, enc[-1])
                for (s_, w) in find_path_from_to_avoiding(dcfg, lambda x, _n=n: x is _n, is_put, ends=lambda x, _h=head: x is _h):
                    r.violation(dfn, dfn.loc(n.ast), "the server taken from %s is not put back on every way through the iteration: "
                                "with more homeless shares than candidate servers the next %s.get() blocks forever" % (Q, Q), w)

            def filled(op, l, rr):
                return nonempty_fact(op, l, rr, allq) or (op == "false" and l == "%s.empty()" % Q) \
                    or (op == "truth" and l == "%s.qsize()" % Q)
            for (t, w) in find_path_avoiding(dcfg, lambda x, _n=n: x is _n, gate_edge=fact_gate(None, filled)):
                r.violation(dfn, dfn.loc(t.ast), "%s.get() can be reached without any of %s having been found non-empty: with no "
                            "candidate server the call blocks forever" % (Q, ", ".join(sorted(allq))), w)

    # ----------------------------------------------------------------- 11
    selm = {}
    with ctx.rule("C07.11", "R2", "the selector acts on the placement: get_share_placements returns the share_placement "
                  "result; get_shareholders recomputes it after every wait before _allocation_for reads it; "
                  "_allocation_for(tracker) returns exactly the shares placed on that tracker's server; every tracker "
                  "built for a writable server is asked for them unless it already holds exactly those; servers that "
                  "cannot take the share size are the ones marked read-only; the retry loop is left early only when "
                  "nothing changed", expected=6) as r:
        SEL = UP + ":Tahoe2ServerSelector"
        # (a) get_share_placements
        gp_ = idx.func(UP + ":PeerSelector.get_share_placements")
        gpcfg = gp_.cfg()
        cs = calls_in_func(gp_, "share_placement")
        if len(cs) != 1:
            raise AnchorVanished("get_share_placements: share_placement call")
        cn = Flow(gp_).node_of(cs[0])
        tgt = None
        if cn.kind == "stmt" and isinstance(cn.ast, ast.Assign) and len(cn.ast.targets) == 1 and cn.ast.value is cs[0]:
            tgt = attr_path(cn.ast.targets[0])
        grets = gpcfg.find(is_return)
        if not grets:
            raise AnchorVanished("get_share_placements: return")
        for o in grets:
            r.site(gp_, o.ast, "placement returned")
            v = o.ast.value
            if v is cs[0]:
                continue
            okr = v is not None and tgt is not None and attr_path(v) == tgt
            if r.require(okr, gp_, gp_.loc(o.ast), "get_share_placements returns %s, not the result of share_placement(..)" % (
                    src(gp_, v) if v is not None else "None")):
                for (t, w) in find_path_avoiding(gpcfg, lambda x, _o=o: x is _o, gate_node=lambda x: x is cn,
                                                 kill=lambda x: x is not cn and tgt in node_stores(x)):
                    r.violation(gp_, gp_.loc(t.ast), "%s is returned without holding the share_placement result" % tgt, w)
        # (b) _allocation_for
        af = idx.func(SEL + "._allocation_for")
        acfg = af.cfg()
        afl = Flow(af)
        TR = first_positional_params(af)[0]
        aret = returned_name(af)
        aadds = [(n, val) for n in acfg.stmt_nodes() for (_k, _key, val) in container_stores(n, aret)]
        if len(aadds) != 1:
            raise AnchorVanished("_allocation_for: one add into the returned set %s" % aret)
        an, aval = aadds[0]
        r.site(af, an.ast, "share asked of a tracker")
        aloops = enclosing_for(af, an.ast)
        PL = None
        okl = False
        if aloops:
            lp = aloops[-1]
            base, view = unwrap_view(lp.iter)
            if view == "items" and isinstance(lp.target, ast.Tuple) and len(lp.target.elts) == 2 \
                    and all(isinstance(e, ast.Name) for e in lp.target.elts):
                kv_, tv_ = [e.id for e in lp.target.elts]
                ahead = iter_node(acfg, lp)
                PL = afl.origin(ahead, base)
                okl = PL.startswith("self.") and "(" not in PL
        if not okl:
            raise AnchorVanished("_allocation_for: loop `for share, server in <self.placement>.items()` around the add")
        r.require(norm_plain(aval) == kv_, af, af.loc(an.ast), "_allocation_for adds %s, not the share number %s of the "
                  "placement entry" % (src(af, aval), kv_))
        anorm = FlowNorm(af)
        sid = "%s.get_serverid()" % TR

        def same_server(op, l, rr):
            return op == "==" and {l, rr} == {sid, tv_}

        def other_server(op, l, rr):
            return (op == "!=" and {l, rr} == {sid, tv_}) or (op in ("==", "is") and {l, rr} == {"None", tv_}) \
                or (op == "false" and l == tv_)
        for (t, w) in find_path_avoiding(acfg, lambda x: x is an, gate_edge=fact_gate(anorm, same_server),
                                         kill=lambda x: x is ahead):
            r.violation(af, af.loc(t.ast), "share %s is requested from a tracker without `%s == %s`: a server is asked for "
                        "shares the placement gave to another server" % (kv_, sid, tv_), w)
        w = body_skips(acfg, ahead, lambda x: x is an, gate_edge=fact_gate(anorm, other_server))
        if w:
            r.violation(af, af.loc(an.ast), "a share the placement gave to this tracker's server can be left out of the request "
                        "(it is then never uploaded and the upload is declared unhappy)",
                        ["L%d %r" % (acfg.nodes[i_].lineno, acfg.nodes[i_]) for i_ in w])
        for o in acfg.find(is_return):
            r.require(isinstance(o.ast.value, ast.Name) and o.ast.value.id == aret, af, af.loc(o.ast),
                      "_allocation_for returns %s, not the collected set" % (src(af, o.ast.value) if o.ast.value is not None else "None"))
        # (c) get_shareholders: fresh placement, every writable tracker asked
        gs = idx.func(SEL + ".get_shareholders")
        gcfg2 = gs.cfg()
        gsl = Flow(gs)
        pstores = [n for n in gcfg2.stmt_nodes() if n.kind == "stmt" and isinstance(n.ast, ast.Assign)
                   and [attr_path(t) for t in n.ast.targets] == [PL]]
        if not pstores:
            raise AnchorVanished("get_shareholders: store into %s" % PL)
        for n in pstores:
            r.site(gs, n.ast, "placement recomputed")
            r.require(gsl.origin(n, n.ast.value).endswith("get_share_placements()"), gs, gs.loc(n.ast),
                      "%s is set to %s, not to the peer selector's get_share_placements()" % (PL, src(gs, n.ast.value)))
        acalls = [n for n in gcfg2.nodes if calls_at(n, "_allocation_for")]
        if not acalls:
            raise AnchorVanished("get_shareholders: _allocation_for call")
        for (t, w) in find_path_avoiding(gcfg2, lambda x: any(x is y for y in acalls),
                                         gate_node=lambda x: any(x is y for y in pstores), kill=has_yield):
            r.violation(gs, gs.loc(t.ast), "_allocation_for reads a placement that was not recomputed since the last wait: servers "
                        "that failed or became read-only in the meantime keep their shares, which are never re-homed", w)
        qn = [(n, c) for n in gcfg2.nodes for c in node_calls(n) if call_tail(c) == "query"
              and isinstance(c.func, ast.Attribute) and isinstance(c.func.value, ast.Name)]
        if len(qn) != 1:
            raise AnchorVanished("get_shareholders: one <tracker>.query(..) call")
        qnode, qc = qn[0]
        r.site(gs, qc, "allocation query")
        tv = qc.func.value.id
        qloops = [l for l in (enclosing_for(gs, qnode.ast) if qnode.kind == "stmt" else [])
                  if isinstance(l.target, ast.Name) and l.target.id == tv]
        if not qloops:
            raise AnchorVanished("get_shareholders: loop over the trackers around the query")
        ql = qloops[-1]
        qhead = iter_node(gcfg2, ql)
        want_arg = "self._allocation_for(%s)" % tv
        a0 = qc.args[0] if qc.args else None
        got_arg = gsl.origin(qnode, a0) if a0 is not None else "nothing"
        r.require(got_arg == want_arg, gs, gs.loc(qc), "the tracker is asked for %s, expected %s" % (got_arg, want_arg))
        # which component of _create_trackers holds the trackers of writable servers
        ct = idx.func(SEL + "._create_trackers")
        ctl = Flow(ct)
        ctr = [n for n in ct.cfg().find(is_return) if isinstance(n.ast.value, ast.Tuple)
               and all(isinstance(e, ast.Name) for e in n.ast.value.elts)]
        if len(ctr) != 1:
            raise AnchorVanished("_create_trackers returns a tuple of tracker lists")
        srcs_ = []
        for e in ctr[0].ast.value.elts:
            _dn, v = ctl.unique_def(ctr[0], e.id)
            a_ = v.args[0] if isinstance(v, ast.Call) and len(v.args) == 1 else None
            srcs_.append(a_.id if isinstance(a_, ast.Name) else None)
        marked = set()
        mark_loops = []
        for l in [x for x in func_own_nodes(ct) if isinstance(x, ast.For)]:
            if any(isinstance(x, ast.Call) and call_tail(x) == "mark_readonly_peer" for st in l.body for x in ast.walk(st)):
                it = unwrap(l.iter)
                if isinstance(it, ast.Name):
                    marked.add(it.id)
                    mark_loops.append(l)
        windex = [i for (i, s_) in enumerate(srcs_) if s_ is not None and s_ not in marked]
        if None in srcs_ or not windex or not marked:
            raise AnchorVanished("_create_trackers: tracker lists built from the writable / read-only server collections")
        selm.update(gs=gs, gsl=gsl, cfg=gcfg2, pstores=pstores, ql=ql, windex=windex, ncomp=len(srcs_), SEL=SEL, qnode=qnode)
        it_e, it_at = unwrap(ql.iter), qhead
        for _ in range(4):
            if not isinstance(it_e, ast.Name):
                break
            dn_, v_ = gsl.unique_def(it_at, it_e.id)
            if v_ is None or not (isinstance(v_, ast.Name) or (isinstance(v_, ast.BinOp) and isinstance(v_.op, ast.BitOr))
                                  or (isinstance(v_, ast.Call) and call_tail(v_) in ("union", "set", "list", "tuple", "sorted"))):
                break
            it_e, it_at = unwrap(v_), dn_
        atoms = gsl.union_atoms(it_at, it_e)
        for i in windex:
            r.require(any(a.startswith("self._create_trackers(") and a.endswith("[%d]" % i) for a in atoms), gs, gs.loc(ql),
                      "the allocation loop runs over %s, which does not include the trackers of the writable servers "
                      "(component %d of _create_trackers)" % (src(gs, ql.iter), i))
        qargs = {norm_plain(a0)} if a0 is not None else set()

        def may_skip(op, l, rr):
            if empty_fact(op, l, rr, qargs):
                return True
            return op == "==" and any(x in qargs for x in (l, rr)) and any(("%s.buckets" % tv) in (x or "") for x in (l, rr))
        w = body_skips(gcfg2, qhead, lambda x: x is qnode, gate_edge=fact_gate(None, may_skip))
        if w:
            r.violation(gs, gs.loc(qc), "a tracker can be passed over although the shares placed on it differ from the buckets it "
                        "already has: the shares are never allocated",
                        ["L%d %r" % (gcfg2.nodes[i_].lineno, gcfg2.nodes[i_]) for i_ in w])
        # the retry loop is left early only when nothing changed (snapshot comparison), when its own condition fails,
        # or when a local collection is empty
        wloops = [x for x in func_own_nodes(gs) if isinstance(x, ast.While)
                  and any(y is p.ast for p in pstores for st in x.body for y in ast.walk(st))]
        if len(wloops) != 1:
            raise AnchorVanished("get_shareholders: the while loop that recomputes the placement")
        wl_ = wloops[0]
        r.site(gs, wl_, "placement retry loop")
        plainN2 = Normaliser(Env(None, depth=0))
        snaps = set()
        loop_locals = set()
        for st in wl_.body:
            for y in ast.walk(st):
                if isinstance(y, ast.Assign) and len(y.targets) == 1 and isinstance(y.targets[0], ast.Name):
                    snaps.add(frozenset([y.targets[0].id, norm_plain(y.value)]))
                    loop_locals.add(y.targets[0].id)
        exit_facts = set()
        for n in gcfg2.nodes:
            if n.kind == "test" and any(y is n.ast for y in ast.walk(wl_.test)):
                f = fact_on_edge(plainN2, n, ("F", n.ast))
                if f:
                    exit_facts.add(tuple(f))

        def may_leave(op, l, rr):
            return (op == "==" and frozenset([l, rr]) in snaps) or (op, l, rr) in exit_facts \
                or empty_fact(op, l, rr, loop_locals)

        def own_breaks(stmts):
            for st in stmts:
                if isinstance(st, ast.Break):
                    yield st
                elif isinstance(st, (ast.For, ast.While, ast.FunctionDef, ast.AsyncFunctionDef, ast.ClassDef)):
                    continue
                else:
                    for field in ("body", "orelse", "finalbody"):
                        sub = getattr(st, field, None)
                        if isinstance(sub, list) and sub and isinstance(sub[0], ast.stmt):
                            for b_ in own_breaks(sub):
                                yield b_
                    for h in getattr(st, "handlers", []) or []:
                        for b_ in own_breaks(h.body):
                            yield b_
        for b_ in own_breaks(wl_.body):
            bn = [n for n in gcfg2.nodes if n.ast is b_]
            if not bn:
                continue
            for (t, w) in find_path_avoiding(gcfg2, lambda x, _b=bn[0]: x is _b, gate_edge=fact_gate(None, may_leave),
                                             kill=lambda x: any(x is y for y in pstores)):
                r.violation(gs, gs.loc(t.ast), "the placement retry loop is left although neither a value saved earlier in the "
                            "round is unchanged nor the loop's own condition fails: after a round with rejected shares the "
                            "placement is not recomputed, so the upload is declared unhappy while servers are unused", w)
        # (d) _create_trackers: who is read-only
        r.site(ct, None, "read-only classification")
        cparams = first_positional_params(ct)
        plainN = Normaliser(Env(None, depth=0))
        for i in windex:
            wn = srcs_[i]
            _dn, wv = ctl.unique_def(ctr[0], wn)
            okw = False
            cands_ = None
            if isinstance(wv, ast.ListComp) and len(wv.generators) == 1 and isinstance(wv.generators[0].target, ast.Name) \
                    and isinstance(wv.elt, ast.Name) and wv.elt.id == wv.generators[0].target.id:
                g0 = wv.generators[0]
                cands_ = norm_plain(unwrap(g0.iter))
                facts = [plainN.cmp(i_, True) for i_ in g0.ifs]
                okw = cands_ in cparams and len(facts) == 1 and facts[0][0] == "<=" and facts[0][1] in cparams \
                    and re.match(r"^\w+\(%s\)$" % re.escape(g0.target.id), facts[0][2] or "") is not None
            r.require(okw, ct, ct.loc(wv) if wv is not None else ct.loc(),
                      "the writable servers are not [s for s in <candidates> if <size limit of s> >= <allocated size>]; got %s" % (
                          src(ct, wv) if wv is not None else wn))
            if not okw:
                continue
            adders = [l for l in func_own_nodes(ct) if isinstance(l, ast.For) and norm_plain(unwrap(l.iter)) == cands_
                      and isinstance(l.target, ast.Name)
                      and any(isinstance(x, ast.Call) and call_tail(x) == "add_peer"
                              and [norm_plain(a) for a in x.args] == ["%s.get_serverid()" % l.target.id]
                              for st in l.body for x in ast.walk(st))]
            r.require(bool(adders), ct, ct.loc(), "not every candidate server is made known to the peer selector "
                      "(add_peer(s.get_serverid()) for s in %s): the placement has no writable server to use" % cands_)
            for l in mark_loops:
                b, m = ctl.chain(iter_node(ct.cfg(), l), l.iter)
                r.require(b == cands_ and m == frozenset([wn]), ct, ct.loc(l),
                          "the servers marked read-only are %s, expected every candidate that is not writable (%s - %s)" % (
                              src(ct, l.iter), cands_, wn))
                lv = l.target.id if isinstance(l.target, ast.Name) else "?"
                mcs = [x for st in l.body for x in ast.walk(st) if isinstance(x, ast.Call) and call_tail(x) == "mark_readonly_peer"]
                r.require(all([norm_plain(a) for a in c_.args] == ["%s.get_serverid()" % lv] for c_ in mcs), ct, ct.loc(l),
                          "mark_readonly_peer is not given the id of the server being classified")

    # ----------------------------------------------------------------- 12
    with ctx.rule("C07.12", "R2", "a server that rejected its allocation leaves the next placement: the function the "
                  "allocation loop runs for a tracker whose answer showed no progress (it takes the tracker off the list "
                  "of writable trackers) also tells the peer selector (mark_readonly_peer / mark_bad_peer), or "
                  "_buckets_allocated does so on every way that does not report progress - otherwise the next "
                  "get_share_placements() has the same inputs and returns the same placement", expected=1) as r:
        if not selm:
            raise AnchorVanished("the allocation loop of get_shareholders was not identified (see C07.11)")
        gs, ql, windex, SEL = selm["gs"], selm["ql"], selm["windex"], selm["SEL"]
        # names of the writable tracker lists in get_shareholders
        wnames = set()
        for x in func_own_nodes(gs):
            if isinstance(x, ast.Assign) and isinstance(x.value, ast.Call) and call_tail(x.value) == "_create_trackers" \
                    and len(x.targets) == 1 and isinstance(x.targets[0], ast.Tuple):
                for i in windex:
                    if i < len(x.targets[0].elts) and isinstance(x.targets[0].elts[i], ast.Name):
                        wnames.add(x.targets[0].elts[i].id)
        if not wnames:
            raise AnchorVanished("get_shareholders: writable tracker list unpacked from _create_trackers")
        # callbacks registered on the Deferred of the allocation query
        qd = selm["qnode"].ast.targets[0].id if isinstance(selm["qnode"].ast, ast.Assign) and len(selm["qnode"].ast.targets) == 1 \
            and isinstance(selm["qnode"].ast.targets[0], ast.Name) else None
        if qd is None:
            raise AnchorVanished("get_shareholders: the Deferred of <tracker>.query(..) is not kept in a variable")
        qregs = [x for st in ql.body for x in ast.walk(st) if isinstance(x, ast.Call) and isinstance(x.func, ast.Attribute)
                 and x.func.attr in ("addCallback", "addBoth", "addCallbacks") and attr_path(x.func.value) == qd and x.args]

        def runs(t, name):
            if isinstance(t, ast.Name):
                return t.id == name
            return isinstance(t, ast.Lambda) and any(isinstance(y, ast.Call) and isinstance(y.func, ast.Name) and y.func.id == name
                                                     for y in ast.walk(t.body))
        demoters = []
        for (nm_, nf) in sorted(gs.nested.items()):
            if isinstance(nf.node, ast.Lambda) or not any(runs(x.args[0], nm_) for x in qregs):
                continue
            if any(isinstance(x, ast.Call) and isinstance(x.func, ast.Attribute) and x.func.attr in ("remove", "discard", "pop")
                   and isinstance(x.func.value, ast.Name) and x.func.value.id in wnames for x in func_own_nodes(nf)):
                demoters.append(nf)
        if not demoters:
            raise AnchorVanished("get_shareholders: function of the allocation loop that takes a tracker off %s" % sorted(wnames))

        def tells_selector(n, _lab=None):
            return any(call_tail(c) in ("mark_readonly_peer", "mark_bad_peer") for c in node_calls(n))
        # (B) _buckets_allocated marks the server on every way that does not report progress
        ba = idx.func(SEL + "._buckets_allocated")
        bacfg = ba.cfg()
        prog = {o.ast.value.id for o in bacfg.find(is_return) if isinstance(o.ast.value, ast.Name)}

        def progress_or_told(n, lab):
            if tells_selector(n):
                return True
            f = fact_on_edge(Normaliser(Env(None, depth=0)), n, lab)
            return bool(f) and f[0] == "truth" and f[1] in prog
        b_bad = find_path_avoiding(bacfg, is_return, gate_edge=progress_or_told)
        for nf in demoters:
            r.site(nf, None, "writable tracker demoted")
            ncfg = nf.cfg()
            # told, or found not to be among the selector's writable servers (then it already is read-only or bad)
            nnorm = FlowNorm(nf)
            marks = [(m, c) for m in ncfg.nodes for c in node_calls(m) if call_tail(c) in ("mark_readonly_peer", "mark_bad_peer")
                     and isinstance(c.func, ast.Attribute) and len(c.args) == 1]
            known = {(nnorm.norm(m, c.args[0]), "%s.peers" % nnorm.norm(m, c.func.value)) for (m, c) in marks}

            def told_or_not_writable(n, lab, _nn=nnorm, _known=known):
                if tells_selector(n):
                    return True
                f = _nn.edge_fact(n, lab)
                return bool(f) and f[0] == "not in" and (f[1], f[2]) in _known
            a_bad = find_path_avoiding(ncfg, lambda x: x.kind == "exit", gate_edge=told_or_not_writable)
            if not a_bad:
                for (m, c) in marks:
                    who = nnorm.norm(m, c.args[0])
                    r.require(any(who == "%s.get_serverid()" % p_ for p_ in nf.params), nf, nf.loc(c),
                              "%s tells the peer selector about %s, not about the server of the tracker it was given" % (nf.name, who))
            if a_bad and b_bad:
                r.violation(nf, nf.loc(), "%s takes the tracker off %s but the peer selector is not told (no mark_readonly_peer / "
                            "mark_bad_peer here, and _buckets_allocated returns without it when nothing was allocated): the "
                            "next get_share_placements() gives the rejected shares to the same server again, unused servers "
                            "are never asked, and the upload is declared unhappy although a happy layout was reachable" % (
                                nf.name, "/".join(sorted(wnames))), b_bad[0][1])

    # ----------------------------------------------------------------- 13
    with ctx.rule("C07.13", "R2", "the placement sees the existing shares: every tracker of a read-only server is asked "
                  "about its shares, the answer is handled by a method that records each share number with "
                  "add_peer_with_share(<server id>, share), the Deferred is collected and the collection is awaited "
                  "before the first get_share_placements()", expected=3) as r:
        if not selm:
            raise AnchorVanished("the allocation loop of get_shareholders was not identified (see C07.11)")
        gs, gsl, gcfg2, pstores, windex, SEL = (selm[k] for k in ("gs", "gsl", "cfg", "pstores", "windex", "SEL"))
        ro_index = [i for i in range(selm["ncomp"]) if i not in windex]
        asks = [(n, c) for n in gcfg2.stmt_nodes() for c in node_calls(n) if call_tail(c) == "ask_about_existing_shares"
                and isinstance(c.func, ast.Attribute) and isinstance(c.func.value, ast.Name)]
        if not asks:
            raise AnchorVanished("get_shareholders: <tracker>.ask_about_existing_shares()")
        covered = set()
        appends = []
        lists = set()
        for (n, c) in asks:
            tv = c.func.value.id
            loops = [l for l in (enclosing_for(gs, n.ast) if n.kind == "stmt" else []) if isinstance(l.target, ast.Name) and l.target.id == tv]
            if not loops:
                r.violation(gs, gs.loc(c), "existing shares are asked of %s outside a loop over the trackers" % tv)
                continue
            lp = loops[-1]
            head = iter_node(gcfg2, lp)
            comp = gsl.origin(head, unwrap(lp.iter))
            is_ro = any(comp.startswith("self._create_trackers(") and comp.endswith("[%d]" % i) for i in ro_index)
            if not is_ro:
                continue          # existing shares of writable servers only save transfers; the spread does not need them
            covered.add(comp)
            r.site(gs, c, "existing-share query of a read-only server")
            dname = n.ast.targets[0].id if isinstance(n.ast, ast.Assign) and len(n.ast.targets) == 1 \
                and isinstance(n.ast.targets[0], ast.Name) else None
            if not r.require(dname is not None, gs, gs.loc(c), "the answer about existing shares is not kept in a Deferred variable"):
                continue
            in_loop = [x for st in lp.body for x in ast.walk(st)]
            regs = [x for x in in_loop if isinstance(x, ast.Call) and isinstance(x.func, ast.Attribute)
                    and x.func.attr in ("addCallback", "addBoth", "addCallbacks") and attr_path(x.func.value) == dname and x.args]
            recorders = []
            for x in regs:
                t = x.args[0]
                tp = attr_path(t) or ""
                if not tp.startswith("self.") or tp.count(".") != 1:
                    continue
                try:
                    hm = idx.func("%s.%s" % (SEL, tp.split(".")[1]))
                except AnchorVanished:
                    continue
                if [norm_plain(a) for a in x.args[1:2]] != [tv]:
                    continue
                ok_h = handler_records_shares(hm)
                if ok_h is True:
                    recorders.append((x, hm))
                elif ok_h:
                    r.violation(hm, hm.loc(), ok_h)
                    recorders.append((x, hm))
            r.require(bool(recorders), gs, gs.loc(c), "no callback on %s (given the tracker) records the shares the read-only server "
                      "holds with peer_selector.add_peer_with_share: the read-only phase of the placement has nothing to match, "
                      "the shares are uploaded again to writable servers and the spread is lower" % dname)
            for (x, hm) in recorders[:1]:
                r.site(hm, None, "existing-share handler")
            apps = [m for m in gcfg2.stmt_nodes() for c2 in node_calls(m) if call_tail(c2) in ("append", "add")
                    and isinstance(c2.func.value, ast.Name) and [norm_plain(a) for a in c2.args] == [dname]
                    and m.kind == "stmt" and lp in enclosing_for(gs, m.ast)]
            if r.require(bool(apps), gs, gs.loc(c), "the Deferred %s is not collected, so nothing waits for the answer before the "
                         "placement is computed" % dname):
                for (s_, w) in find_path_from_to_avoiding(gcfg2, lambda x, _n=n: x is _n, lambda x: any(x is a_ for a_ in apps),
                                                         ends=lambda x, _h=head: x is _h):
                    r.violation(gs, gs.loc(n.ast), "the Deferred %s can be left out of the collection that is awaited" % dname, w)
                appends.extend(apps)
                for m in apps:
                    for c2 in node_calls(m):
                        if call_tail(c2) in ("append", "add") and isinstance(c2.func.value, ast.Name):
                            lists.add(c2.func.value.id)
        r.require(bool(covered), gs, gs.loc(), "the trackers of read-only servers (component %s of _create_trackers) are never asked "
                  "about existing shares" % ro_index)
        waits = [n for n in gcfg2.stmt_nodes() if has_yield(n) and any(
            isinstance(x, ast.Call) and call_tail(x) in ("DeferredList", "gatherResults") and x.args
            and norm_plain(unwrap(x.args[0])) in lists for e in node_exprs(n) for x in own_nodes(e))]
        r.site(gs, waits[0].ast if waits else None, "wait for the answers")
        if r.require(bool(waits), gs, gs.loc(), "the collected answers about existing shares (%s) are never awaited" % sorted(lists)):
            for (t, w) in find_path_avoiding(gcfg2, lambda x: any(x is p for p in pstores),
                                             gate_node=lambda x: any(x is y for y in waits),
                                             kill=lambda x: any(x is a_ for a_ in appends)):
                r.violation(gs, gs.loc(t.ast), "the placement is computed before the answers about existing shares were awaited", w)

    # ----------------------------------------------------------------- 14
    with ctx.rule("C07.14", "R2", "the selector keeps what it is told: the relation handed to share_placement as "
                  "peers_to_shares is created empty per selector; add_peer_with_share(p, s) leaves s in that relation's "
                  "set for p on every way to its end and never replaces the shares recorded for p before; add_peer(p) "
                  "puts p into the writable set; mark_bad_peer(p) leaves p in neither server set", expected=5) as r:
        gp_ = idx.func(UP + ":PeerSelector.get_share_placements")
        cs = calls_in_func(gp_, "share_placement")
        if len(cs) != 1:
            raise AnchorVanished("get_share_placements: share_placement call")
        gl = Flow(gp_)
        gn = gl.node_of(cs[0])
        names = []
        for (pos, kw) in ((0, "peers"), (1, "readonly_peers"), (3, "peers_to_shares")):
            a_ = arg(cs[0], pos, kw)
            o_ = gl.origin(gn, a_) if a_ is not None else ""
            if not re.match(r"^self\.\w+$", o_):
                raise AnchorVanished("get_share_placements: share_placement argument %s is not an attribute of the selector (%s)" % (kw, o_))
            names.append(o_)
        PEERS, RO, REL = names
        # (a) one empty relation per selector
        ini = idx.func(UP + ":PeerSelector.__init__")
        inits = [n for n in ini.cfg().stmt_nodes() if n.kind == "stmt" and isinstance(n.ast, ast.Assign)
                 and REL in [attr_path(t) for t in n.ast.targets]]
        r.site(ini, inits[0].ast if inits else None, "existing-share relation created")
        if r.require(bool(inits), ini, ini.loc(), "%s is not created in PeerSelector.__init__: every upload would record its "
                     "servers' shares in one shared relation" % REL):
            for n in inits:
                v = n.ast.value
                empty = (isinstance(v, ast.Dict) and not v.keys) or (
                    isinstance(v, ast.Call) and call_tail(v) in ("dict", "OrderedDict", "DictOfSets") and not v.args and not v.keywords) or (
                    isinstance(v, ast.Call) and call_tail(v) == "defaultdict" and [norm_plain(a_) for a_ in v.args] == ["set"])
                r.require(empty, ini, ini.loc(n.ast), "%s does not start as a new empty mapping (%s): the placement would see "
                          "shares no server of this upload reported" % (REL, src(ini, v)))
        # (b) add_peer_with_share records the pair
        ap_ = idx.func(UP + ":PeerSelector.add_peer_with_share")
        pp = first_positional_params(ap_)
        if len(pp) < 2:
            raise AnchorVanished("add_peer_with_share(peerid, shnum)")
        K, V = pp[0], pp[1]
        r.site(ap_, None, "add_peer_with_share")
        pr = PairRecord(ap_, REL, K, V)
        r.count(len(ap_.cfg().nodes))
        for c in pr.ops.values():
            r.site(ap_, c, "recording step")
        only_if_new = [c for c in pr.ops.values() if isinstance(c, ast.Call) and c.func.attr == "setdefault"]
        for w in pr.unrecorded[:1]:
            hint = ""
            if only_if_new:
                hint = "; %s records %s only for a server that has no entry yet and leaves an existing entry as it is" % (
                    src(ap_, only_if_new[0]), V)
            r.violation(ap_, ap_.loc(), "add_peer_with_share(%s, %s) can end without %s in %s[%s]%s: a share reported by a "
                        "server is dropped, share_placement gets an incomplete existing-share relation (a read-only server "
                        "cannot be matched with that share, the spread is lower) (path: %s)" % (
                            K, V, V, REL, K, hint, w.brief()), w)
        for (n, w, fresh) in pr.clobbers:
            r.violation(ap_, ap_.loc(n.ast), "%s replaces the set of shares recorded for %s although %s may already have an "
                        "entry: the shares reported earlier for this server are dropped" % (src(ap_, n.ast), K, K), w)
        for (n, what) in pr.foreign.values():
            r.violation(ap_, ap_.loc(n.ast), "add_peer_with_share(%s, %s): %s - not the pair it was given" % (K, V, what))
        # (c) add_peer / (d) mark_bad_peer
        plain = Normaliser(Env(None, depth=0))

        def changes(fn, S, p, adding):
            """CFG nodes of fn that put p into / take p out of the set attribute S."""
            fl_ = Flow(fn)
            meths = ("add",) if adding else ("remove", "discard")
            bulk = ("update",) if adding else ("difference_update",)
            out = []
            for n in fn.cfg().stmt_nodes():
                hit = False
                for c in node_calls(n):
                    if isinstance(c.func, ast.Attribute) and attr_path(c.func.value) == S and len(c.args) == 1 and not c.keywords:
                        a0 = c.args[0]
                        if c.func.attr in meths and fl_.origin(n, a0) == p:
                            hit = True
                        if c.func.attr in bulk and isinstance(a0, (ast.List, ast.Tuple, ast.Set)) \
                                and any(fl_.origin(n, x) == p for x in a0.elts):
                            hit = True
                a = n.ast
                if n.kind == "stmt" and isinstance(a, ast.AugAssign) and attr_path(a.target) == S \
                        and isinstance(a.op, ast.BitOr if adding else ast.Sub):
                    els = set_elements(a.value)
                    if els is not None and any(fl_.origin(n, x) == p for x in els):
                        hit = True
                if hit:
                    out.append(n)
            return out
        ad = idx.func(UP + ":PeerSelector.add_peer")
        p_ = first_positional_params(ad)[0]
        r.site(ad, None, "add_peer")
        adds_ = changes(ad, PEERS, p_, True)
        acfg_ = ad.cfg()
        for (t, w) in find_path_avoiding(acfg_, lambda x: x is acfg_.exit, gate_node=lambda x: any(x is y for y in adds_)):
            r.violation(ad, ad.loc(), "add_peer(%s) can end without %s in %s: the placement never uses that server" % (p_, p_, PEERS), w)
        mb = idx.func(UP + ":PeerSelector.mark_bad_peer")
        p_ = first_positional_params(mb)[0]
        mcfg_ = mb.cfg()
        r.site(mb, None, "mark_bad_peer")
        for (S, other) in ((PEERS, RO), (RO, PEERS)):
            rem_ = changes(mb, S, p_, False)

            def out_of(n, lab, _S=S, _o=other, _p=p_):
                f = fact_on_edge(plain, n, lab)
                # PeerSelector keeps the two sets disjoint (rule 3): a member of the other set is not in this one
                return bool(f) and ((f[0], f[1], f[2]) == ("not in", _p, _S) or (f[0], f[1], f[2]) == ("in", _p, _o))
            for (t, w) in find_path_avoiding(mcfg_, lambda x: x is mcfg_.exit, gate_node=lambda x, _r=rem_: any(x is y for y in _r),
                                             gate_edge=out_of):
                r.violation(mb, mb.loc(), "mark_bad_peer(%s) can end with %s still in %s: the next placement gives shares to a "
                            "server that failed" % (p_, p_, S), w)

    # ----------------------------------------------------------------- 15
    with ctx.rule("C07.15", "R5", "the matching that becomes the placement always starts from and stays a flow: the flow "
                  "table of _compute_maximum_graph (created zero, rule 6) is written by nothing but the augmentation pair "
                  "along an augmenting path - no function it is handed to (residual_network, any other), no alias, no row "
                  "object taken from it stores into it (interprocedural who-writes analysis)", expected=2) as r:
        ek_confinement_rule(r, idx.func(MAXG), "placement matching", idx)

    # ----------------------------------------------------------------- 16
    with ctx.rule("C07.16", "R2", "the placement is a function of what share_placement is given: in no function of its "
                  "computation (share_placement and everything it calls in the package) does state that outlives the call "
                  "- a module-level name re-bound through `global`, a module-level container or a function/class attribute "
                  "changed from inside a function with values that depend on the arguments, a mutable default argument "
                  "changed in place - reach a branch, a returned value or an argument of another function of the "
                  "computation", expected=13) as r:
        no_persistent_state_rule(r, idx, [sp], "share placement")


def reach_from_within(cfg, a, b, head) -> bool:
    """b reachable from a without passing the loop head."""
    seen = set()
    work = [d for (d, _l) in cfg.succ[a.id]]
    while work:
        x = work.pop()
        if x == b.id:
            return True
        if x in seen or x == head.id:
            continue
        seen.add(x)
        work.extend(d for (d, _l) in cfg.succ[x])
    return False


def _closure(fn, fl, n, e, depth=10):
    """Names the value of e (evaluated at node n) may come from: the first hops follow the unique reaching
    definition (names are re-used in this function), the rest is the flow-insensitive def-use closure in
    which subscript *keys* do not flow into the container and queue put/get are container insertions."""
    for _ in range(4):
        roots = [x for x in own_nodes(e) if isinstance(x, ast.Name) and isinstance(x.ctx, ast.Load)]
        funcs = {id(c.func) for c in own_nodes(e) if isinstance(c, ast.Call)}
        roots = [x for x in roots if id(x) not in funcs]
        if len(roots) != 1:
            break
        dn, v = fl.unique_def(n, roots[0].id)
        if v is None or fresh_mutable(v) or not [x for x in own_nodes(v) if isinstance(x, ast.Name)
                                                 and not (isinstance(v, ast.Call) and x is v.func)]:
            break
        n, e = dn, v
    defs = {}

    def bind(t, v):
        if isinstance(t, ast.Name):
            defs.setdefault(t.id, []).append(v)
        elif isinstance(t, (ast.Tuple, ast.List)):
            for tt in t.elts:
                bind(tt, v)
        elif isinstance(t, ast.Subscript):
            pth = attr_path(t.value)
            if pth:
                defs.setdefault(pth, []).append(v)
    for x in func_own_nodes(fn):
        if isinstance(x, ast.Assign):
            for t in x.targets:
                bind(t, x.value)
        elif isinstance(x, ast.AugAssign):
            bind(x.target, x.value)
        elif isinstance(x, (ast.For, ast.comprehension)):
            bind(x.target, x.iter)
        elif isinstance(x, ast.Call) and isinstance(x.func, ast.Attribute) and isinstance(x.func.value, ast.Name) \
                and x.func.attr in ("append", "add", "update", "extend", "insert", "setdefault", "put", "put_nowait"):
            for a in x.args:
                defs.setdefault(x.func.value.id, []).append(a)
    return depends_on(fn, e, depth=depth, defs=defs)
