"""C07 Share placement is complete, respects read-only servers, maximizes spread.

Decided: structural necessary conditions of happiness_upload.share_placement and
its helpers (DESIGN.md section 5, C07).  The value-level optimality of the
matching is C08 / undecided."""
from sa.h import *

EXPLANATION = (
    "Decided (structural, all paths): (1) R9 loop-escape alias: in happiness_upload, happinessutil and "
    "immutable.upload no container created outside a loop is inserted into another container in one iteration "
    "and mutated in another while the name is never re-bound in between (the same object would be shared by "
    "all iterations' slots); in particular the adjacency row of peer p in _servermap_flow_graph must be an "
    "object created in p's iteration; (2) flow-graph index space of the placement copy: _reindex bases 1 and "
    "len(peers)+1 agree between _calculate_mappings and _servermap_flow_graph, source row first, peer rows at "
    "peer_to_index[peer] holding share_to_index[s] for s in servermap[peer] only (guarded), share rows "
    "[sink_num], sink = len(peers)+len(shares)+1 = last row, the matching is read back with the sink index "
    "dim-1 and converted through index_to_share/index_to_peer; (3) read-only exclusion: read-only servers enter "
    "only phase 1 and only with the shares they hold (servermap branch), the writable candidate set is a "
    "difference chain rooted at `peers`, homeless distribution gets only entries with k not in readonly_peers, "
    "the round-robin draws from peers - readonly_peers, PeerSelector keeps peers and readonly_peers disjoint and "
    "passes them in the right order; (4) completeness and phase algebra: the result ranges over every key of "
    "the merge readonly+existing+new (in this override order), every empty/None value is replaced, phase 2/3 "
    "share and peer arguments are shares-used and shares-used-existing (ids from _extract_ids of the previous "
    "phase), every share index gets a key in _compute_maximum_graph. "
    "Undecided: optimality of the matching (C08), PriorityQueue tie-breaking, set iteration order.")
TECHNIQUE = ("static analysis: CFG cycle/reaching-definition alias rule (R9), normal-form index-space agreement, "
             "edge-fact dominance and set-difference-chain normal forms over share_placement")

HU = "immutable.happiness_upload"
UP = "immutable.upload"
SWEEP_MODULES = ("allmydata.immutable.happiness_upload", "allmydata.util.happinessutil", "allmydata.immutable.upload")


# ===================================================================== R9 core
_MUT_CTORS = {"list", "dict", "set", "bytearray", "deque", "defaultdict", "OrderedDict", "Counter", "DictOfSets"}
_MUT_LITERALS = (ast.List, ast.Dict, ast.Set, ast.ListComp, ast.DictComp, ast.SetComp)
_INSERTERS = {"append", "insert", "add", "setdefault", "put", "put_nowait", "appendleft", "extend", "update"}
_MUTATORS = {"append", "extend", "insert", "add", "update", "pop", "popitem", "remove", "discard", "clear",
             "setdefault", "sort", "reverse", "appendleft", "popleft", "intersection_update",
             "difference_update", "symmetric_difference_update"}


def fresh_mutable(v) -> bool:
    """The expression creates a new mutable container object each time it is evaluated."""
    if isinstance(v, _MUT_LITERALS):
        return True
    return isinstance(v, ast.Call) and isinstance(v.func, ast.Name) and v.func.id in _MUT_CTORS


def def_value(node, name):
    """Value bound to plain name `name` by CFG node `node` (None: opaque binding)."""
    a = node.ast
    if node.kind != "stmt":
        return None
    if isinstance(a, ast.Assign):
        for t in a.targets:
            if isinstance(t, ast.Name) and t.id == name:
                return a.value
            if isinstance(t, (ast.Tuple, ast.List)):
                if isinstance(a.value, (ast.Tuple, ast.List)) and len(t.elts) == len(a.value.elts):
                    for tt, vv in zip(t.elts, a.value.elts):
                        if isinstance(tt, ast.Name) and tt.id == name:
                            return vv
                else:
                    for i, tt in enumerate(t.elts):
                        if isinstance(tt, ast.Name) and tt.id == name:
                            return ast.Subscript(value=a.value, slice=ast.Constant(value=i), ctx=ast.Load())
    if isinstance(a, ast.AnnAssign) and isinstance(a.target, ast.Name) and a.target.id == name:
        return a.value
    return None


def rebinds(n, name) -> bool:
    """Node gives `name` a (possibly) different object.  `x += ..` on a container is in place."""
    if n.kind == "stmt" and isinstance(n.ast, ast.AugAssign):
        return False
    return name in node_stores(n)


def mutates(n, name) -> bool:
    a = n.ast
    if a is None:
        return False
    for e in node_exprs(n):
        for x in own_nodes(e):
            if isinstance(x, ast.Call) and isinstance(x.func, ast.Attribute) and x.func.attr in _MUTATORS \
                    and isinstance(x.func.value, ast.Name) and x.func.value.id == name:
                return True
    if n.kind == "stmt":
        tg = []
        if isinstance(a, ast.Assign):
            tg = a.targets
        elif isinstance(a, ast.AugAssign):
            tg = [a.target]
            if isinstance(a.target, ast.Name) and a.target.id == name:
                return True
        elif isinstance(a, ast.Delete):
            tg = a.targets
        for t in tg:
            if isinstance(t, ast.Subscript) and isinstance(t.value, ast.Name) and t.value.id == name:
                return True
    return False


def _display_names(e):
    """Plain names whose object is the value itself or an element of a display."""
    if isinstance(e, ast.Name):
        return [e.id]
    if isinstance(e, (ast.Tuple, ast.List, ast.Set)):
        return [x for s in e.elts for x in _display_names(s)]
    if isinstance(e, ast.Dict):
        return [x for s in e.values for x in _display_names(s)]
    if isinstance(e, ast.Starred):
        return []
    return []


def escaping_stores(n):
    """[(name, how)] plain names whose object is put into another container at node n."""
    out = []
    a = n.ast
    if a is None:
        return out
    for e in node_exprs(n):
        for x in own_nodes(e):
            if isinstance(x, ast.Call) and isinstance(x.func, ast.Attribute) and x.func.attr in _INSERTERS:
                recv = x.func.value
                rname = recv.id if isinstance(recv, ast.Name) else None
                vals = list(x.args) + [k.value for k in x.keywords]
                if x.func.attr in ("extend", "update"):
                    # only displays passed to extend/update put the element objects in
                    vals = [v for v in vals if isinstance(v, (ast.List, ast.Tuple, ast.Set, ast.Dict))]
                for v in vals:
                    for nm in _display_names(v):
                        if nm != rname:
                            out.append((nm, "%s.%s(..)" % (src(None, recv), x.func.attr)))
    if n.kind == "stmt" and isinstance(a, ast.Assign):
        for t in a.targets:
            if isinstance(t, ast.Subscript):
                for nm in _display_names(a.value):
                    if not (isinstance(t.value, ast.Name) and t.value.id == nm):
                        out.append((nm, "%s[..] = .." % src(None, t.value)))
    return out


def shared_cycle(cfg, s, name):
    """Nodes lying on a CFG cycle through `s` along which `name` is never re-bound
    (the object stored at `s` in one iteration is the object stored in the next).
    Returns (set of node ids, witness path ids) - empty set when no such cycle."""
    fwd = {s.id: None}
    work = [s.id]
    while work:
        x = work.pop()
        nx = cfg.nodes[x]
        if x != s.id and rebinds(nx, name):
            continue                      # cannot pass through a re-binding
        for (d, lab) in cfg.succ[x]:
            if cfg.nodes[d].kind == "iter" and x == d:
                continue
            if nx.kind == "iter" and lab != "iter" and False:
                continue
            if d == s.id:
                fwd.setdefault("back", x)
            if d not in fwd:
                fwd[d] = x
                work.append(d)
    if "back" not in fwd:
        return set(), []
    # backward: nodes from which s is reached without passing a re-binding
    bwd = {s.id}
    work = [s.id]
    while work:
        x = work.pop()
        for (p, lab) in cfg.pred[x]:
            if p in bwd:
                continue
            if p != s.id and rebinds(cfg.nodes[p], name):
                continue
            bwd.add(p)
            work.append(p)
    on = {x for x in fwd if x != "back" and x in bwd and (x == s.id or not rebinds(cfg.nodes[x], name))}
    path = [s.id]
    x = fwd["back"]
    seen = set()
    while x is not None and x not in seen:
        seen.add(x)
        path.append(x)
        x = fwd.get(x)
    path.reverse()
    return on, path


def r9_candidates(fn):
    """(store node, name, how, creating nodes) for every insertion, inside a loop, of a plain name that
    may hold a container created by this function."""
    cfg = fn.cfg()
    rd = C.reaching_defs(cfg)
    reach = cfg.reachable_nodes()
    out = []
    for n in cfg.stmt_nodes():
        if n.id not in reach:
            continue
        for (name, how) in escaping_stores(n):
            ds = rd.get(n.id, {}).get(name)
            if not ds:
                continue
            creators = []
            for d in ds:
                if d < 0:
                    continue
                v = def_value(cfg.nodes[d], name)
                if v is not None and fresh_mutable(v):
                    creators.append(cfg.nodes[d])
            if not creators:
                continue
            out.append((n, name, how, creators))
    return out


def r9_check(fn, r, only=None):
    """Applies R9 to one function; returns number of candidate sites examined."""
    cfg = fn.cfg()
    k = 0
    for (n, name, how, creators) in r9_candidates(fn):
        if only is not None and not only(n, name):
            continue
        on, path = shared_cycle(cfg, n, name)
        if not on:
            continue          # not in a loop, or re-bound on every way round
        k += 1
        r.site(fn, n.ast, "%s -> %s" % (name, how))
        r.count(len(on))
        muts = [cfg.nodes[i] for i in sorted(on) if mutates(cfg.nodes[i], name)]
        if muts:
            w = ["L%d %r" % (cfg.nodes[i].lineno, cfg.nodes[i]) for i in path]
            r.violation(fn, fn.loc(n.ast),
                        "loop-escape alias: `%s` (created at line %s, outside the loop) is stored by %s in every "
                        "iteration and mutated at line %s without being re-bound in between - every slot holds the "
                        "same object" % (name, ",".join(str(c.lineno) for c in creators), how,
                                         ",".join(str(m.lineno) for m in muts)), w)
    return k


def run(ctx: Context):
    idx = ctx.idx
    with ctx.rule("C07.1", "R9", "no container created outside a loop is inserted per iteration and mutated per "
                  "iteration without re-binding (sweep of happiness_upload, happinessutil, immutable.upload); the "
                  "per-peer adjacency row of _servermap_flow_graph is created in the peer's iteration", expected=1) as r:
        total = 0
        for fn in idx.funcs.values():
            if fn.module.name in SWEEP_MODULES and not isinstance(fn.node, ast.Lambda):
                total += r9_check(fn, r)
        ctx.note("R9 candidates: %d" % total)
