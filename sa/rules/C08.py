"""C08 Happiness value equals a maximum server/share matching.

The optimality of Edmonds-Karp is value-level and not decided.  Decided are the
structural necessary conditions of the two copies of the algorithm
(util.happinessutil.servers_of_happiness and
immutable.happiness_upload._compute_maximum_graph) and of their shared helpers
(DESIGN.md section 5, C08)."""
from sa.h import *
from sa.rules.C07 import (Flow, PairRecord, TableUse, body_skips, container_stores, creators_of, def_value, ek_confinement_rule,
                          enclosing_for,
                          escaping_stores2, fact_gate, fresh_mutable, fromkeys_shared, iter_node, loops_over,
                          no_persistent_state_rule, on_cycle, r9_alias, returned_name, shared_slots, sink_terms, unwrap,
                          unwrap_view)

EXPLANATION = (
    "The Edmonds-Karp loop of each copy is found by role: in the copy itself, or in the one package function the copy calls "
    "(call graph) that recomputes residual_network and updates the flow table; for such a helper the flow network is the "
    "copy's argument for the helper's network parameter and the flow table / residual graph are the local names the copy "
    "binds the helper's returned tuple (or one element of it) to.  A loop shared by both copies is reported once. "
    "Decided (structural, all paths), in BOTH copies of Edmonds-Karp: (1) derived-value freshness: after any store to "
    "flow_function[.][.] the pair (residual_graph, residual_function) is recomputed by residual_network(<the flow "
    "network>, flow_function) before residual_graph/residual_function is read again (loop test, path search, delta, "
    "read-back); the loop test and the path search use the same residual graph; a local that remembers the augmenting "
    "path (`path = augmenting_path_for(rg)` before the loop and at the end of its body) is searched again after the "
    "residual network was recomputed, before it is tested or applied; (2) skew-symmetric update: both stores sit in the "
    "body of the loop over the path's edges (not after it, not in its else clause): per edge "
    "(u, v) of the augmenting path f[u][v] += d and f[v][u] -= d with the same d = min of the residual capacities "
    "along that path; the flow matrix and the residual tables are built with distinct row objects; (3) index-space "
    "agreement: happinessutil._reindex numbers servers from base_index=1 and shares directly after them, "
    "_flow_network_for puts the source row first, one row per server in numbering order, num_shares rows [sink] and "
    "the empty sink row last with sink = num_servers + num_shares + 1, servers_of_happiness sums flow_function[0][v] "
    "over range(1, num_servers + 1) with num_servers = len of the same server map (also as the slice [1:num_servers + 1] "
    "of the source row or the whole row) and flow_function the table of the finished loop, augmenting_path_for searches "
    "from vertex 0 to vertex len(graph) - 1, residual_network reverses exactly the saturated edges; (4) BFS "
    "discipline: a vertex is enqueued only when WHITE, after it was coloured and given its predecessor; (5) the graph is "
    "built from a faithful inversion of the share map: in shares_by_server every iteration for (share, server) ends with "
    "the share in ret[server] (CFG monitor over the recording steps, shared with C07.14), a server's set is replaced only "
    "where the server is known to have none, no other pair is recorded, the result is returned after the last share; no "
    "set object is put under two servers while the held sets are changed in place (object created outside the loop "
    "that stores it and never re-bound on a way round that loop, dict.fromkeys(.., <mutable>)) - swept over happinessutil "
    "and the Edmonds-Karp helpers; (6) the value is a function of the share map's current contents: in no function of "
    "the computation (servers_of_happiness and every package function it calls) does state that outlives the call "
    "(module-level name re-bound through `global`, module-level container / function or class attribute changed from "
    "inside a function - also through a local alias - with values that depend on a parameter or on such state, mutable "
    "default argument changed in place) reach a branch, a returned value, an argument of another function of the "
    "computation or an object of the caller; (7) in both copies the flow table is written by nothing but the "
    "augmentation pair along an augmenting path (interprocedural who-writes analysis through aliases, row objects and "
    "every package function the table is handed to), so it is a flow at every loop test. "
    "Deliberately not demanded (no effect on the value): the order of the edges inside the augmenting path, the residual "
    "capacity entries of the direction that is not a residual edge (cf = -1 / 0, never read), bfs distance and BLACK "
    "bookkeeping, how the per-vertex tables are spelled ([x for ..] or [x] * n). "
    "Undecided (ANALYSIS-ERROR, never a pass): a loop reached through more than one call, split over several helpers, or "
    "whose result is not bound as `a, b = helper(..)` / `a = helper(..)` / `a = helper(..)[i]` with the helper returning "
    "plain names. "
    "Undecided: whether remembered state (6) is keyed by the full contents of the map (such a cache would be correct; it is "
    "reported as well - statistics that are only written and values built once from constants are recognised and not "
    "reported); whether a writer other than the augmentation pair (7) happens to leave a valid flow; "
    "that the flow found is maximum (termination and optimality of Edmonds-Karp), dict/set iteration order "
    "(the max-flow value is unique, so the result does not depend on it once 1-4 hold).")
TECHNIQUE = ("static analysis: CFG x staleness monitor for the derived residual network (R2), normal-form agreement of "
             "the update pair and of the vertex numbering (R5), edge-fact dominance in bfs, CFG x (recorded, "
             "key-known-absent) monitor and loop-escape alias rule through the container (R9) for the inversion, "
             "taint of call-outliving module state into branches / results over the call closure, interprocedural "
             "who-writes (escape) analysis of the flow table")

HU = "immutable.happiness_upload"
HZ = "util.happinessutil"
HZ_MOD = "allmydata.util.happinessutil"
HU_MOD = "allmydata.immutable.happiness_upload"
COPIES = (HZ + ":servers_of_happiness", HU + ":_compute_maximum_graph")
# re-iterable copies of an adjacency row (NOT iter(): a row is scanned once per residual_network call)
ROW_COPIES = ("list", "tuple", "sorted", "set", "frozenset")


def _nested_subscript(t):
    """x[a][b] -> (x, a, b) for plain-name x."""
    if isinstance(t, ast.Subscript) and isinstance(t.value, ast.Subscript) and isinstance(t.value.value, ast.Name):
        return t.value.value.id, t.value.slice, t.slice
    return None


def _loads(n):
    out = set()
    for e in node_exprs(n):
        for x in own_nodes(e, into_lambda=True):
            if isinstance(x, ast.Name) and isinstance(x.ctx, ast.Load):
                out.add(x.id)
    return out


def _distinct_rows(e):
    """True when a 2-D table expression creates one fresh row object per row."""
    if isinstance(e, ast.ListComp):
        return fresh_mutable(e.elt) or (isinstance(e.elt, ast.BinOp) and isinstance(e.elt.op, ast.Mult)
                                        and any(isinstance(s, ast.List) for s in (e.elt.left, e.elt.right)))
    return False


def _uniform_table(e, graph):
    """Element expression of a table with one equal entry per vertex of `graph`:
    [x for _ in range(len(graph))] or [x] * len(graph) (immutable entries, so shared entries are harmless)."""
    want = "len(%s)" % graph
    if isinstance(e, ast.ListComp) and len(e.generators) == 1 and not e.generators[0].ifs \
            and norm_plain(e.generators[0].iter) == "range(%s)" % want:
        return e.elt
    if isinstance(e, ast.BinOp) and isinstance(e.op, ast.Mult):
        for (a, b) in ((e.left, e.right), (e.right, e.left)):
            if isinstance(a, ast.List) and len(a.elts) == 1 and norm_plain(b) == want:
                return a.elts[0]
    return None


def _subscript_stored(fn):
    """Local names that are the base of a subscript store (tables mutated in place: never replace them by their
    initial value)."""
    out = set()
    for x in func_own_nodes(fn):
        if isinstance(x, ast.Subscript) and isinstance(x.ctx, ast.Store) and isinstance(x.value, ast.Name):
            out.add(x.value.id)
    return out


def _ek_anchor(fn):
    """Names and nodes of one Edmonds-Karp copy."""
    cfg = fn.cfg()
    rec = [n for n in cfg.stmt_nodes() if n.kind == "stmt" and isinstance(n.ast, ast.Assign)
           and isinstance(n.ast.value, ast.Call) and call_tail(n.ast.value) == "residual_network"]
    if not rec:
        raise AnchorVanished("%s: no `.. = residual_network(..)`" % fn.qual)
    pairs = set()
    for n in rec:
        t = n.ast.targets[0]
        if isinstance(t, ast.Tuple) and len(t.elts) == 2 and all(isinstance(e, ast.Name) for e in t.elts):
            pairs.add((t.elts[0].id, t.elts[1].id))
    if len(pairs) != 1:
        raise AnchorVanished("%s: residual_network result is not unpacked into one (graph, capacity) pair" % fn.qual)
    rg, rf = pairs.pop()
    ffs = {norm_plain(arg(n.ast.value, 1, "f")) for n in rec if arg(n.ast.value, 1, "f") is not None}
    upd = [n for n in cfg.stmt_nodes() if n.kind == "stmt" and isinstance(n.ast, ast.AugAssign)
           and _nested_subscript(n.ast.target)]
    if not upd:
        raise AnchorVanished("%s: no flow update f[u][v] += d" % fn.qual)
    ff = {_nested_subscript(n.ast.target)[0] for n in upd}
    if len(ff) != 1:
        raise AnchorVanished("%s: flow updates on several tables %s" % (fn.qual, sorted(ff)))
    return cfg, rec, rg, rf, ff.pop(), ffs, upd


def _has_residual_recompute(fn) -> bool:
    return any(isinstance(x, ast.Assign) and isinstance(x.value, ast.Call) and call_tail(x.value) == "residual_network"
               for x in func_own_nodes(fn))


class _Locus:
    """Where the Edmonds-Karp loop of one copy lives: in the copy itself (direct) or in the one package function the
    copy calls that recomputes the residual network and updates the flow table (found through the call graph).  For a
    helper: `call`/`callnode` are the call in the copy, `names` maps the copy's local names to what the helper returns
    under them ('flow' = the flow table, 'rgraph' = the residual graph, 'rfunc' = the residual capacities), `net_expr`
    is the copy's argument for the helper's flow-network parameter `net_param`."""
    direct = True
    call = callnode = net_expr = net_param = None
    names = {}


def _ek_locus(idx, fn) -> _Locus:
    L = _Locus()
    L.copy = L.fn = fn
    if _has_residual_recompute(fn):
        return L
    cg = get_callgraph(idx)
    found = []
    for c in [x for x in func_own_nodes(fn) if isinstance(x, ast.Call)]:
        for g in cg.resolve(fn, c):
            if isinstance(g, FuncInfo) and not isinstance(g.node, ast.Lambda) and _has_residual_recompute(g):
                found.append((c, g))
    if len(found) != 1:
        raise AnchorVanished("%s: no `.. = residual_network(..)` and %d calls of a package function that has one" % (
            fn.qual, len(found)))
    c, g = found[0]
    L.direct, L.fn, L.call = False, g, c
    gcfg, rec, rg, rf, ff, _ffs, _upd = _ek_anchor(g)
    role = {ff: "flow", rg: "rgraph", rf: "rfunc"}
    # what the helper returns, by position (every return the same shape, made of plain names)
    shapes = set()
    for n in gcfg.find(is_return):
        v = n.ast.value
        if isinstance(v, ast.Tuple) and all(isinstance(e, ast.Name) for e in v.elts):
            shapes.add(tuple(role.get(e.id) for e in v.elts))
        elif isinstance(v, ast.Name):
            shapes.add(role.get(v.id))
        else:
            shapes.add(False)
    if len(shapes) != 1 or False in shapes:
        raise AnchorVanished("%s: the Edmonds-Karp helper %s does not return its tables as one tuple of names / one name" % (
            fn.qual, short(g)))
    shape = shapes.pop()
    # the helper's flow network is one of its parameters
    gl = Flow(g)
    nets = {gl.origin(n, arg(n.ast.value, 0, "graph")) if arg(n.ast.value, 0, "graph") is not None else "?" for n in rec}
    pos = first_positional_params(g)
    net = nets.pop() if len(nets) == 1 else None
    if net not in pos or not all(gl.is_param(n, net) for n in rec):
        raise AnchorVanished("%s: the residual network of the helper %s is not derived from one of its parameters" % (
            fn.qual, short(g)))
    L.net_param = net
    if any(isinstance(a, ast.Starred) for a in c.args) or any(k.arg is None for k in c.keywords):
        raise AnchorVanished("%s: %s is called with * / ** arguments" % (fn.qual, short(g)))
    L.net_expr = arg(c, pos.index(net), net)
    if L.net_expr is None:
        raise AnchorVanished("%s: no argument for the flow network `%s` of %s" % (fn.qual, net, short(g)))
    # how the copy binds the result
    L.callnode = Flow(fn).node_of(c)
    a = L.callnode.ast
    names = {}
    if L.callnode.kind == "stmt" and isinstance(a, ast.Assign) and len(a.targets) == 1:
        t = a.targets[0]
        if a.value is c and isinstance(shape, tuple) and isinstance(t, (ast.Tuple, ast.List)) and len(t.elts) == len(shape) \
                and all(isinstance(e, ast.Name) for e in t.elts):
            for (e, ro) in zip(t.elts, shape):
                # one name for two positions (`_, _ = ..`) holds the last one
                names[e.id] = ro
        elif a.value is c and not isinstance(shape, tuple) and isinstance(t, ast.Name):
            names[t.id] = shape
        elif isinstance(a.value, ast.Subscript) and a.value.value is c and isinstance(t, ast.Name) and isinstance(shape, tuple) \
                and isinstance(a.value.slice, ast.Constant) and isinstance(a.value.slice.value, int) \
                and not isinstance(a.value.slice.value, bool) and -len(shape) <= a.value.slice.value < len(shape):
            names[t.id] = shape[a.value.slice.value]
        else:
            names = None
    else:
        names = None
    if names is None:
        raise AnchorVanished("%s: the result of %s is not bound to local names (`a, b = %s(..)`, `a = %s(..)[i]`)" % (
            fn.qual, short(g), g.name, g.name))
    L.names = {k: v for (k, v) in names.items() if v}
    return L


class _Quiet:
    """Second pass over a loop that both copies share: the obligation sites count for the second caller as well, the
    findings were reported on the first pass."""

    def __init__(self, r):
        self.r = r

    def site(self, *a, **k):
        return self.r.site(*a, **k)

    def count(self, n):
        return self.r.count(n)

    def violation(self, *a, **k):
        return None

    def require(self, cond, *a, **k):
        return bool(cond)


def _loci(idx, r):
    """(copy, locus, rule instance to report through) for both copies; a shared helper is reported once."""
    seen = set()
    for q in COPIES:
        fn = idx.func(q)
        L = _ek_locus(idx, fn)
        if not L.direct:
            r.site(fn, L.call, "Edmonds-Karp loop in %s" % short(L.fn))
        rr = _Quiet(r) if L.fn.qual in seen else r
        seen.add(L.fn.qual)
        yield fn, L, rr


def _reaching_values(fl, n, name):
    """[(def node, value)] of every definition of plain name `name` that reaches n; None when one of them is a
    parameter or an opaque binding."""
    ds = fl.rd.get(n.id, {}).get(name)
    if not ds:
        return None
    out = []
    for d in sorted(ds):
        if d < 0:
            return None
        v = def_value(fl.cfg.nodes[d], name)
        if v is None:
            return None
        out.append((fl.cfg.nodes[d], v))
    return out


def _common_value(fl, n, name):
    """The defining expression of `name` at n when all reaching definitions have one normal form (e.g. the path
    searched before the loop and again at the end of its body); freshness of the operands is a separate matter."""
    ds = _reaching_values(fl, n, name)
    if ds and len({norm_plain(v) for (_d, v) in ds}) == 1:
        return ds[0][1]
    return None


def _inversion_loops(fn, sm):
    """The nested loops of an inversion of the share map `sm` (share -> servers): (outer For, inner For, server variable,
    share variable) for `for s, ps in sm.items(): for p in ps:` or `for s in sm: for p in sm[s]:`."""
    found = []
    for inner in [x for x in func_own_nodes(fn) if isinstance(x, ast.For)]:
        if not isinstance(inner.target, ast.Name):
            continue
        for outer in enclosing_for(fn, inner):
            base, view = unwrap_view(outer.iter)
            if norm_plain(base) != sm:
                continue
            it = unwrap(inner.iter, tails=ROW_COPIES)
            t = outer.target
            if view == "items" and isinstance(t, (ast.Tuple, ast.List)) and len(t.elts) == 2 \
                    and all(isinstance(e, ast.Name) for e in t.elts) and norm_plain(it) == t.elts[1].id:
                found.append((outer, inner, inner.target.id, t.elts[0].id))
            elif view in (None, "keys") and isinstance(t, ast.Name) and norm_plain(it) == "%s[%s]" % (sm, t.id):
                found.append((outer, inner, inner.target.id, t.id))
    if len(found) != 1:
        raise AnchorVanished("%s: the loops `for share, servers in %s.items(): for server in servers:` (found %d)" % (
            fn.qual, sm, len(found)))
    return found[0]


def run(ctx: Context):
    idx = ctx.idx

    # ------------------------------------------------------------------ 1
    with ctx.rule("C08.1", "R2", "derived-value freshness: between a store to flow_function[.][.] and the next read of "
                  "residual_graph / residual_function the pair is recomputed by residual_network(network, flow_function); "
                  "loop test and path search read the same residual graph; a remembered augmenting path is searched again "
                  "after the flow changed before it is tested or applied (both copies, in the function that holds the loop)",
                  expected=8) as r0:
        for (_copy, L, r) in _loci(idx, r0):
            fn = L.fn
            q = fn.qual
            fl = Flow(fn)
            cfg, rec, rg, rf, ff, ffs, upd = _ek_anchor(fn)
            # the network the residual is derived from: one origin for every recomputation, not the residual itself
            nets = set()
            for n in rec:
                r.site(fn, n.ast, "residual_network recomputation")
                c = n.ast.value
                a0, a1 = arg(c, 0, "graph"), arg(c, 1, "f")
                nets.add(fl.origin(n, a0) if a0 is not None else "?")
                r.require(a1 is not None and norm_plain(a1) == ff, fn, fn.loc(n.ast),
                          "the residual network is derived from %s, not from the flow being updated (%s)" % (
                              src(fn, a1), ff))
                r.require(a0 is not None and rg not in names_in(a0) and rf not in names_in(a0), fn, fn.loc(n.ast),
                          "the residual network is derived from the previous residual network instead of the flow network")
            r.require(len(nets) == 1, fn, fn.loc(), "residual networks are derived from different graphs: %s" % sorted(nets))
            # staleness monitor
            def is_upd(n, _u=upd):
                return any(n is x for x in _u)

            def is_rec(n, _r=rec):
                return any(n is x for x in _r)

            # names that remember an augmenting path: derived from the residual graph (stale once that is replaced; the
            # loop that applies the path may go on with it while the graph is recomputed edge by edge)
            pdefs = [n for n in cfg.stmt_nodes() if n.kind == "stmt" and isinstance(n.ast, ast.Assign)
                     and len(n.ast.targets) == 1 and isinstance(n.ast.targets[0], ast.Name)
                     and isinstance(n.ast.value, ast.Call) and call_tail(n.ast.value) == "augmenting_path_for"]
            pnames = {n.ast.targets[0].id for n in pdefs}
            uheads = set()
            for u_ in upd:
                enc = enclosing_for(fn, u_.ast)
                if enc:
                    uheads.add(iter_node(cfg, enc[-1]).id)

            def is_pdef(n, _p=pdefs):
                return any(n is x for x in _p)

            # state: (residual pair stale, remembered path stale, inside the loop that applies the path)
            def transfer(n, lab, nxt, st):
                if n.kind in ("entry", "exit", "raise"):
                    return st
                stale, pstale, inl = st
                if n.id in uheads:
                    inl = lab == "iter"
                if is_upd(n):
                    return (True, pstale, inl)
                if is_rec(n) and lab != "exc":
                    # the path was found in the residual graph that is replaced here
                    return (False, True, inl)
                if is_pdef(n) and lab != "exc":
                    return (stale, False, inl)
                return (stale, pstale, inl)
            visited, parent = explore(cfg, (False, False, False), transfer)
            r.count(len(visited))
            reads = [n for n in cfg.nodes if n.kind not in ("entry", "exit", "raise") and ({rg, rf} & _loads(n))]
            if not reads:
                raise AnchorVanished("%s: residual graph is never read" % q)
            done = set()
            for (nid, st) in sorted(visited):
                n = cfg.nodes[nid]
                if st[0] and any(n is x for x in reads) and nid not in done:
                    done.add(nid)
                    r.violation(fn, fn.loc(n.ast), "stale residual network: %s is read after flow_function was updated "
                                "and before residual_network(..) recomputed it (path: %s)" % (
                                    "/".join(sorted({rg, rf} & _loads(n))), witness(cfg, parent, (nid, st)).brief()),
                                witness(cfg, parent, (nid, st)))
            pdone = set()
            for (nid, st) in sorted(visited):
                n = cfg.nodes[nid]
                if not st[1] or nid in pdone or n.kind in ("entry", "exit", "raise") or not (pnames & _loads(n)):
                    continue
                if n.id in uheads and st[2]:
                    continue        # the loop that applies the path goes on to its next edge
                pdone.add(nid)
                r.violation(fn, fn.loc(n.ast), "stale augmenting path: %s is used after the residual network was recomputed "
                            "from the changed flow and before augmenting_path_for(%s) searched again - a path of the previous "
                            "residual graph would be tested / applied (path: %s)" % ("/".join(sorted(pnames & _loads(n))), rg,
                                                 witness(cfg, parent, (nid, st)).brief()), witness(cfg, parent, (nid, st)))
            # the loop test: a branch on augmenting_path_for(rg) (directly or through a local holding its result)
            apf = "augmenting_path_for(%s)" % rg
            plain = Normaliser(Env(None, depth=0))

            def fact1(n, lab, _fl=fl):
                """Plain fact on the edge; a bare local is replaced by its unique reaching definition (one hop)."""
                f = fact_on_edge(plain, n, lab)
                if f and f[0] in ("truth", "false") and isinstance(n.ast, ast.Name):
                    v = _common_value(_fl, n, n.ast.id)
                    if v is not None:
                        return (f[0], norm_plain(v), None)
                return f

            def infeasible(n, lab):
                return n.kind == "test" and isinstance(lab, tuple) and isinstance(n.ast, ast.Constant) \
                    and bool(n.ast.value) != (lab[0] == "T")

            def has_path_edge(n, lab):
                f = fact1(n, lab)
                return bool(f) and f[0] == "truth" and f[1] == apf

            def no_path_edge(n, lab):
                f = fact1(n, lab)
                return infeasible(n, lab) or (bool(f) and f[0] == "false" and f[1] == apf)
            tests = [n for n in cfg.nodes if n.kind == "test" and (fact1(n, ("T", n.ast)) or ("", ""))[1] == apf]
            if not tests:
                raise AnchorVanished("%s: loop test on augmenting_path_for(%s)" % (q, rg))
            for n in tests:
                r.site(fn, n.ast, "augmenting-path test")
            for n in cfg.nodes:
                for c in node_calls(n):
                    if call_tail(c) == "augmenting_path_for":
                        r.site(fn, c, "augmenting_path_for call")
                        r.require(len(c.args) == 1 and norm_plain(c.args[0]) == rg, fn, fn.loc(c),
                                  "augmenting path is searched in %s, not in the residual graph %s" % (
                                      src(fn, c.args[0] if c.args else None), rg))
            # the flow is changed only along a path that the (unchanged) residual graph was just tested to have
            for u_ in upd:
                enc = enclosing_for(fn, u_.ast)
                if not enc:
                    continue
                hd = iter_node(cfg, enc[-1])
                # a recomputation after the whole path was applied invalidates the test; one inside the update loop
                # (per edge, as in _compute_maximum_graph) does not change which path is being applied
                bad = find_path_avoiding(cfg, lambda x, _h=hd: x is _h, gate_edge=has_path_edge,
                                         kill=lambda x, _l=enc[-1]: is_rec(x) and _l not in enclosing_for(fn, x.ast))
                for (t, w) in bad:
                    r.violation(fn, fn.loc(t.ast), "the flow is augmented although the current residual graph was not tested "
                                "to contain an augmenting path", w)
                break
            # the result is produced only after the loop test failed
            outs = cfg.find(is_return)
            outs = [n for n in outs if n.ast.value is not None and ({ff, rg} & names_in(n.ast.value) or
                                                                  isinstance(n.ast.value, ast.Name))]
            outs = [n for n in outs if not (isinstance(n.ast.value, (ast.Dict, ast.Constant)))]
            if not outs:
                raise AnchorVanished("%s: result return" % q)
            for o in outs:
                bad = find_path_avoiding(cfg, lambda x, _o=o: x is _o, gate_edge=no_path_edge,
                                         kill=lambda x: is_upd(x))
                for (t, w) in bad:
                    r.violation(fn, fn.loc(t.ast), "the result is produced while an augmenting path may still exist "
                                "(the loop is not left through a failed augmenting_path_for(%s))" % rg, w)

    # ------------------------------------------------------------------ 2
    with ctx.rule("C08.2", "R5", "skew-symmetric flow update: for each edge (u, v) of the augmenting path f[u][v] += d and "
                  "f[v][u] -= d with the same d = min residual capacity along the path; flow matrix rows are distinct "
                  "objects of dimension len(network) (both copies, in the function that holds the loop)", expected=8) as r0:
        for (_copy, L, r) in _loci(idx, r0):
            fn = L.fn
            q = fn.qual
            fl = Flow(fn)
            cfg, rec, rg, rf, ff, ffs, upd = _ek_anchor(fn)
            loops = {}
            for n in upd:
                enc = enclosing_for(fn, n.ast)
                if not enc:
                    r.violation(fn, fn.loc(n.ast), "flow update %s outside the loop over the edges of the augmenting path: it is "
                                "applied once per path (to whatever edge the loop variables were left on), not once per edge, so "
                                "the flow over the other edges of the path loses its skew symmetry f[v][u] == -f[u][v] and an edge "
                                "that a later path goes back over stays saturated" % src(fn, n.ast))
                    continue
                loops.setdefault(id(enc[-1]), (enc[-1], []))[1].append(n)
            if not loops:
                raise AnchorVanished("%s: loop over the augmenting path" % q)
            for (loop, us) in loops.values():
                r.site(fn, loop, "update loop")
                tgt = loop.target
                okt = isinstance(tgt, ast.Tuple) and len(tgt.elts) == 2 and all(isinstance(e, ast.Name) for e in tgt.elts)
                if not r.require(okt, fn, fn.loc(loop), "the update loop does not unpack edges (u, v)"):
                    continue
                u, v = tgt.elts[0].id, tgt.elts[1].id
                head = iter_node(cfg, loop)
                # iterable: the path found by augmenting_path_for(rg)
                pv_ = _common_value(fl, head, loop.iter.id) if isinstance(loop.iter, ast.Name) else loop.iter
                po = norm_plain(pv_) if pv_ is not None else src(fn, loop.iter)
                r.require(po == "augmenting_path_for(%s)" % rg, fn, fn.loc(loop),
                          "the update loop runs over %s, not over the augmenting path of %s" % (po, rg))
                plus = [n for n in us if isinstance(n.ast.op, ast.Add)]
                minus = [n for n in us if isinstance(n.ast.op, ast.Sub)]
                ok = len(plus) == 1 and len(minus) == 1 and len(us) == 2
                if ok:
                    _f, a, b = _nested_subscript(plus[0].ast.target)
                    _f, c_, d_ = _nested_subscript(minus[0].ast.target)
                    ok = (norm_plain(a), norm_plain(b)) == (u, v) and (norm_plain(c_), norm_plain(d_)) == (v, u)
                r.require(ok, fn, fn.loc(us[0].ast), "the update is not the pair %s[%s][%s] += d / %s[%s][%s] -= d" % (
                    ff, u, v, ff, v, u))
                if not ok:
                    continue
                # both updates happen in every iteration
                for n in (plus[0], minus[0]):
                    w = body_skips(cfg, head, lambda x, _n=n: x is _n)
                    r.require(not w, fn, fn.loc(n.ast), "an edge of the path can be left with only half of the update")
                # delta: the bottleneck of the path (every residual capacity is 1, so the constant 1 is the same value)
                for (which, nd_) in (("forward", plus[0]), ("reverse", minus[0])):
                    d = nd_.ast.value
                    r.site(fn, d, "delta (%s)" % which)
                    dv = fl.unique_def(nd_, d.id)[1] if isinstance(d, ast.Name) else d
                    okd = isinstance(dv, ast.Constant) and dv.value == 1
                    if isinstance(dv, ast.Call) and isinstance(dv.func, ast.Name) and dv.func.id == "min" and len(dv.args) == 1 \
                            and isinstance(dv.args[0], (ast.GeneratorExp, ast.ListComp)) and len(dv.args[0].generators) == 1:
                        ge = dv.args[0]
                        g0 = ge.generators[0]
                        ns = _nested_subscript(ge.elt)
                        if ns and isinstance(g0.target, ast.Tuple) and len(g0.target.elts) == 2 and not g0.ifs:
                            gu, gv = [norm_plain(e) for e in g0.target.elts]
                            okd = ns[0] == rf and (norm_plain(ns[1]), norm_plain(ns[2])) == (gu, gv) \
                                and norm_plain(g0.iter) == norm_plain(loop.iter)
                    r.require(okd, fn, fn.loc(nd_.ast), "the %s flow changes by %s; expected min(%s[u][v] for (u, v) in <the same "
                              "path>) (= 1): skew symmetry / capacity is lost" % (which, src(fn, dv) if dv is not None else "?", rf))
            # flow matrix
            fdefs = [n for n in cfg.stmt_nodes() if n.kind == "stmt" and isinstance(n.ast, ast.Assign)
                     and [attr_path(t) for t in n.ast.targets] == [ff]]
            if len(fdefs) != 1:
                raise AnchorVanished("%s: single initialisation of %s" % (q, ff))
            fv = fdefs[0].ast.value
            r.site(fn, fv, "flow matrix")
            r.require(_distinct_rows(fv), fn, fn.loc(fv), "the rows of %s are one shared object (%s): an update of one edge "
                      "would change every row" % (ff, src(fn, fv)))
            if isinstance(fv, ast.ListComp):
                net = None
                for n in rec:
                    net = fl.origin(n, arg(n.ast.value, 0, "graph"))
                dims = set()
                for comp in [fv] + ([fv.elt] if isinstance(fv.elt, ast.ListComp) else []):
                    it = comp.generators[0].iter
                    if isinstance(it, ast.Call) and call_tail(it) == "range" and len(it.args) == 1:
                        dims.add(fl.origin(fdefs[0], it.args[0]))
                    else:
                        dims.add(src(fn, it))
                if isinstance(fv.elt, ast.BinOp):
                    for s_ in (fv.elt.left, fv.elt.right):
                        if not isinstance(s_, ast.List):
                            dims.add(fl.origin(fdefs[0], s_))
                r.require(dims == {"len(%s)" % net}, fn, fn.loc(fv), "flow matrix dimension %s, expected len(%s) x len(%s)" % (
                    sorted(dims), net, net))
            # initial value 0
            zero = fv.elt.elt if isinstance(fv, ast.ListComp) and isinstance(fv.elt, ast.ListComp) else None
            if zero is not None:
                r.require(isinstance(zero, ast.Constant) and zero.value == 0, fn, fn.loc(fv), "the initial flow is not zero")

    # ------------------------------------------------------------------ 3
    with ctx.rule("C08.3", "R5", "index-space agreement: _reindex(base_index=1) numbers servers then shares, "
                  "_flow_network_for rows source/servers/shares/sink with sink = num_servers + num_shares + 1, result = "
                  "sum flow_function[0][v] for v in range(1, num_servers + 1), augmenting_path_for from 0 to len(graph) - 1, "
                  "residual_network reverses saturated edges", expected=17) as r:
        # ---- servers_of_happiness
        sh = idx.func(HZ + ":servers_of_happiness")
        sl = Flow(sh)
        scfg = sh.cfg()
        SM0 = first_positional_params(sh)[0]
        L = _ek_locus(idx, sh)
        if L.direct:
            _c, rec, rg, rf, ff, ffs, upd = _ek_anchor(sh)
            nets = {sl.origin(n, arg(n.ast.value, 0, "graph")) for n in rec}
            net_at = rec[0].ast
            flows = {ff}
        else:
            # the loop lives in a helper: the network is the argument for the helper's network parameter, the flow is
            # the name the helper's flow table is bound to
            nets = {sl.origin(L.callnode, L.net_expr)}
            net_at = L.call
            flows = {nm for (nm, ro) in L.names.items() if ro == "flow"}
            ff = "/".join(sorted(flows)) or "<the flow table returned by %s>" % short(L.fn)
        r.site(sh, net_at, "flow network of the share map")
        want_net = "_flow_network_for(shares_by_server(%s))" % SM0
        r.require(nets == {want_net}, sh, sh.loc(net_at), "the flow network is %s, expected %s" % (sorted(nets), want_net))
        rets = [n for n in scfg.find(is_return) if not isinstance(n.ast.value, ast.Constant)]
        if len(rets) != 1:
            raise AnchorVanished("servers_of_happiness: result return")
        rv = rets[0].ast.value
        r.site(sh, rv, "flow value")

        def is_flow(name_):
            """the name holds the flow table of the finished Edmonds-Karp loop where the value is computed"""
            if name_ not in flows:
                return False
            return L.direct or sl.unique_def(rets[0], name_)[0] is L.callnode

        def servers_end(e):
            """e = num_servers + 1 with num_servers = len(shares_by_server(sharemap))"""
            if isinstance(e, ast.BinOp) and isinstance(e.op, ast.Add):
                parts = [e.left, e.right]
                one = [p_ for p_ in parts if isinstance(p_, ast.Constant) and p_.value == 1]
                oth = [p_ for p_ in parts if not (isinstance(p_, ast.Constant) and p_.value == 1)]
                return len(one) == 1 and len(oth) == 1 and sl.origin(rets[0], oth[0]) == "len(shares_by_server(%s))" % SM0
            return False

        def source_row(e):
            return isinstance(e, ast.Subscript) and isinstance(e.value, ast.Name) and is_flow(e.value.id) \
                and not isinstance(e.slice, ast.Slice) and norm_plain(e.slice) == "0"
        okv = False
        if isinstance(rv, ast.Call) and isinstance(rv.func, ast.Name) and rv.func.id == "sum" and len(rv.args) == 1 \
                and not rv.keywords:
            a0 = rv.args[0]
            if isinstance(a0, (ast.ListComp, ast.GeneratorExp)) and len(a0.generators) == 1:
                # sum(f[0][v] for v in range(1, num_servers + 1))
                g0 = a0.generators[0]
                ns = _nested_subscript(a0.elt)
                if ns and isinstance(g0.target, ast.Name) and not g0.ifs and isinstance(g0.iter, ast.Call) \
                        and isinstance(g0.iter.func, ast.Name) and g0.iter.func.id == "range" and len(g0.iter.args) in (1, 2) \
                        and not g0.iter.keywords:
                    ra = g0.iter.args
                    lo = norm_plain(ra[0]) if len(ra) == 2 else "0"
                    okv = is_flow(ns[0]) and norm_plain(ns[1]) == "0" and norm_plain(ns[2]) == g0.target.id \
                        and lo in ("0", "1") and servers_end(ra[-1])
            elif isinstance(a0, ast.Subscript) and isinstance(a0.slice, ast.Slice) and source_row(a0.value):
                # sum(f[0][1:num_servers + 1]); the entries of the source row that are not servers (the source itself,
                # shares, sink) are never changed, so an open end is the same value
                sl_ = a0.slice
                okv = sl_.step is None and (sl_.lower is None or norm_plain(sl_.lower) in ("0", "1")) \
                    and (sl_.upper is None or servers_end(sl_.upper))
            elif source_row(a0):
                okv = True
        r.require(okv, sh, sh.loc(rv), "the happiness value must be sum(%s[0][v] for v in range(1, num_servers + 1)) with "
                  "num_servers = len(shares_by_server(%s)) and %s the flow table of the finished Edmonds-Karp loop - the flow "
                  "out of the source into the server vertices; got %s" % (ff, SM0, ff, src(sh, rv)))
        empt = [n for n in scfg.find(is_return) if isinstance(n.ast.value, ast.Constant)]
        for n in empt:
            r.require(n.ast.value.value == 0, sh, sh.loc(n.ast), "an empty share map must have happiness 0")
            for (t, w) in find_path_avoiding(scfg, lambda x, _n=n: x is _n,
                                             gate_edge=fact_gate(None, lambda op, l, rr: (op == "==" and {l, rr} == {"{}", SM0})
                                                                 or (op == "false" and l == SM0))):
                r.violation(sh, sh.loc(t.ast), "a non-empty share map can be answered with the constant %r" % n.ast.value.value, w)

        # ---- shares_by_server
        sb = idx.func(HZ + ":shares_by_server")
        SBM = first_positional_params(sb)[0]
        out = returned_name(sb)
        r.site(sb, None, "shares_by_server")
        # which pair each iteration stands for; that the pair is recorded (and nothing else is) is rule C08.5
        _inversion_loops(sb, SBM)

        # ---- happinessutil._reindex
        rx = idx.func(HZ + ":_reindex")
        RM, RB = first_positional_params(rx)[:2]
        rcfg = rx.cfg()
        rl = Flow(rx)
        rrets = [n for n in rcfg.find(is_return) if isinstance(n.ast.value, ast.Tuple) and len(n.ast.value.elts) == 2]
        if len(rrets) != 1:
            raise AnchorVanished("happinessutil._reindex returns (servermap, num_shares)")
        r.site(rx, rrets[0].ast, "_reindex result")
        ret_e, cnt_e = rrets[0].ast.value.elts
        okr = isinstance(ret_e, ast.Name)
        ret = ret_e.id if okr else "?"
        lps = [x for x in func_own_nodes(rx) if isinstance(x, ast.For)]
        srv = [l for l in lps if norm_plain(unwrap_view(l.iter)[0]) == RM and not enclosing_for(rx, l)]
        shl = [l for l in lps if norm_plain(unwrap_view(l.iter)[0]) == ret and not enclosing_for(rx, l)]
        if len(srv) != 1 or len(shl) != 1:
            raise AnchorVanished("happinessutil._reindex: server loop / share loop")
        # counter
        cnts = [n for n in rcfg.stmt_nodes() if n.kind == "stmt" and isinstance(n.ast, ast.AugAssign)
                and isinstance(n.ast.op, ast.Add) and isinstance(n.ast.target, ast.Name) and norm_plain(n.ast.value) == "1"]
        cn = {n.ast.target.id for n in cnts}
        if len(cn) != 1:
            raise AnchorVanished("happinessutil._reindex: running vertex counter")
        num = cn.pop()
        starts = [n for n in rcfg.stmt_nodes() if n.kind == "stmt" and isinstance(n.ast, ast.Assign)
                  and [attr_path(t) for t in n.ast.targets] == [num]]
        nd = norm_plain(starts[0].ast.value) if len(starts) == 1 else "?"
        r.require(nd == RB, rx, rx.loc(), "the vertex counter starts at %s, expected the parameter %s" % (nd, RB))
        for st_ in starts:
            for (t, w) in find_path_avoiding(rcfg, lambda x: x is iter_node(rcfg, srv[0]), gate_node=lambda x, _s=st_: x is _s):
                r.violation(rx, rx.loc(t.ast), "servers are numbered before the counter is initialised", w)
        # server numbering
        r.site(rx, srv[0], "server numbering")
        sst = [(n, key, val) for n in rcfg.stmt_nodes() for (_k, key, val) in container_stores(n, ret)
               if srv[0] in enclosing_for(rx, n.ast)]
        kv = norm_plain(srv[0].target)
        r.require(len(sst) == 1 and sst[0][1] is not None and norm_plain(sst[0][1]) == num
                  and norm_plain(sst[0][2]) == "%s[%s]" % (RM, kv), rx, rx.loc(srv[0]),
                  "servers are not numbered ret[num] = servermap[k]")
        h_s = iter_node(rcfg, srv[0])
        incs_s = [n for n in cnts if srv[0] in enclosing_for(rx, n.ast)]
        r.require(len(incs_s) == 1 and not body_skips(rcfg, h_s, lambda x: any(x is i for i in incs_s)), rx, rx.loc(srv[0]),
                  "the counter is not advanced once per server")
        if sst and incs_s:
            late = find_path_from_to_avoiding(rcfg, lambda m: m is incs_s[0], lambda m: m is h_s, ends=lambda m: m is sst[0][0])
            r.require(not late, rx, rx.loc(incs_s[0].ast), "the counter is advanced before the server is stored under it")
        # shares are numbered after ALL servers
        h_h = iter_node(rcfg, shl[0])
        bad = find_path_avoiding(rcfg, lambda x: x is h_h, gate_edge=lambda x, lab: x is h_s and lab == "done")
        for (t, w) in bad:
            r.violation(rx, rx.loc(t.ast), "shares are numbered before all servers have their numbers", w)
        # share numbering
        r.site(rx, shl[0], "share numbering")
        table = cnt_e.args[0].id if isinstance(cnt_e, ast.Call) and call_tail(cnt_e) == "len" and cnt_e.args \
            and isinstance(cnt_e.args[0], ast.Name) else None
        r.require(table is not None, rx, rx.loc(rrets[0].ast), "the second result must be the number of distinct shares")
        if table:
            tst = [(n, key, val) for n in rcfg.stmt_nodes() for (_k, key, val) in container_stores(n, table)]
            incs_h = [n for n in cnts if shl[0] in enclosing_for(rx, n.ast)]
            okn = len(tst) == 1 and len(incs_h) == 1 and tst[0][1] is not None and norm_plain(tst[0][2]) == num
            r.require(okn, rx, rx.loc(shl[0]), "shares are not numbered shares[shnum] = num; num += 1")
            if okn:
                shv = norm_plain(tst[0][1])
                for (t, w) in find_path_avoiding(
                        rcfg, lambda x: x is tst[0][0] or x is incs_h[0],
                        gate_edge=fact_gate(None, lambda op, l, rr: (op, l, rr) == ("not in", shv, table)),
                        kill=lambda x: x.kind == "iter" and shv in node_stores(x)):
                    r.violation(rx, rx.loc(t.ast), "a share seen on a second server gets a second vertex number", w)
                late = find_path_from_to_avoiding(rcfg, lambda m: m is incs_h[0],
                                                  lambda m: m.kind == "iter" and shv in node_stores(m),
                                                  ends=lambda m: m is tst[0][0])
                r.require(not late, rx, rx.loc(incs_h[0].ast), "the counter is advanced before the share is stored under it")
                w = None
                for (t, w) in find_path_from_to_avoiding(rcfg, lambda m: m is tst[0][0], lambda m: m is incs_h[0],
                                                         ends=lambda m: m.kind == "iter" or m.kind == "exit"):
                    r.violation(rx, rx.loc(t.ast), "a share is numbered without advancing the counter", w)
            # rows rewritten with share vertex numbers
            rw = [(n, key, val) for n in rcfg.stmt_nodes() for (_k, key, val) in container_stores(n, ret)
                  if shl[0] in enclosing_for(rx, n.ast)]
            kv2 = norm_plain(shl[0].target)
            okw = False
            if len(rw) == 1 and isinstance(rw[0][2], ast.ListComp) and len(rw[0][2].generators) == 1:
                lc = rw[0][2]
                x = norm_plain(lc.generators[0].target)
                okw = norm_plain(rw[0][1]) == kv2 and norm_plain(lc.elt) == "%s[%s]" % (table, x) \
                    and norm_plain(lc.generators[0].iter) == "%s[%s]" % (ret, kv2) and not lc.generators[0].ifs
            r.require(okw, rx, rx.loc(shl[0]), "a server's row is not rewritten as [shares[x] for x in ret[k]]")

        # ---- _flow_network_for
        fw = idx.func(HZ + ":_flow_network_for")
        wl = Flow(fw)
        wcfg = fw.cfg()
        FS = first_positional_params(fw)[0]
        g = returned_name(fw)
        rc = [c for c in calls_in_func(fw, "_reindex")]
        if len(rc) != 1:
            raise AnchorVanished("_flow_network_for: _reindex call")
        r.site(fw, rc[0], "_reindex call")
        b = kwarg(rc[0], "base_index") or arg(rc[0], 1)
        r.require(b is not None and norm_plain(b) == "1" and norm_plain(arg(rc[0], 0, "servermap")) == FS, fw, fw.loc(rc[0]),
                  "servers must be numbered from 1 (vertex 0 is the source); got _reindex(%s)" % ", ".join(
                      src(fw, a) for a in list(rc[0].args) + [k.value for k in rc[0].keywords]))
        # names bound by the unpacking
        un = [x for x in func_own_nodes(fw) if isinstance(x, ast.Assign) and x.value is rc[0]]
        if not un or not isinstance(un[0].targets[0], ast.Tuple) or len(un[0].targets[0].elts) != 2:
            raise AnchorVanished("_flow_network_for: (servermap, num_shares) = _reindex(..)")
        rsm, nsh = [norm_plain(e) for e in un[0].targets[0].elts]
        RIDX = "_reindex(%s, %s)" % (FS, "1") if not rc[0].keywords else None
        stores_g = [(n, kind, key, val) for n in wcfg.stmt_nodes() for (kind, key, val) in container_stores(n, g)]
        if len(stores_g) != 4 or any(kind != "append" for (_n, kind, _k, _v) in stores_g):
            r.violation(fw, fw.loc(), "_flow_network_for must build the graph with exactly four kinds of appended rows "
                        "(source, servers, shares, sink); found %d stores" % len(stores_g))
        else:
            def cls(x):
                n, kind, key, val = x
                enc = enclosing_for(fw, n.ast)
                if enc and norm_plain(unwrap_view(enc[-1].iter)[0]) == rsm:
                    return "server"
                if enc:
                    return "share"
                if isinstance(val, ast.List) and not val.elts:
                    return "sink"
                return "source"
            by = {}
            for x in stores_g:
                by.setdefault(cls(x), []).append(x)
            if sorted(by) != ["server", "share", "sink", "source"]:
                r.violation(fw, fw.loc(), "_flow_network_for rows: found kinds %s" % sorted(by))
            else:
                sn, sv_, shn, skn = by["source"][0], by["server"][0], by["share"][0], by["sink"][0]
                r.site(fw, sn[0].ast, "source row")
                r.require(norm_plain(unwrap(sn[3])) in ("%s.keys()" % rsm, rsm), fw, fw.loc(sn[0].ast),
                          "the source row must list every server vertex (%s.keys()); got %s" % (rsm, src(fw, sn[3])))
                r.site(fw, sv_[0].ast, "server rows")
                lp = enclosing_for(fw, sv_[0].ast)[-1]
                r.require(unwrap_view(lp.iter)[1] in (None, "keys")
                          and norm_plain(unwrap(sv_[3], tails=ROW_COPIES)) == "%s[%s]" % (rsm, norm_plain(lp.target)),
                          fw, fw.loc(sv_[0].ast), "server rows must be appended in numbering order: for k in %s: append(%s[k])" % (rsm, rsm))
                r.site(fw, shn[0].ast, "share rows")
                lp2 = enclosing_for(fw, shn[0].ast)[-1]
                it2 = lp2.iter
                okn = isinstance(it2, ast.Call) and call_tail(it2) == "range" and len(it2.args) == 1 and norm_plain(it2.args[0]) == nsh
                se = None
                if isinstance(shn[3], ast.List) and len(shn[3].elts) == 1:
                    e0 = shn[3].elts[0]
                    se = wl.unique_def(shn[0], e0.id)[1] if isinstance(e0, ast.Name) else e0
                # sink = num_servers + num_shares + 1, num_servers = len(reindexed servermap)
                oks = False
                if se is not None:
                    const = 0
                    atoms = []
                    at = shn[0]
                    if isinstance(e0, ast.Name):
                        at = wl.unique_def(shn[0], e0.id)[0] or shn[0]

                    def flat(x):
                        nonlocal const
                        if isinstance(x, ast.BinOp) and isinstance(x.op, ast.Add):
                            flat(x.left)
                            flat(x.right)
                        elif isinstance(x, ast.Constant) and isinstance(x.value, int):
                            const += x.value
                        else:
                            atoms.append(wl.origin(at, x))
                    flat(se)
                    want_atoms = [wl.origin(at, parse_expr("len(%s)" % rsm)), wl.origin(at, parse_expr(nsh))]
                    oks = const == 1 and sorted(atoms) == sorted(want_atoms)
                r.require(okn and oks, fw, fw.loc(shn[0].ast), "share rows must be %s rows [sink] with sink = len(%s) + %s + 1; got "
                          "%s rows [%s]" % (nsh, rsm, nsh, src(fw, it2), src(fw, se) if se is not None else src(fw, shn[3])))
                r.site(fw, skn[0].ast, "sink row")
                h1 = iter_node(wcfg, lp)
                h2 = iter_node(wcfg, lp2)
                order = [("a server row precedes the source row", sv_[0], lambda x, lab: False, sn[0]),
                         ("share rows precede the server rows", shn[0], lambda x, lab: x is h1 and lab == "done", None),
                         ("the sink row precedes the share rows", skn[0], lambda x, lab: x is h2 and lab == "done", None)]
                for (msg, tgt_n, ge, gn) in order:
                    bad = find_path_avoiding(wcfg, lambda x, _t=tgt_n: x is _t, gate_edge=ge,
                                             gate_node=(lambda x, _g=gn: x is _g) if gn is not None else None)
                    for (t, w) in bad:
                        r.violation(fw, fw.loc(t.ast), "_flow_network_for: " + msg, w)
                rg_ = [n for n in wcfg.find(is_return)]
                for (t, w) in find_path_avoiding(wcfg, lambda x: any(x is y for y in rg_), gate_node=lambda x: x is skn[0]):
                    r.violation(fw, fw.loc(t.ast), "_flow_network_for returns a graph without its sink row", w)

        # ---- augmenting_path_for
        ap = idx.func(HU + ":augmenting_path_for")
        AG = first_positional_params(ap)[0]
        acfg = ap.cfg()
        anorm = FlowNorm(ap)
        r.site(ap, None, "augmenting_path_for")
        bc = calls_in_func(ap, "bfs")
        if len(bc) != 1:
            raise AnchorVanished("augmenting_path_for: bfs call")
        r.require([norm_plain(a) for a in bc[0].args] == [AG, "0"], ap, ap.loc(bc[0]),
                  "the search must start at the source, bfs(%s, 0); got %s" % (AG, src(ap, bc[0])))
        sink = norm_src("len(%s) - 1" % AG)
        prets = [n for n in acfg.find(is_return) if isinstance(n.ast.value, ast.Name)]
        if len(prets) != 1:
            raise AnchorVanished("augmenting_path_for: path return")
        bt = "bfs(%s, 0)" % AG
        for (t, w) in find_path_avoiding(acfg, lambda x: x is prets[0],
                                         gate_edge=fact_gate(anorm, lambda op, l, rr: (op == "truth" and l == "%s[%s]" % (bt, sink))
                                                             or (op in ("is not", "!=") and {l, rr} == {"%s[%s]" % (bt, sink), "None"}))):
            r.violation(ap, ap.loc(t.ast), "a path is returned without the sink (vertex len(%s) - 1) having been reached" % AG, w)
        pname = prets[0].ast.value.id
        ins = [c for c in calls_in_func(ap, "insert") if call_name(c) == pname + ".insert"] + \
              [c for c in calls_in_func(ap, "append") if call_name(c) == pname + ".append"]
        wl_ = [x for x in func_own_nodes(ap) if isinstance(x, ast.While)]
        okp = len(ins) == 1 and len(wl_) == 1
        if okp:
            c = ins[0]
            edge = c.args[-1]
            wnode = acfg.find(lambda n: any(x is c for x in node_calls(n)))[0]
            cur = None
            if isinstance(edge, ast.Tuple) and len(edge.elts) == 2 and isinstance(edge.elts[1], ast.Name):
                cur = edge.elts[1].id
                okp = norm_plain(edge.elts[0]) == "bfs_tree[%s]" % cur or anorm.norm(wnode, edge.elts[0]) == "%s[%s]" % (bt, cur)
                # the path is consumed as a set of edges (min over it, one update per edge): where the edge is put in
                # the list does not matter, only that exactly this edge is put there
                okp = okp and len(c.args) == (2 if call_tail(c) == "insert" else 1) and not c.keywords
                # walk: cur starts at the sink, moves to its predecessor, stops at 0
                steps = [n for n in acfg.stmt_nodes() if n.kind == "stmt" and isinstance(n.ast, ast.Assign)
                         and [attr_path(t) for t in n.ast.targets] == [cur]]
                vals = sorted(anorm.norm(n, n.ast.value) for n in steps)
                okp = okp and vals == sorted([sink, "%s[%s]" % (bt, cur)])
                wt = Normaliser(Env(None, depth=0)).cmp(wl_[0].test, True)
                okp = okp and wt == ("!=", "0", cur)
            else:
                okp = False
        r.require(okp, ap, ap.loc(), "the path must be rebuilt from the sink len(%s) - 1 through the BFS predecessors down to "
                  "vertex 0, as edges (predecessor, vertex)" % AG)

        # ---- residual_network
        rn = idx.func(HU + ":residual_network")
        RG_, RF_ = first_positional_params(rn)[:2]
        ncfg = rn.cfg()
        nnorm = FlowNorm(rn)
        rr = [n for n in ncfg.find(is_return) if isinstance(n.ast.value, ast.Tuple) and len(n.ast.value.elts) == 2
              and all(isinstance(e, ast.Name) for e in n.ast.value.elts)]
        if len(rr) != 1:
            raise AnchorVanished("residual_network returns (graph, capacity)")
        ng, cf = [e.id for e in rr[0].ast.value.elts]
        nl = Flow(rn)
        for nm in (ng, cf):
            dn, v = nl.unique_def(rr[0], nm)
            r.site(rn, v, "residual table %s" % nm)
            r.require(v is not None and _distinct_rows(v), rn, rn.loc(v) if v is not None else rn.loc(),
                      "the rows of %s are not distinct objects" % nm)
        apps = [(n, c) for n in ncfg.stmt_nodes() for c in node_calls(n) if call_tail(c) == "append"
                and isinstance(c.func.value, ast.Subscript) and norm_plain(c.func.value.value) == ng]
        if len(apps) != 2:
            raise AnchorVanished("residual_network: two edge insertions")
        lps = [x for x in func_own_nodes(rn) if isinstance(x, ast.For)]
        outer = [l for l in lps if not enclosing_for(rn, l)]
        inner = [l for l in lps if enclosing_for(rn, l)]
        okl = len(outer) == 1 and len(inner) == 1 and norm_plain(outer[0].iter) == "range(len(%s))" % RG_ \
            and norm_plain(inner[0].iter) == "%s[%s]" % (RG_, norm_plain(outer[0].target))
        r.site(rn, outer[0] if outer else None, "edge loop")
        r.require(okl, rn, rn.loc(), "residual_network must visit every edge (i, v): for i in range(len(%s)): for v in %s[i]" % (RG_, RG_))
        if okl:
            i_, v_ = norm_plain(outer[0].target), norm_plain(inner[0].target)
            sat = "%s[%s][%s]" % (RF_, i_, v_)
            hin = iter_node(ncfg, inner[0])
            for (n, c) in apps:
                r.site(rn, c, "residual edge")
                frm, to = norm_plain(c.func.value.slice), norm_plain(c.args[0])
                if (frm, to) == (v_, i_):
                    want = lambda op, l, rr_: op == "==" and {l, rr_} == {"1", sat}
                    what = "a reverse edge is added for an edge that carries no flow"
                elif (frm, to) == (i_, v_):
                    want = lambda op, l, rr_: (op == "!=" and {l, rr_} == {"1", sat}) or (op == "==" and {l, rr_} == {"0", sat})
                    what = "a forward edge is kept although the edge is saturated"
                else:
                    r.violation(rn, rn.loc(c), "residual edge %s -> %s is neither the edge (%s, %s) nor its reverse" % (frm, to, i_, v_))
                    continue
                for (t, w) in find_path_avoiding(ncfg, lambda x, _n=n: x is _n, gate_edge=fact_gate(None, want),
                                                 kill=lambda x: x is hin):
                    r.violation(rn, rn.loc(t.ast), what, w)
            w = body_skips(ncfg, hin, lambda x: any(x is n for (n, _c) in apps))
            r.require(not w, rn, rn.loc(inner[0]), "an edge can vanish from the residual network")
            # capacities: +1 in the direction of the residual edge
            for (n, c) in apps:
                frm, to = norm_plain(c.func.value.slice), norm_plain(c.args[0])
                enc_if = [m for m in ncfg.stmt_nodes() if m.kind == "stmt" and isinstance(m.ast, ast.Assign)
                          and _nested_subscript(m.ast.targets[0]) and _nested_subscript(m.ast.targets[0])[0] == cf]
                same = [m for m in enc_if if _same_branch(rn, n.ast, m.ast)]
                got = {(norm_plain(_nested_subscript(m.ast.targets[0])[1]), norm_plain(_nested_subscript(m.ast.targets[0])[2])):
                       norm_plain(m.ast.value) for m in same}
                r.require(got.get((frm, to)) == "1", rn, rn.loc(c),
                          "residual capacity of the edge %s -> %s is %s, expected 1" % (frm, to, got.get((frm, to))))

    # ------------------------------------------------------------------ 4
    with ctx.rule("C08.4", "R1", "bfs discipline: a vertex is enqueued only under colour == WHITE and after it was "
                  "coloured and given its predecessor", expected=2) as r:
        bf = idx.func(HU + ":bfs")
        BG, BS = first_positional_params(bf)[:2]
        bcfg = bf.cfg()
        bnorm = FlowNorm(bf, keep=_subscript_stored(bf))
        pred = returned_name(bf)
        qs = [n for n in bcfg.stmt_nodes() if n.kind == "stmt" and isinstance(n.ast, ast.Assign)
              and isinstance(n.ast.value, ast.List) and [norm_plain(e) for e in n.ast.value.elts] == [BS]]
        if len(qs) != 1:
            raise AnchorVanished("bfs: queue = [s]")
        qn = attr_path(qs[0].ast.targets[0])
        enq = [(n, c) for n in bcfg.stmt_nodes() for c in node_calls(n)
               if call_name(c) in (qn + ".append", qn + ".insert", qn + ".extend", qn + ".appendleft")]
        if not enq:
            raise AnchorVanished("bfs: enqueue")
        lps = [x for x in func_own_nodes(bf) if isinstance(x, ast.For)]
        whl = [x for x in func_own_nodes(bf) if isinstance(x, ast.While)]
        deq = [(n, c) for n in bcfg.stmt_nodes() for c in node_calls(n) if call_name(c) in (qn + ".pop", qn + ".popleft")]
        r.site(bf, deq[0][1] if deq else None, "dequeue / adjacency")
        okq = len(deq) == 1 and len(lps) == 1 and len(whl) == 1 and isinstance(deq[0][0].ast, ast.Assign)
        cur = attr_path(deq[0][0].ast.targets[0]) if okq else None
        okq = okq and cur is not None and norm_plain(lps[0].iter) == "%s[%s]" % (BG, cur) \
            and Normaliser(Env(None, depth=0)).cmp(whl[0].test, True) == ("truth", qn, None)
        r.require(okq, bf, bf.loc(), "bfs must pop a vertex n while the queue is non-empty and scan %s[n]" % BG)
        # colour table and WHITE
        for (n, c) in enq:
            r.site(bf, c, "enqueue")
            v = norm_plain(c.args[-1]) if c.args else "?"
            # colour test
            colour = None
            white = None
            for t in bcfg.nodes:
                if t.kind == "test":
                    f = bnorm.edge_fact(t, ("T", t.ast))
                    if f and f[0] == "==":
                        for side, other in ((f[1], f[2]), (f[2], f[1])):
                            m_ = re.match(r"^(\w+)\[%s\]$" % re.escape(v), side or "")
                            if m_:
                                colour, white = m_.group(1), other
            if not r.require(colour is not None, bf, bf.loc(c), "vertex %s is enqueued without any colour test" % v):
                continue
            r.require(white == "0" or white == "WHITE", bf, bf.loc(c), "the colour compared with is %s, not WHITE" % white)
            init = Flow(bf).unique_def(qs[0], colour)[1]
            wname = None
            elt0 = _uniform_table(init, BG) if init is not None else None
            okw = elt0 is not None
            if okw:
                wname = bnorm.norm(qs[0], elt0)
                okw = wname == white
            r.require(okw, bf, bf.loc(init) if init is not None else bf.loc(),
                      "every vertex of %s must start WHITE (%s) in %s" % (BG, white, colour))
            gate = fact_gate(bnorm, lambda op, l, rr, _c=colour, _v=v, _w=white: op == "==" and {l, rr} == {"%s[%s]" % (_c, _v), _w})
            kill_v = lambda x, _v=v: (x.kind == "iter" and _v in node_stores(x))
            for (t, w) in find_path_avoiding(bcfg, lambda x, _n=n: x is _n, gate_edge=gate, kill=kill_v):
                r.violation(bf, bf.loc(t.ast), "vertex %s can be enqueued although it is not WHITE (a vertex could be visited "
                            "twice and its predecessor overwritten: the path walk may cycle)" % v, w)

            def recolours(x, _c=colour, _v=v, _w=white):
                if x.kind == "stmt" and isinstance(x.ast, ast.Assign) and len(x.ast.targets) == 1:
                    t = x.ast.targets[0]
                    return isinstance(t, ast.Subscript) and norm_plain(t.value) == _c and norm_plain(t.slice) == _v \
                        and bnorm.norm(x, x.ast.value) != _w
                return False

            def sets_pred(x, _v=v):
                if x.kind == "stmt" and isinstance(x.ast, ast.Assign) and len(x.ast.targets) == 1:
                    t = x.ast.targets[0]
                    return isinstance(t, ast.Subscript) and norm_plain(t.value) == pred and norm_plain(t.slice) == _v \
                        and norm_plain(x.ast.value) == cur
                return False
            for (what, g_) in (("coloured non-WHITE", recolours), ("given its predecessor %s[%s] = %s" % (pred, v, cur), sets_pred)):
                for (t, w) in find_path_avoiding(bcfg, lambda x, _n=n: x is _n, gate_node=g_, kill=kill_v):
                    r.violation(bf, bf.loc(t.ast), "vertex %s is enqueued without having been %s" % (v, what), w)
        # predecessor table
        pinit = Flow(bf).unique_def(qs[0], pred)[1]
        pelt = _uniform_table(pinit, BG) if pinit is not None else None
        r.require(isinstance(pelt, ast.Constant) and pelt.value is None, bf, bf.loc(),
                  "the predecessor table must start as None for every vertex (augmenting_path_for tests the sink's entry)")

    # ------------------------------------------------------------------ 5
    with ctx.rule("C08.5", "R9", "the share map is inverted faithfully: for each share and each of its servers "
                  "shares_by_server leaves the share in ret[server] on every way through the iteration, never replaces "
                  "the set a server may already have, records no other pair; no set object is put under two keys while "
                  "the held sets are changed in place (an object created outside the loop that stores it, "
                  "dict.fromkeys(.., <mutable>)) - sweep of happinessutil and the Edmonds-Karp helpers", expected=2) as r:
        sb = idx.func(HZ + ":shares_by_server")
        SBM = first_positional_params(sb)[0]
        out = returned_name(sb)
        outer, inner, K, V = _inversion_loops(sb, SBM)
        scfg = sb.cfg()
        head = iter_node(scfg, inner)
        r.site(sb, inner, "one (share, server) pair per iteration")
        pr = PairRecord(sb, out, K, V, head=head)
        r.count(len(scfg.nodes))
        for c in pr.ops.values():
            r.site(sb, c, "recording step")
        for w in pr.unrecorded[:1]:
            r.violation(sb, sb.loc(inner), "shares_by_server: an iteration for (%s, %s) can end without %s in %s[%s]: an edge of "
                        "the server/share graph is lost and the happiness value can come out too low (path: %s)" % (
                            V, K, V, out, K, w.brief()), w)
        for (n, w, fresh) in pr.clobbers:
            r.violation(sb, sb.loc(n.ast), "shares_by_server: %s replaces the set of shares of %s although %s may already have "
                        "one: the shares recorded for it before are lost" % (src(sb, n.ast), K, K), w)
        for (n, what) in pr.foreign.values():
            r.violation(sb, sb.loc(n.ast), "shares_by_server: %s - not the pair (%s, %s) of this iteration: the graph gets an "
                        "edge the share map does not have" % (what, K, V))
        rets = [n for n in scfg.find(is_return)]
        for (t, w) in find_path_avoiding(scfg, lambda x: any(x is y for y in rets),
                                         gate_edge=lambda x, lab: lab == "done" and x.kind == "iter" and x.ast is outer):
            r.violation(sb, sb.loc(t.ast), "shares_by_server returns before every share of the map was visited", w)
        # every key has its own set object
        helpers = {HU_MOD + ":" + q for q in ("bfs", "residual_network", "augmenting_path_for", "_compute_maximum_graph")}
        total = 0
        for f in idx.funcs.values():
            if isinstance(f.node, ast.Lambda):
                continue
            if not (f.module.name == HZ_MOD or f.qual in helpers):
                continue
            cfg2 = f.cfg()
            rd2 = C.reaching_defs(cfg2)
            reach = cfg2.reachable_nodes()
            for n in cfg2.stmt_nodes():
                if n.id not in reach:
                    continue
                for (name, how, cpath) in escaping_stores2(n):
                    cr = creators_of(cfg2, rd2, n, name)
                    if not cr or not on_cycle(cfg2, n):
                        continue
                    total += 1
                    r.site(f, n.ast, "%s -> %s" % (name, how))
                    if r9_alias(f, r, n, name, how, cr):
                        shared_slots(f, r, n, name, how, cpath, cr)
            for (n, cpath, v, muts) in fromkeys_shared(f):
                r.violation(f, f.loc(n.ast), "shared slot object: dict.fromkeys(.., %s) puts ONE object under every key of %s, and "
                            "the objects held by %s are changed in place at line %s: a share added for one server shows on "
                            "all of them" % (src(f, v), cpath, cpath, ",".join(str(m.lineno) for m in muts)))
        ctx.note("C08.5: %d insertions of locally created containers inside loops examined" % total)

    # ------------------------------------------------------------------ 6
    with ctx.rule("C08.6", "R2", "the happiness value is a function of the share map's current contents: in no function of "
                  "the computation (servers_of_happiness, shares_by_server, _flow_network_for, _reindex, residual_network, "
                  "augmenting_path_for, bfs) does state that outlives the call - a module-level name re-bound through "
                  "`global`, a module-level container or function/class attribute changed from inside a function with "
                  "values that depend on the arguments, a mutable default argument changed in place - reach a branch, a "
                  "returned value or an argument of another function of the computation", expected=7) as r:
        no_persistent_state_rule(r, idx, [idx.func(HZ + ":servers_of_happiness")], "happiness value")

    # ------------------------------------------------------------------ 7
    with ctx.rule("C08.7", "R5", "the flow table is always a flow: created zero (rule 2), it is written by nothing but the "
                  "augmentation pair along an augmenting path - no function it is handed to, no alias, no row object taken "
                  "from it stores into it, neither in the function that holds the loop nor in the copy that gets the table "
                  "back from it (both copies; interprocedural who-writes analysis)", expected=4) as r0:
        for (copy, L, r) in _loci(idx, r0):
            ek_confinement_rule(r, L.fn, "Edmonds-Karp copy %s" % copy.qual.split(":", 1)[1], idx)
            if L.direct:
                continue
            # the table comes back to the copy: nothing there may store into it either
            forced = {(L.callnode.id, nm): 2 for (nm, ro) in L.names.items() if ro == "flow"}
            if not forced:
                continue
            tu = TableUse(idx)
            s = tu.analyse(copy, forced=forced, root=True)
            r0.count(s.states)
            seen = set()
            for (wf, wn, wt) in s.writes:
                if id(wn) in seen:
                    continue
                seen.add(id(wn))
                r0.violation(copy, copy.loc(wn), "%s: the flow table returned by %s is changed after the maximum flow was "
                             "found: %s. The happiness value is read from this table, so it no longer is the value of the flow" % (
                                 short(copy), short(L.fn), wt))
            if s.unknown and not s.writes:
                raise AnalysisError("%s: cannot decide who may change the flow table returned by %s: %s" % (
                    copy.qual, short(L.fn), "; ".join("%s (line %s)" % (t, getattr(n_, "lineno", "?")) for (_f, n_, t) in s.unknown[:3])))


def _origin_at_def(fl, use_node, via_name, x):
    """Origin of name x as seen where `via_name` was defined (or at use_node)."""
    if via_name is not None:
        dn, _v = fl.unique_def(use_node, via_name.id)
        if dn is not None:
            return fl.origin(dn, x)
    return fl.origin(use_node, x)


def _same_branch(fn, a, b) -> bool:
    """Two simple statements of fn sit in the same statement list."""
    def lists(stmts):
        yield stmts
        for st in stmts:
            for field in ("body", "orelse", "finalbody"):
                sub = getattr(st, field, None)
                if isinstance(sub, list) and sub and isinstance(sub[0], ast.stmt):
                    for l in lists(sub):
                        yield l
    for l in lists(fn.body):
        if any(s is a for s in l) and any(s is b for s in l):
            return True
    return False
