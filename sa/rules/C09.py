"""C09 Mutable files read back what one writer wrote.

Decided: the structural agreement between the code that lays a mutable share
out (Publish, SDMF/MDMF write proxies) and the code that reads it back
(Retrieve, MDMFSlotReadProxy): encoding-parameter formulas, on-disk tables,
section extents, tail-segment selection and the trim rule (DESIGN.md section 5,
C09); and, by bounded evaluation of the functions' own statements, the segment
ranges, the head/tail trimming of ranged reads and the byte-level stitching of
an in-place update."""
from sa.h import *
import copy
import struct
from sa.cfg import reaching_defs

EXPLANATION = (
    "Decided (structural agreement writer <-> reader): (1) R6 the segment count, tail-segment size, block size and "
    "tail-block size are computed by the same formulas (after mapping each side's names for data length D, "
    "segment size S, k) in Publish.setup_encoding_parameters, Retrieve._setup_encoding_parameters, "
    "MDMFSlotWriteProxy.__init__ and MDMFSlotReadProxy._process_encoding_parameters; the tail size falls back to S "
    "exactly when D % S is zero; the verinfo positions the reader takes S, D, k, N from are the positions every "
    "verinfo producer puts them in; the writer-proxy constructor receives Publish's S, D, k, N in its own parameter "
    "order; (2) R5 MDMF header: checkstring + encoding parameters written by the write proxy have the field "
    "formats, field roles and offsets that the read proxy unpacks; the signed prefix is the same field list on "
    "both sides; the offset table is packed in the key order it is unpacked in, at the offset it is read from; "
    "(3) R5 SDMF: signed prefix and offset table (key order, position, piece order of the joined share) agree "
    "between SDMFSlotWriteProxy and the read proxy's version-0 branches; (4) R5 every share section is read from "
    "the (start, end) offset keys between which the writer placed it, per format version; the MDMF block offset "
    "formula and the salt||block order agree; (5) the tail segment is selected by the same predicate on both sides "
    "and the decoded segment is trimmed to the tail data size for the last segment and to S otherwise before "
    "decryption and delivery; (6) the in-place update takes S, D and the SDMF salt from the same verinfo positions "
    "and computes the start segment with the same formula as Publish; (7) Publish.update lays the patched file out "
    "for the data length of the version whose shares it patches (the verinfo it is given), not for a cached node "
    "size; (8) segment ranges, decided by evaluating the functions' own statements (CFG interpreter over ints, no "
    "package code is imported or run; pyutil.mathutil div_ceil/next_multiple are modelled by their definitions) on "
    "boundary inputs - sizes and offsets 0, 1, 2, S/2, mS-1, mS, mS+1 (m = 1..4), 2S+777, 3S+500, S = 131073 (k=3) and "
    "131072 (k=4): Publish.setup_encoding_parameters pushes exactly the segments offset // S .. div_ceil(E, S) - 1 "
    "that hold the bytes the uploadable supplies (E = data.get_size(), also E = D for a full publish and SDMF), and "
    "Retrieve._setup_encoding_parameters fetches exactly the segments of [offset, offset + size); (9) "
    "MutableFileVersion._update -> _do_update_update asks the servermap update for the old segments "
    "(offset // S, (offset + len - 1) // S) that Publish pushes first and last whenever the write ends before the "
    "old end of file (writes of len >= 1); (10) Retrieve._decode_blocks gives the decoder blocks and share numbers "
    "that are the same positional selection (same slices, no reordering of one list by value) of one iteration over "
    "the (shnum, block) pairs, so the result does not depend on the order the servers answered in, and the tail "
    "decoder is used exactly for the last segment; (11) every old segment the update asks for exists in the version "
    "being updated (FINDING on the unmodified tree: an append at offset == size where size is 0 or a multiple of S "
    "asks for segment number num_segments); (7, evaluated) Publish.update lays the file out for max(old length, "
    "end of the written range) and starts its push loop (_current_segment) at the first segment of the range; "
    "(10) the decoder's blocks are the first and the decryption salt the second component of the "
    "{shnum: (block, salt)} answers (shape inference over the function's CFG); the read proxy fills the verinfo salt "
    "slot with the salt exactly for SDMF shares; (12) Retrieve._set_segment gives the consumer exactly the bytes of "
    "[offset, offset + size) that lie in the segment and advances to the next segment (evaluated with abstract byte "
    "strings over boundary reads, first / middle / last segment); (13) TransformingUploadable(__init__, get_size, "
    "read) hands Publish, segment by segment, old head bytes of the start segment + new data + old tail bytes of the "
    "end segment, i.e. exactly the new file contents (evaluated over boundary offsets / lengths / file sizes, writes "
    "of length >= 1, inside, up to and beyond the old end of file); (14) the fetched old start segment, old end "
    "segment and old block hash tree keep their roles from update_range through the get_block_and_salt order, the "
    "update_data tuple, the per-role decode (with the segment numbers _do_update_update recorded), the gatherResults "
    "order, to TransformingUploadable(start, end) and Publish.update(blockhashes); (15) every function on the "
    "write / update / modify / read path returns the Deferred of the work it started (never None or falling off the "
    "end), _update sends every update either to the re-encode path or to the in-place chain fetch -> decode -> "
    "build-and-publish with (data, offset); the modify loop runs _modify_once behind its servermap update, waits "
    "for its upload, uploads the modifier's result, and skips the upload only where the result was found None or "
    "equal to the old contents; Retrieve.decode (update path) decrypts what it decodes; (16) MDMFSlotWriteProxy places "
    "the block hash tree behind the last salt||block (evaluated __init__ + put_block); (17) the share writers' "
    "remote call carries, under the writer's share number, the queued data vectors (self._writevs / the joined SDMF "
    "share) on every path; (18) Retrieve.download starts the download for exactly [offset, offset + size) "
    "(size=None: up to the end of file; reads of >= 1 byte are never short-circuited) and _start_download records "
    "that range before the segment range is computed (evaluated); (19) the sizes the in-place update compares the "
    "written range with are the size of the version being updated: MutableFileVersion.get_size() evaluates to the "
    "data-length slot of self._version, and the calls _update makes (_do_modify_update or "
    "_update_servermap(update_range=...)) and the segment numbers it records are the same whatever the filenode's "
    "cached size (MutableFileNode.get_size() / _most_recent_size, which update() / modify() do not refresh) is - "
    "evaluated for an accurate and for stale cached sizes on either side of each threshold. "
    "(20) freshness of what a read is served from: the data-flow provenance (through local assignments, Deferred callback "
    "chains, resolved method / nested-function calls with parameter substitution, functions that call a callable they are "
    "given such as _do_serialized, tuples, derived objects; branch conditions are not data flow) of the value that "
    "get_best_readable_version / get_readable_version / download_best_version / get_size_of_best_version / download_version / "
    "get_best_mutable_version / get_mutable_version fire with, and of what MutableFileVersion.read / download_to_data hand to "
    "Retrieve, is followed back to its leaves; it must reach the ServerMap() / ServermapUpdater of a mapupdate made for the "
    "request (else analysis error), and every MutableFileNode attribute among the leaves that is assigned anywhere in "
    "allmydata.mutable outside __init__ / init_from_cap / create_with_keys (a remembered servermap with its cached share "
    "proxies, a remembered version object, remembered contents) must be forgotten - set to a constant / emptied, directly or "
    "through a called method - by a callback registered BEHIND every Publish(..).publish() and Publish(..).update() started in "
    "mutable/filenode.py, on the same Deferred, in the starting function or in every chain of callers / registrants up to a "
    "public method (so a drop registered before the publish joins the chain, or only on the full-publish hooks and not on the "
    "in-place path _build_uploadable_and_finish, is reported); on the unmodified tree no such attribute exists (reads are "
    "served from the caller's servermap or from a fresh mapupdate; the leaves are the construction-time _storage_index, "
    "_readkey, _writekey, _storage_broker, _secret_holder, _history). "
    "Undecided: block-hash-tree patching in Publish.update (old leaves kept, new leaves set), zfec and AES algebra, "
    "zero-length updates, sizes beyond 4 segments for the evaluated ranges (the arithmetic has no size-dependent "
    "branch other than the ones the grid crosses), whether the condition under which the proxies' tail block size "
    "falls back to the full block size is D % S == 0 (only the two formulas are compared; a wrong condition makes "
    "put_block / the block hash check fail loudly for every file that is not a multiple of S), test vectors and "
    "checkstrings (C12), share placement, pause / stop handling, status and timing bookkeeping; for (20): state remembered "
    "outside the filenode object (a cache inside ServerMap / ServermapUpdater / the storage client, module globals), whether a "
    "forgetting callback also runs when the publish fails, and whether the forgetting call inside a function is conditional.")
TECHNIQUE = ("static analysis: polynomial normal forms of the size/offset formulas compared across writer and reader, "
             "folded struct format tables with field-role sequences, version-dominated CFG branches, bounded concrete "
             "evaluation (CFG interpreter over ints, dicts and abstract byte strings; nothing of the package is "
             "imported or run) of the segment-range, trimming, stitching and share-layout arithmetic over boundary "
             "inputs, order provenance of the decoder's two input sequences, shape inference for answer components, "
             "positional role tracking across the update-data hand-offs, return-value provenance of Deferreds, "
             "differential evaluation (same inputs, different cached node size) of the update's decisions, interprocedural "
             "value provenance along Deferred chains with must-follow of a state-dropping callback behind every publish start")

LAY = "mutable.layout"
WP = LAY + ":MDMFSlotWriteProxy"
RP = LAY + ":MDMFSlotReadProxy"
SW = LAY + ":SDMFSlotWriteProxy"
PUB = "mutable.publish:Publish"
RET = "mutable.retrieve:Retrieve"
SMU = "mutable.servermap:ServermapUpdater"
MFV = "mutable.filenode:MutableFileVersion"


# --------------------------------------------------------------------- helpers
def _canon(s, table):
    """Map each side's own names for D/S/K/N onto the shared symbols (applied to normal forms only)."""
    s = re.sub(r"\bmathutil\.", "", s)
    for a, sym in sorted(table, key=lambda x: -len(x[0])):
        s = re.sub(r"(?<![\w.\]'\"])%s(?![\w\[(.])" % re.escape(a), sym, s)
    return s


def _subst(expr, pred, repl):
    """Copy of expr with every sub-expression satisfying pred replaced by a copy of repl."""
    class T(ast.NodeTransformer):
        def visit(self, node):
            if pred(node):
                return copy.deepcopy(repl)
            return self.generic_visit(node)
    return T().visit(copy.deepcopy(expr))


def _reaches_exit(cfg, start, stop):
    def tr(n, lab, nxt, st):
        if lab == "exc":
            return None
        if n is not start and stop(n):
            return None
        return 0
    visited, _ = explore(cfg, 0, tr, start=start)
    return any(cfg.nodes[i].kind == "exit" for (i, _s) in visited)


def _prev_stores(cfg, node, path):
    seen, out, work = set(), [], [node.id]
    while work:
        x = work.pop()
        for (s, lab) in cfg.pred[x]:
            if s in seen:
                continue
            seen.add(s)
            m = cfg.nodes[s]
            if path in node_stores(m):
                out.append(m)
            else:
                work.append(s)
    return out


def _expand(fnorm, node, v, path):
    """Resolve a store's right-hand side far enough to compare formulas: an `attr = f(attr)` update is composed
    with the single preceding store of the attribute, and a local with several reaching definitions of which
    exactly one is not a constant is replaced by that definition."""
    cfg = fnorm.cfg
    if path is not None and any(isinstance(x, ast.Attribute) and attr_path(x) == path for x in ast.walk(v)):
        prev = _prev_stores(cfg, node, path)
        if len(prev) == 1 and assign_value(prev[0], path) is not None:
            pv = _expand(fnorm, prev[0], assign_value(prev[0], path), None)
            v = _subst(v, lambda x: isinstance(x, ast.Attribute) and attr_path(x) == path, pv)
    env = fnorm.env_at(node)
    here = fnorm.rd.get(node.id, {})
    for _round in range(6):      # locals with one reaching definition, so that the names inside them are visible
        nms = {x.id for x in ast.walk(v) if isinstance(x, ast.Name) and isinstance(x.ctx, ast.Load) and x.id in env.defs}
        if not nms:
            break
        for nm in nms:
            v = _subst(v, lambda x, _n=nm: isinstance(x, ast.Name) and x.id == _n, env.defs[nm])
    for nm in {x.id for x in ast.walk(v) if isinstance(x, ast.Name)}:
        ds = here.get(nm)
        if nm in env.defs or not ds or len(ds) < 2:
            continue
        vals = []
        for d in ds:
            if d < 0:
                vals = None
                break
            dv = fnorm._def_value(cfg.nodes[d], nm)
            if dv is None:
                vals = None
                break
            vals.append((cfg.nodes[d], dv))
        if not vals:
            continue
        nonconst = [(dn, dv) for (dn, dv) in vals if not isinstance(dv, ast.Constant)]
        if len(nonconst) == 1:
            dn, dv = nonconst[0]
            # substitute in the defining node's own environment
            inner = fnorm.env_at(dn).defs
            for k2, v2 in inner.items():
                dv = _subst(dv, lambda x, _k=k2: isinstance(x, ast.Name) and x.id == _k, v2)
            v = _subst(v, lambda x, _n=nm: isinstance(x, ast.Name) and x.id == _n, dv)
    return v


def _attr_forms(fn, fnorm, path, table):
    """[(node, canonical form, reaches-exit)] for every store to the attribute `path` in fn."""
    cfg = fn.cfg()
    out = []
    for n in cfg.nodes:
        if path not in node_stores(n):
            continue
        v = assign_value(n, path)
        final = _reaches_exit(cfg, n, lambda m: path in node_stores(m))
        if v is None:
            form = "<non-assignment store %s>" % src(fn, n.ast)
        else:
            form = _canon(fnorm.norm(n, _expand(fnorm, n, v, path)), table)
        out.append((n, form, final))
    if not out:
        raise AnchorVanished("%s no longer stores %s" % (short(fn), path))
    return out


def _is_const_form(s):
    return re.match(r"^-?\d+$", s) is not None


def _fold_at(idx, fn, fnorm, node, e):
    """Constant value of e at node: module/class constants plus locals with one reaching constant definition."""
    folder = get_folder(idx)
    defs = fnorm.env_at(node).defs

    class L(dict):
        def __bool__(self):
            return True

        def __contains__(self, k):
            return k in defs

        def __getitem__(self, k):
            return folder.fold(defs[k], fn.module, fn.cls, self)
    return folder.fold(e, fn.module, fn.cls, L())


def _node_of(fn, sub):
    for n in fn.cfg().nodes:
        for e in node_exprs(n):
            if any(x is sub for x in ast.walk(e)):
                return n
    raise AnalysisError("expression not found in the CFG of %s" % short(fn))


def _struct_calls(fn, kind):
    """[(cfg node, call)] of struct.pack / struct.unpack in fn (not in nested defs)."""
    out = []
    for n in fn.cfg().nodes:
        for c in node_calls(n):
            if call_tail(c) == kind and call_name(c) in ("struct." + kind, kind):
                out.append((n, c))
    return out


def _fields(fmt):
    return [f for f in struct_fields(fmt)]


def _version_const(idx, fn, s):
    if s in ("0", "1"):
        return int(s)
    if re.match(r"^\w+$", s):
        try:
            v = get_folder(idx).name(s, fn.module, None)
        except NotConstant:
            return None
        return v if v in (0, 1) else None
    return None


_VERVAR = re.compile(r"^(self\._version_number|struct\.unpack\('>B', .*\)\[0\])$")


def _edge_version(idx, fn, fnorm, n, lab):
    """0 / 1 when the edge establishes the share's format version, else None (only versions 0 and 1 pass
    _process_encoding_parameters, so `!= v` means the other one)."""
    f = fnorm.edge_fact(n, lab)
    if not f or f[0] not in ("==", "!="):
        return None
    for var, other in ((f[1], f[2]), (f[2], f[1])):
        if var is not None and other is not None and _VERVAR.match(var):
            c = _version_const(idx, fn, other)
            if c is not None:
                return c if f[0] == "==" else 1 - c
    return None


def _node_version(idx, fn, fnorm, node):
    """The version under which `node` is reached on every path, or None."""
    cfg = fn.cfg()
    for v in (0, 1):
        bad = find_path_avoiding(cfg, lambda x: x is node,
                                 gate_edge=lambda n, lab, _v=v: _edge_version(idx, fn, fnorm, n, lab) == _v)
        if not bad:
            return v
    return None


def _role(fn, e):
    """Role name of a packed value: the attribute (or constant-keyed piece) it is taken from."""
    if isinstance(e, ast.Constant):
        return "const:%r" % (e.value,)
    if isinstance(e, (ast.Attribute, ast.Subscript)):
        return norm_plain(e)
    deps = sorted(d for d in depends_on(fn, e) if d.startswith("self.") and d.count(".") == 1)
    if len(deps) == 1:
        return deps[0]
    return "?" + norm_plain(e)


# writer-side role -> the read proxy attribute holding the same field
W2R = {
    "self._seqnum": "self._sequence_number",
    "self._root_hash": "self._root_hash",
    "self._share_pieces['root_hash']": "self._root_hash",
    "self._share_pieces['salt']": "self._salt",
    "self._required_shares": "self._required_shares",
    "self._total_shares": "self._total_shares",
    "self._segment_size": "self._segment_size",
    "self._data_length": "self._data_length",
}


def _writer_constructions(idx, fn, writer_classes):
    """[(call, [ClassInfo])]: the calls in `fn` that build a share write proxy - a call of a local every reaching
    definition of which binds it to a write-proxy class (the class selection), or a call of such a class itself.
    The local is identified by that role (how it is bound and used), not by its name."""
    cfg = fn.cfg()
    rd = reaching_defs(cfg)

    def proxy(ci):
        return isinstance(ci, ClassInfo) and any(c is w for c in ci.mro() for w in writer_classes)
    out = []
    for n in cfg.nodes:
        for c in node_calls(n):
            if not isinstance(c.func, ast.Name):
                continue
            ds = rd.get(n.id, {}).get(c.func.id)
            if not ds:
                ci = idx.resolve_expr(fn.module, c.func)
                if proxy(ci):
                    out.append((c, [ci]))
                continue
            bound = []
            for d in sorted(ds):
                v = assign_value(cfg.nodes[d], c.func.id) if d >= 0 else None
                for _hop in range(4):           # class selection copied through plain names
                    if not (isinstance(v, ast.Name) and d >= 0):
                        break
                    ds2 = rd.get(d, {}).get(v.id)
                    if not ds2 or len(ds2) != 1 or min(ds2) < 0:
                        break
                    d = min(ds2)
                    v = assign_value(cfg.nodes[d], v.id)
                bound.append((v, idx.resolve_expr(fn.module, v) if v is not None else None))
            if not any(proxy(ci) for (_v, ci) in bound):
                continue
            for (v, ci) in bound:
                if not proxy(ci):
                    raise AnalysisError("%s: the class the share writers are built from may be %s" % (
                        fn.loc(c), src(fn, v) if v is not None else "an argument"))
            classes = []
            for (_v, ci) in bound:
                if not any(ci is x for x in classes):
                    classes.append(ci)
            out.append((c, classes))
    return out


def _verinfo_positions(idx, r):
    """Positions of S, D, k, N (and the salt) in the 9-tuple built by each verinfo producer; they must agree."""
    prods = [(RP + ".get_verinfo._build_verinfo", {"self._segment_size": "S", "self._data_length": "D",
                                                    "self._required_shares": "K", "self._total_shares": "N"}),
             (WP + ".get_verinfo", {"self._segment_size": "S", "self._data_length": "D",
                                    "self._required_shares": "K", "self._total_shares": "N"}),
             (SW + ".get_verinfo", {"self._segment_size": "S", "self._data_length": "D",
                                    "self._required_shares": "K", "self._total_shares": "N"})]
    pos = None
    for q, roles in prods:
        fn = idx.func(q)
        rets = [n for n in fn.cfg().nodes if is_return(n) and isinstance(n.ast.value, ast.Tuple)]
        if len(rets) != 1:
            raise AnchorVanished("%s no longer returns one verinfo tuple" % q)
        elts = rets[0].ast.value.elts
        r.site(fn, rets[0].ast, "verinfo producer")
        here = {}
        for i, e in enumerate(elts):
            p = attr_path(e)
            if p in roles:
                here[roles[p]] = i
        here["len"] = len(elts)
        if pos is None:
            pos = here
        r.require(here == pos, fn, fn.loc(rets[0].ast),
                  "verinfo built by %s puts (segsize, datalength, k, N) at %s, the read proxy puts them at %s" % (
                      short(fn), {k: v for k, v in sorted(here.items())}, {k: v for k, v in sorted(pos.items())}))
    # the servermap re-packs the tuple: must be the identity permutation
    fn = idx.func(SMU + "._make_verinfo_hashable")
    fnorm = FlowNorm(fn)
    par = first_positional_params(fn)[0]
    for n in fn.cfg().nodes:
        if is_return(n):
            v = fnorm.resolve(n, n.ast.value)
            r.site(fn, n.ast, "verinfo re-pack")
            ok = isinstance(v, ast.Tuple) and len(v.elts) == pos["len"]
            if ok:
                at = _node_of(fn, v)     # normalise where the tuple is built (the parameter is re-bound later)
                for i, e in enumerate(v.elts[:-1]):
                    ok = ok and fnorm.norm(at, e) == "%s[%d]" % (par, i)
            r.require(ok, fn, fn.loc(n.ast), "_make_verinfo_hashable does not keep the verinfo fields in place: %s" % (
                fnorm.norm(n, n.ast.value)))
    for k in ("S", "D", "K", "N"):
        if k not in pos:
            raise AnchorVanished("read proxy verinfo no longer carries %s" % k)
    return pos


# ------------------------------------------------------------------------ run
def run(ctx: Context):
    idx = ctx.idx
    folder = get_folder(idx)
    # results of earlier rules that later rules build on (a rule that stopped with an analysis error leaves None)
    pos = T_PUB = disk = tabs = prefix = sdmf_extent = lay = rpe = po = None

    def _need(what, *vals):
        if any(v is None for v in vals):
            raise AnalysisError("depends on %s, which could not be analysed" % what)

    # ---- 1. formulas -------------------------------------------------------
    with ctx.rule("C09.1", "R6", "segment count, tail size, block size and tail-block size are the same formulas of "
                  "(D, S, k) in Publish, Retrieve and the two MDMF proxies; S, D, k, N travel through the writer "
                  "constructor and the verinfo tuple in agreeing positions", expected=23) as r:
        pos = _verinfo_positions(idx, r)
        pub = idx.func(PUB + ".setup_encoding_parameters")
        ret = idx.func(RET + "._setup_encoding_parameters")
        wpi = idx.func(WP + ".__init__")
        rpe = idx.func(RP + "._process_encoding_parameters")
        T_PUB = [("self.datalength", "D"), ("self.segment_size", "S"), ("self.required_shares", "K"),
                 ("self.total_shares", "N")]
        # Publish's locals are named by the attribute they are stored into (self.segment_size = <local>), whatever
        # they are called
        for n in pub.cfg().nodes:
            if n.kind == "stmt" and isinstance(n.ast, ast.Assign) and isinstance(n.ast.value, ast.Name):
                for t in n.ast.targets:
                    sym = dict(T_PUB[:4]).get(attr_path(t))
                    if sym and (n.ast.value.id, sym) not in T_PUB:
                        T_PUB.append((n.ast.value.id, sym))
        T_RET = [("self.verinfo[%d]" % pos["D"], "D"), ("self.verinfo[%d]" % pos["S"], "S"),
                 ("self.verinfo[%d]" % pos["K"], "K"), ("self.verinfo[%d]" % pos["N"], "N"),
                 ("self._segment_size", "S"), ("self._required_shares", "K"), ("self._total_shares", "N"),
                 ("self._data_length", "D")]
        T_PROXY = [("self._data_length", "D"), ("self._segment_size", "S"), ("self._required_shares", "K"),
                   ("self._total_shares", "N")]
        # the read proxy's locals are named by the attribute they are stored into
        T_RP = list(T_PROXY)
        for n in rpe.cfg().nodes:
            if n.kind == "stmt" and isinstance(n.ast, ast.Assign) and isinstance(n.ast.value, ast.Name):
                for t in n.ast.targets:
                    p = attr_path(t)
                    sym = dict(T_PROXY).get(p)
                    if sym:
                        T_RP.append((n.ast.value.id, sym))
        rpn = FlowNorm(rpe, depth=8)
        byname = dict((a, b) for (a, b) in T_RP if "." not in a)
        for (n, c) in _struct_calls(rpe, "unpack"):
            if isinstance(n.ast, ast.Assign) and isinstance(n.ast.targets[0], ast.Tuple):
                for i, t in enumerate(n.ast.targets[0].elts):
                    if isinstance(t, ast.Name) and t.id in byname:
                        T_RP.append((rpn.norm(n, ast.Subscript(value=n.ast.value, slice=ast.Constant(value=i),
                                                               ctx=ast.Load())), byname[t.id]))
        fns = {"pub": (pub, FlowNorm(pub, depth=8), T_PUB), "ret": (ret, FlowNorm(ret, depth=8), T_RET),
               "wp": (wpi, FlowNorm(wpi, depth=8), T_PROXY), "rp": (rpe, FlowNorm(rpe, depth=8), T_RP)}

        # Retrieve's own copies of S, k, N, D are the verinfo fields
        for attr, sym in (("self._segment_size", "S"), ("self._required_shares", "K"), ("self._total_shares", "N")):
            for (n, form, final) in _attr_forms(ret, fns["ret"][1], attr, T_RET):
                r.site(ret, n.ast, attr)
                r.require(form == sym, ret, ret.loc(n.ast), "Retrieve takes %s from %s, which is not where the "
                          "verinfo producers put it" % (attr, src(ret, n.ast.value)))
        ri = idx.func(RET + ".__init__")
        for (n, form, final) in _attr_forms(ri, FlowNorm(ri), "self._data_length", T_RET):
            r.site(ri, n.ast, "self._data_length")
            r.require(form == "D", ri, ri.loc(n.ast), "Retrieve takes the data length from %s, not from the "
                      "verinfo data-length field" % src(ri, n.ast.value))

        def role(label, where, allowed_const, required, optional=()):
            """Non-constant final values of the attribute must be exactly `required` (+ optional)."""
            for key, attr in where:
                fn, fnorm, table = fns[key]
                forms = _attr_forms(fn, fnorm, attr, table)
                finals = {f for (n, f, fin) in forms if fin}
                nonconst = {f for f in finals if not _is_const_form(f)}
                consts = {int(f) for f in finals if _is_const_form(f)}
                r.site(fn, forms[0][0].ast, "%s %s" % (label, attr))
                r.sample({"role": label, "in": short(fn), "forms": sorted(finals)})
                want = set(required)
                ok = want <= nonconst and nonconst <= want | set(optional)
                r.require(ok, fn, fn.loc(forms[0][0].ast),
                          "%s: %s is computed as %s in %s; the other side of the share format computes %s" % (
                              label, attr, sorted(nonconst), short(fn), sorted(want)))
                r.require(consts <= set(allowed_const), fn, fn.loc(forms[0][0].ast),
                          "%s: %s may be the constant %s in %s" % (label, attr, sorted(consts - set(allowed_const)),
                                                                    short(fn)))

        role("segment count", [("pub", "self.num_segments"), ("ret", "self._num_segments"),
                               ("wp", "self._num_segments")], {0}, {norm_src("div_ceil(D, S)")})
        role("segment count", [("rp", "self._num_segments")], {0, 1}, {norm_src("div_ceil(D, S)")})
        role("tail data size", [("pub", "self.tail_segment_size"), ("ret", "self._tail_data_size")], {0},
             {norm_src("D % S"), "S"})
        role("block size", [("wp", "self._block_size"), ("rp", "self._block_size")], set(), {norm_src("S // K")})
        role("tail block size", [("wp", "self._tail_block_size"), ("rp", "self._tail_block_size")], set(),
             {"self._block_size", norm_src("next_multiple(D % S, K) // K")})

        # tail size falls back to S exactly when D % S == 0
        for key, attr in (("pub", "self.tail_segment_size"), ("ret", "self._tail_data_size")):
            fn, fnorm, table = fns[key]
            cfg = fn.cfg()

            def zero(n, lab, _f=fnorm, _a=attr):
                f = _f.edge_fact(n, lab)
                return bool(f) and (f == ("==", "0", _a) or f == ("false", _a, None))

            def nonzero_or_empty(n, lab, _f=fnorm, _a=attr, _t=table):
                f = _f.edge_fact(n, lab)
                if not f:
                    return False
                if f == ("!=", "0", _a) or f == ("truth", _a, None):
                    return True
                return f[0] == "false" and _canon(f[1], _t) in ("S", "D")   # empty file: no tail at all
            fb = [n for n in cfg.nodes if attr in node_stores(n) and assign_value(n, attr) is not None
                  and _canon(fnorm.norm(n, assign_value(n, attr)), table) == "S"]
            for n in fb:
                r.site(fn, n.ast, "tail fallback")
            for (n, w) in find_path_avoiding(cfg, lambda x: x in fb, gate_edge=zero,
                                             kill=lambda m: attr in node_stores(m)):
                r.violation(fn, fn.loc(n.ast), "%s is overwritten with the full segment size on a path where the "
                            "remainder D %% S was not found to be zero (path: %s)" % (attr, w.brief()), w)
            for (n, w) in find_path_avoiding(cfg, lambda x: x.kind == "exit", gate_node=lambda x: x in fb,
                                             gate_edge=nonzero_or_empty, skip_exc_edges=True):
                r.violation(fn, fn.loc(), "%s can stay 0 for a file whose length is a multiple of the segment size "
                            "(path: %s)" % (attr, w.brief()), w)

        # Publish hands S, D, k, N to the write proxies in the proxies' own parameter order
        for wq in (PUB + ".publish", PUB + ".update"):
            wfn = idx.func(wq)
            built = _writer_constructions(idx, wfn, [idx.cls(WP), idx.cls(SW)])
            if not built:
                raise AnchorVanished("%s no longer builds its writers from a write-proxy class" % wq)
            for (c, classes) in built:
                for ci in sorted(classes, key=lambda x: x.qual):
                    init = ci.lookup("__init__")
                    ps = first_positional_params(init)
                    stored = {}
                    for n in init.cfg().nodes:
                        if n.kind == "stmt" and isinstance(n.ast, ast.Assign) and isinstance(n.ast.value, ast.Name):
                            for t in n.ast.targets:
                                sym = dict(T_PROXY).get(attr_path(t))
                                if sym:
                                    stored[n.ast.value.id] = sym
                    r.site(wfn, c, "ctor args -> %s" % ci.name)
                    seen = {}
                    for i, a in enumerate(c.args):
                        if i < len(ps) and ps[i] in stored:
                            seen[stored[ps[i]]] = _canon(norm_plain(a), T_PUB)
                    for kw in c.keywords:
                        if kw.arg in stored:
                            seen[stored[kw.arg]] = _canon(norm_plain(kw.value), T_PUB)
                    bad = {k: v for k, v in seen.items() if k != v}
                    r.require(not bad and set(seen) == {"S", "D", "K", "N"}, wfn, wfn.loc(c),
                              "%s receives %s from %s" % (ci.name, ", ".join(
                                  "%s as its %s" % (v, k) for k, v in sorted(bad.items())) or
                                  "only %s" % sorted(seen), short(wfn)))

    # ---- 2. MDMF header tables --------------------------------------------
    with ctx.rule("C09.2", "R5", "MDMF header: checkstring, encoding parameters, signed prefix and offset table are "
                  "packed by MDMFSlotWriteProxy with the formats, field roles, key order and offsets that "
                  "MDMFSlotReadProxy unpacks", expected=14) as r:
        lay = idx.module("allmydata." + LAY)
        rpe = idx.func(RP + "._process_encoding_parameters")
        rpn = FlowNorm(rpe, depth=8)
        disk = _reader_header(idx, r, rpe, rpn)          # {version: (fmt, roles, lo, hi, node)}
        if 1 not in disk:
            raise AnchorVanished("no MDMF (version 1) header unpack in _process_encoding_parameters")
        fmt1, roles1, lo1, hi1, n1 = disk[1]
        r.require(lo1 == 0 and hi1 == struct.calcsize(fmt1), rpe, rpe.loc(n1.ast),
                  "MDMF header is unpacked from bytes [%s:%s] with a %d-byte format" % (lo1, hi1, struct.calcsize(fmt1)))
        ver1 = folder.name("MDMF_VERSION", lay, None)

        # writer: checkstring at 0, encoding parameters right behind it
        gcs = idx.func(WP + ".get_checkstring")
        packs = _struct_calls(gcs, "pack")
        if len(packs) != 1:
            raise AnchorVanished("MDMFSlotWriteProxy.get_checkstring no longer packs one checkstring")
        n, c = packs[0]
        cs_fmt = _fold_at(idx, gcs, FlowNorm(gcs), n, c.args[0])
        cs_roles = [_wrole(gcs, a, ver1) for a in c.args[1:]]
        r.site(gcs, c, "checkstring")
        fin = idx.func(WP + ".finish_publishing")
        fnn = FlowNorm(fin, depth=8)
        par_pack = off_pack = None
        for (n, c) in _struct_calls(fin, "pack"):
            roles = [_role(fin, a) for a in c.args[1:]]
            if roles and all(re.match(r"^self\._offsets\['\w+'\]$", x) for x in roles):
                off_pack = (n, c)
            else:
                par_pack = (n, c)
        if par_pack is None or off_pack is None:
            raise AnchorVanished("finish_publishing no longer packs the encoding parameters and the offset table")
        n, c = par_pack
        par_fmt = _fold_at(idx, fin, fnn, n, c.args[0])
        par_roles = [_wrole(fin, a, ver1) for a in c.args[1:]]
        r.site(fin, c, "encoding parameters")
        r.require(_fields(cs_fmt) + _fields(par_fmt) == _fields(fmt1) and cs_fmt[:1] == par_fmt[:1] == fmt1[:1],
                  fin, fin.loc(c), "checkstring %r + encoding parameters %r are not the header %r the reader unpacks" % (
                      cs_fmt, par_fmt, fmt1))
        r.require(cs_roles + par_roles == roles1, fin, fin.loc(c),
                  "the writer lays the MDMF header out as %s, the reader takes it as %s" % (cs_roles + par_roles, roles1))
        where = _writev_offsets(idx, fin, fnn)
        r.require(where.get(_name_of(fin, par_pack)) == struct.calcsize(cs_fmt), fin, fin.loc(c),
                  "encoding parameters are written at offset %s, the reader expects them behind the %d-byte "
                  "checkstring" % (where.get(_name_of(fin, par_pack)), struct.calcsize(cs_fmt)))
        # every checkstring write goes to offset 0
        for q in (WP + ".put_root_hash", WP + "._write"):
            f = idx.func(q)
            fq = FlowNorm(f)
            got = False
            for cc in calls_in_func(f, "append"):
                a0 = cc.args[0] if cc.args else None
                pair = _pair(a0)
                if pair is None:
                    continue
                nn = _node_of(f, cc)
                if call_tail_of(fq.resolve(nn, pair[1])) == "get_checkstring":
                    got = True
                    r.site(f, cc, "checkstring write")
                    r.require(fq.norm(nn, pair[0]) == "0", f, f.loc(cc), "checkstring written at offset %s" % fq.norm(nn, pair[0]))
            if not got:
                raise AnchorVanished("%s no longer queues a checkstring write" % q)

        # signed prefix: the writer signs exactly the field list the reader rebuilds and verifies
        bp = idx.func(RP + "._build_prefix")
        bpn = FlowNorm(bp)
        prefix = {}
        for (n, c) in _struct_calls(bp, "pack"):
            v = _node_version(idx, bp, bpn, n)
            r.site(bp, c, "signed prefix (reader, v%s)" % v)
            if v is None:
                r.violation(bp, bp.loc(c), "prefix packed under no definite share version")
                continue
            prefix[v] = (_fold_at(idx, bp, bpn, n, c.args[0]), [norm_plain(a) for a in c.args[1:]], c)
        if set(prefix) != set(disk):
            raise AnchorVanished("_build_prefix covers versions %s, the header parser %s" % (sorted(prefix), sorted(disk)))
        gs = idx.func(WP + ".get_signable")
        packs = _struct_calls(gs, "pack")
        if len(packs) != 1:
            raise AnchorVanished("MDMFSlotWriteProxy.get_signable no longer packs one prefix")
        n, c = packs[0]
        sfmt = _fold_at(idx, gs, FlowNorm(gs), n, c.args[0])
        r.site(gs, c, "signed prefix (writer)")
        wr = [_wrole(gs, a, ver1) for a in c.args[1:]]
        r.require(_fields(sfmt) == _fields(prefix[1][0]) and sfmt[:1] == prefix[1][0][:1] and wr == prefix[1][1],
                  gs, gs.loc(c), "the writer signs %r %s, the reader verifies the signature over %r %s" % (
                      sfmt, wr, prefix[1][0], prefix[1][1]))

        # offset table
        n, c = off_pack
        ofmt = _fold_at(idx, fin, fnn, n, c.args[0])
        wkeys = [re.match(r"^self\._offsets\['(\w+)'\]$", _role(fin, a)).group(1) for a in c.args[1:]]
        r.site(fin, c, "offset table (writer)")
        po = idx.func(RP + "._process_offsets")
        tabs = _reader_offsets(idx, r, po)
        if 1 not in tabs:
            raise AnchorVanished("no version-1 offset table unpack in _process_offsets")
        rfmt, rkeys, lo, hi, rn = tabs[1]
        r.require(_fields(ofmt) == _fields(rfmt) and ofmt[:1] == rfmt[:1] and len(wkeys) == struct_value_count(ofmt),
                  fin, fin.loc(c), "offset table packed as %r (%d values), unpacked as %r" % (ofmt, len(wkeys), rfmt))
        r.require(wkeys == rkeys, fin, fin.loc(c),
                  "offset table is written in the order %s and read back as %s" % (wkeys, rkeys))
        woff = where.get(_name_of(fin, off_pack))
        r.require(woff == lo and hi - lo == struct.calcsize(rfmt) and lo == struct.calcsize(fmt1), fin, fin.loc(c),
                  "offset table is written at %s and read from [%s:%s] (header without offsets is %d bytes)" % (
                      woff, lo, hi, struct.calcsize(fmt1)))
        # header size constants: full header = header without offsets + offsets; first data goes behind it
        hdr = folder.name("MDMFHEADER", lay, None)
        r.require(_fields(hdr) == _fields(fmt1) + _fields(ofmt), fin, fin.loc(c),
                  "MDMFHEADER %r is not header %r + offsets %r" % (hdr, fmt1, ofmt))
        wpi = idx.func(WP + ".__init__")
        wpn = FlowNorm(wpi)
        for nn in wpi.cfg().nodes:
            if "self._offsets[]" in node_stores(nn) and isinstance(nn.ast, ast.Assign) \
                    and norm_plain(nn.ast.targets[0]) == "self._offsets['enc_privkey']":
                r.site(wpi, nn.ast, "first section offset")
                try:
                    v = _fold_at(idx, wpi, wpn, nn, nn.ast.value)
                except NotConstant:
                    v = None
                r.require(v == struct.calcsize(hdr), wpi, wpi.loc(nn.ast),
                          "first share section starts at %s, the header with offsets ends at %d" % (v, struct.calcsize(hdr)))
        # the reader's first fetch covers the longest header
        mf = idx.func(RP + "._maybe_fetch_offsets_and_header")
        mfn = FlowNorm(mf)
        for cc in calls_in_func(mf, "_read"):
            nn = _node_of(mf, cc)
            rv = cc.args[0]
            if isinstance(rv, ast.Name):
                ds = all_defs(mf).get(rv.id, [])
                rv = ds[0] if len(ds) == 1 and ds[0] is not None else rv
            r.site(mf, cc, "header fetch")
            try:
                val = _fold_at(idx, mf, mfn, nn, rv)
            except NotConstant:
                val = None
            need = max(struct.calcsize(hdr), folder.name("HEADER_LENGTH", lay, None))
            r.require(isinstance(val, list) and len(val) == 1 and val[0][0] == 0 and val[0][1] >= need, mf, mf.loc(cc),
                      "header fetch %s does not cover the %d header bytes" % (val, need))

    # ---- 3. SDMF tables ----------------------------------------------------
    with ctx.rule("C09.3", "R5", "SDMF share: signed prefix, offset table (format, key order, position) and the order "
                  "of the joined pieces agree between SDMFSlotWriteProxy and the read proxy's version-0 branches",
                  expected=4) as r:
        _need("the header / offset tables of C09.2", disk, tabs, prefix, lay, rpe, po)
        if 0 not in disk or 0 not in tabs:
            raise AnchorVanished("no SDMF (version 0) header / offset unpack in the read proxy")
        fmt0, roles0, lo0, hi0, n0 = disk[0]
        ver0 = folder.name("SDMF_VERSION", lay, None)
        r.require(lo0 == 0 and hi0 == struct.calcsize(fmt0), rpe, rpe.loc(n0.ast),
                  "SDMF header is unpacked from bytes [%s:%s] with a %d-byte format" % (lo0, hi0, struct.calcsize(fmt0)))
        gs = idx.func(SW + ".get_signable")
        packs = _struct_calls(gs, "pack")
        if len(packs) != 1:
            raise AnchorVanished("SDMFSlotWriteProxy.get_signable no longer packs one prefix")
        n, c = packs[0]
        sfmt = _fold_at(idx, gs, FlowNorm(gs), n, c.args[0])
        r.site(gs, c, "signed prefix (writer)")
        r.require(_fields(sfmt) == _fields(fmt0) and sfmt[:1] == fmt0[:1], gs, gs.loc(c),
                  "SDMF prefix is packed as %r and unpacked as %r" % (sfmt, fmt0))
        wr = [_wrole(gs, a, ver0) for a in c.args[1:]]
        r.require(wr == roles0, gs, gs.loc(c), "SDMF prefix packs %s, the reader takes it as %s" % (wr, roles0))
        r.require(_fields(sfmt) == _fields(prefix[0][0]) and wr == prefix[0][1], gs, gs.loc(c),
                  "the writer signs %r %s, the reader verifies the signature over %r %s" % (
                      sfmt, wr, prefix[0][0], prefix[0][1]))
        # offset table
        po_ = idx.func(SW + "._pack_offsets")
        packs = _struct_calls(po_, "pack")
        if len(packs) != 1:
            raise AnchorVanished("SDMFSlotWriteProxy._pack_offsets no longer packs one table")
        n, c = packs[0]
        ofmt0 = _fold_at(idx, po_, FlowNorm(po_), n, c.args[0])
        wkeys0 = []
        for a in c.args[1:]:
            m = re.match(r"^\w+\['(\w+)'\]$", norm_plain(a))
            wkeys0.append(m.group(1) if m else "?" + norm_plain(a))
        rfmt0, rkeys0, tlo0, thi0, tn0 = tabs[0]
        r.site(po_, c, "offset table (writer)")
        r.require(_fields(ofmt0) == _fields(rfmt0) and ofmt0[:1] == rfmt0[:1] and len(wkeys0) == struct_value_count(ofmt0),
                  po_, po_.loc(c), "SDMF offset table packed as %r (%d values), unpacked as %r" % (ofmt0, len(wkeys0), rfmt0))
        r.require(wkeys0 == rkeys0, po_, po_.loc(c),
                  "SDMF offset table is written in the order %s and read back as %s" % (wkeys0, rkeys0))
        r.require(tlo0 == struct.calcsize(sfmt) and thi0 - tlo0 == struct.calcsize(rfmt0), po, po.loc(tn0.ast),
                  "SDMF offset table is read from [%s:%s]; the writer puts its %d bytes behind the %d-byte prefix" % (
                      tlo0, thi0, struct.calcsize(ofmt0), struct.calcsize(sfmt)))
        # joined share: prefix, offsets, then the pieces in the order the offsets describe
        fp = idx.func(SW + ".finish_publishing")
        fpn = FlowNorm(fp, depth=8)
        joins = [cc for cc in calls_in_func(fp, "join") if cc.args and isinstance(cc.args[0], ast.List)]
        if len(joins) != 1:
            raise AnchorVanished("SDMFSlotWriteProxy.finish_publishing no longer joins one share")
        jn = _node_of(fp, joins[0])
        elts = joins[0].args[0].elts
        r.site(fp, joins[0], "joined share")
        head = [call_tail_of(fpn.resolve(jn, e)) for e in elts[:2]]
        r.require(head == ["get_signable", "_pack_offsets"], fp, fp.loc(joins[0]),
                  "the share starts with %s instead of signed prefix + offset table" % head)
        pieces = []
        for e in elts[2:]:
            m = re.match(r"^self\._share_pieces\['(\w+)'\]$", norm_plain(e))
            pieces.append(m.group(1) if m else "?" + norm_plain(e))
        # the whole share is the single write vector at offset 0
        ok0 = False
        placed0 = []        # every one-element write-vector list that carries the joined share (whatever it is kept in)
        for nn in fp.cfg().nodes:
            for e in node_exprs(nn):
                for v in own_nodes(e):
                    if isinstance(v, ast.List) and len(v.elts) == 1 and _pair(v.elts[0]):
                        o, d = _pair(v.elts[0])
                        if fpn.resolve(nn, d) is joins[0]:
                            placed0.append(fpn.norm(nn, o) == "0")
        ok0 = bool(placed0) and all(placed0)
        r.require(ok0, fp, fp.loc(joins[0]), "the joined share is not the single write vector at offset 0")
        od = idx.func(SW + "._get_offsets_dict")
        odn = FlowNorm(od, depth=16)
        P = {}
        for nn in od.cfg().nodes:
            if nn.kind == "stmt" and isinstance(nn.ast, ast.Assign):
                for t in nn.ast.targets:
                    if isinstance(t, ast.Subscript) and isinstance(t.slice, ast.Constant) and attr_path(t.value):
                        poly = odn.at(nn).poly(nn.ast.value)
                        lens, const = set(), 0
                        okp = True
                        for term, co in poly.t.items():
                            if co != 1 or len(term) > 1:
                                okp = False
                            elif term == ():
                                const += int(co)
                            else:
                                m = re.match(r"^len\(self\._share_pieces\['(\w+)'\]\)$", term[0])
                                if m:
                                    lens.add(m.group(1))
                                else:
                                    try:
                                        const += int(folder.fold(parse_expr(term[0]), od.module, od.cls))
                                    except (NotConstant, SyntaxError, ValueError, TypeError):
                                        okp = False
                        r.require(okp, od, od.loc(nn.ast), "offset %r is %s, not header length + lengths of the "
                                  "preceding pieces" % (t.slice.value, poly))
                        P[t.slice.value] = (lens, const)
        r.site(od, None, "offset chain")
        order = sorted(P, key=lambda k: len(P[k][0]))
        hdr0 = struct.calcsize(sfmt) + struct.calcsize(ofmt0)
        ext = {}
        okc = len(order) == len(pieces) == len(wkeys0)
        for i, k in enumerate(order):
            lens, const = P[k]
            if lens != set(pieces[:i + 1]) or const != hdr0:
                okc = False
        r.require(okc, od, od.loc(), "offsets %s do not describe the joined order %s behind a %d-byte header" % (
            [(k, sorted(P[k][0]), P[k][1]) for k in order], pieces, hdr0))
        if okc:
            ext[pieces[0]] = (hdr0, order[0])
            for i in range(1, len(pieces)):
                ext[pieces[i]] = (order[i - 1], order[i])
        sdmf_extent = ext

    # ---- 4. section extents ------------------------------------------------
    with ctx.rule("C09.4", "R5", "each share section is read from the offset keys between which the writer placed it "
                  "(both versions); MDMF block offset formula, read length and salt||block order agree", expected=16) as r:
        _need("the SDMF layout of C09.3", sdmf_extent)
        SECT = [("put_encprivkey", "get_encprivkey", "encprivkey"), ("put_blockhashes", "get_blockhashes", "block_hash_tree"),
                ("put_sharehashes", "get_sharehashes", "share_hash_chain"), ("put_signature", "get_signature", "signature"),
                ("put_verification_key", "get_verification_key", "verification_key")]
        offkey = re.compile(r"^self\._offsets\['(\w+)'\]$")

        def endpoint(fn, atom):
            m = offkey.match(atom)
            if m:
                return m.group(1)
            try:
                return int(folder.fold(parse_expr(atom), fn.module, fn.cls))
            except Exception:
                return "?" + atom

        for (putq, getq, piece) in SECT:
            # writer
            pf = idx.func(WP + "." + putq)
            pn = FlowNorm(pf, depth=8)
            wext = None
            for nn in pf.cfg().nodes:
                if "self._offsets[]" in node_stores(nn) and isinstance(nn.ast, ast.Assign):
                    t = nn.ast.targets[0]
                    poly = pn.at(nn).poly(nn.ast.value)
                    starts = [k[0] for k, co in poly.t.items() if len(k) == 1 and co == 1 and offkey.match(k[0])]
                    lens = [k[0] for k, co in poly.t.items() if len(k) == 1 and co == 1 and k[0].startswith("len(")]
                    if len(starts) == 1 and len(lens) == 1 and len(poly.t) == 2 and isinstance(t.slice, ast.Constant):
                        wext = (offkey.match(starts[0]).group(1), t.slice.value, lens[0][4:-1], nn)
            if wext is None:
                raise AnchorVanished("%s no longer derives the next offset from the section length" % putq)
            r.site(pf, wext[3].ast, "section %s written at [%s, %s)" % (piece, wext[0], wext[1]))
            placed = False
            for cc in calls_in_func(pf, "append"):
                pr = _pair(cc.args[0]) if cc.args else None
                if call_name(cc) == "self._writevs.append" and pr:
                    nn = _node_of(pf, cc)
                    placed = True
                    r.require(pn.norm(nn, pr[0]) == "self._offsets['%s']" % wext[0] and pn.norm(nn, pr[1]) == wext[2],
                              pf, pf.loc(cc), "%s writes %s at %s but advances the next offset by len(%s) from %s" % (
                                  putq, pn.norm(nn, pr[1]), pn.norm(nn, pr[0]), wext[2], wext[0]))
            if not placed:
                raise AnchorVanished("%s no longer queues a write vector" % putq)
            # reader
            gf = idx.func(RP + "." + getq)
            found = {}
            for nf in gf.nested.values():
                nfn = FlowNorm(nf, depth=8)
                for nn in nf.cfg().nodes:
                    if nn.kind != "stmt" or not isinstance(nn.ast, ast.Assign) or not isinstance(nn.ast.targets[0], ast.Name):
                        continue
                    try:
                        poly = nfn.at(nn).poly(nn.ast.value)
                    except Exception:
                        continue
                    pos_ = [k[0] for k, co in poly.t.items() if len(k) == 1 and co == 1]
                    neg_ = [k[0] for k, co in poly.t.items() if len(k) == 1 and co == -1]
                    if len(poly.t) == 2 and len(pos_) == 1 and len(neg_) == 1 and offkey.match(pos_[0]):
                        v = _node_version(idx, nf, nfn, nn)
                        found.setdefault(v, []).append((endpoint(nf, neg_[0]), endpoint(nf, pos_[0]), nf, nn))
            for v, want in ((1, (wext[0], wext[1])), (0, sdmf_extent.get(piece))):
                got = found.get(v, [])
                if len(got) != 1:
                    raise AnchorVanished("%s: %d version-%d extent computations found" % (getq, len(got), v))
                s_, e_, nf, nn = got[0]
                r.site(nf, nn.ast, "section %s v%d read from [%s, %s)" % (piece, v, s_, e_))
                r.require(want is not None and (s_, e_) == tuple(want), nf, nf.loc(nn.ast),
                          "%s reads the version-%d %s from [%s, %s) but the writer places it at [%s, %s)" % (
                              getq, v, piece, s_, e_, want[0] if want else "?", want[1] if want else "?"))
            if None in found:
                nf, nn = found[None][0][2], found[None][0][3]
                r.violation(nf, nf.loc(nn.ast), "%s computes a section extent under no definite share version" % getq)

        # data blocks
        pb = idx.func(WP + ".put_block")
        wps = first_positional_params(pb)            # data, segnum, salt
        pbn = FlowNorm(pb, rename={wps[1]: "SEG"}, depth=8)
        wpi = idx.func(WP + ".__init__")
        wpin = FlowNorm(wpi, depth=8)
        abs_ = [(n, f) for (n, f, fin) in _attr_forms(wpi, wpin, "self._actual_block_size", [])]
        if len(abs_) != 1:
            raise AnchorVanished("self._actual_block_size is no longer stored once")
        abs_poly = wpin.at(abs_[0][0]).poly(assign_value(abs_[0][0], "self._actual_block_size"))
        wpoly = None
        for cc in calls_in_func(pb, "append"):
            pr = _pair(cc.args[0]) if cc.args else None
            if call_name(cc) == "self._writevs.append" and pr:
                nn = _node_of(pb, cc)
                wpoly = _poly_subst(pbn.at(nn).poly(pr[0]), "self._actual_block_size", abs_poly)
                r.site(pb, cc, "block write")
                # payload is salt || block
                dn = None
                if isinstance(pr[1], ast.Name):
                    ds = pbn.rd.get(nn.id, {}).get(pr[1].id, ())
                    if len(ds) == 1 and min(ds) >= 0:
                        dn = pbn._def_value(pb.cfg().nodes[min(ds)], pr[1].id)
                okp = isinstance(dn, ast.BinOp) and isinstance(dn.op, ast.Add) and attr_path(dn.left) == wps[2] \
                    and attr_path(dn.right) == wps[0]
                r.require(okp, pb, pb.loc(cc), "the MDMF block is written as %s, the reader splits salt || block" % (
                    src(pb, dn) if dn is not None else src(pb, pr[1])))
        if wpoly is None:
            raise AnchorVanished("put_block no longer queues a write vector")
        gb = idx.func(RP + ".get_block_and_salt")

        def _read_vectors(nf, nfn):
            """[(return node, node the list is built at, list, (offset, length))] for the returns of `nf` that give
            a one-element read vector [(offset, length)] (directly or through a local, whatever it is called)."""
            out = []
            for n in nf.cfg().nodes:
                if is_return(n) and n.ast.value is not None:
                    dn, v = _def_of(nfn, n, n.ast.value)
                    pr = _pair(v.elts[0]) if isinstance(v, ast.List) and len(v.elts) == 1 else None
                    if pr is not None:
                        out.append((n, dn, v, pr))
            return out

        # the callback that computes where to read: the one that returns the read vector
        then = tn = None
        for nf in gb.nested.values():
            nfn = FlowNorm(nf, rename={first_positional_params(gb)[0]: "SEG"}, depth=8)
            if _read_vectors(nf, nfn):
                if then is not None:
                    raise AnalysisError("get_block_and_salt: two callbacks return a read vector")
                then, tn = nf, nfn
        if then is None:
            raise AnchorVanished("get_block_and_salt no longer computes the read vector [(share offset, length)]")
        cfg = then.cfg()
        rvs = _read_vectors(then, tn)
        rv = [dn for (_n, dn, _v, _pr) in rvs]
        # the locals are identified by their role: component 0 of the read vector is the block offset, component 1
        # the read length
        offvars = {pr[0].id if isinstance(pr[0], ast.Name) else None for (_n, _dn, _v, pr) in rvs}
        lenvars = {pr[1].id if isinstance(pr[1], ast.Name) else None for (_n, _dn, _v, pr) in rvs}
        if len(offvars) != 1 or None in offvars or len(lenvars) != 1 or None in lenvars:
            raise AnalysisError("get_block_and_salt: the read vector %s is not (offset local, length local)" % (
                src(then, rvs[0][2])))
        offvar, lenvar = offvars.pop(), lenvars.pop()
        seenv = set()
        for nn in cfg.nodes:
            v = assign_value(nn, offvar)
            if v is None:
                continue
            ver = _node_version(idx, then, tn, nn)
            seenv.add(ver)
            rpoly = tn.at(nn).poly(v)
            r.site(then, nn.ast, "block offset v%s" % ver)
            if ver == 1:
                r.require(rpoly == wpoly, then, then.loc(nn.ast),
                          "MDMF block is read at %s but written at %s" % (rpoly, wpoly))
            elif ver == 0:
                at0 = _poly_subst(rpoly, "SEG", Poly.const(0))
                r.require(str(at0) == "(self._offsets['share_data'])", then, then.loc(nn.ast),
                          "SDMF block 0 is read at %s, the writer places the share data at offsets['share_data']" % at0)
            else:
                r.violation(then, then.loc(nn.ast), "block offset computed under no definite share version")
        if seenv != {0, 1}:
            raise AnchorVanished("get_block_and_salt._then: block offsets for versions %s" % sorted(map(str, seenv)))
        # read length: block (+ salt for MDMF)
        salted = [n for n in cfg.nodes if n.kind == "stmt" and isinstance(n.ast, ast.AugAssign)
                  and isinstance(n.ast.op, ast.Add) and attr_path(n.ast.target) == lenvar
                  and tn.norm(n, n.ast.value) == "SALT_SIZE"]
        if not salted:
            r.violation(then, then.loc(rv[0].ast), "the MDMF read length no longer includes SALT_SIZE for the salt "
                        "stored in front of each block")
        for n in salted:
            r.site(then, n.ast, "salt allowance")
            r.require(_node_version(idx, then, tn, n) == 1, then, then.loc(n.ast),
                      "SALT_SIZE is added to the read length outside the MDMF branch")
        for (n, w) in find_path_avoiding(cfg, lambda x: x in rv, gate_node=lambda x: x in salted,
                                         gate_edge=lambda a, lab: _edge_version(idx, then, tn, a, lab) == 0,
                                         kill=lambda m: lenvar in node_stores(m) and m not in salted):
            r.violation(then, then.loc(n.ast), "an MDMF block can be read without room for its salt (path: %s)" % w.brief(), w)
        # split of salt || block: the other callback; its result is the (block, salt) pair the callers unpack, so the
        # first returned local plays the block and the second the salt
        others = [nf for nf in gb.nested.values() if nf is not then]
        if len(others) > 1:
            others = [nf for nf in others if any(
                is_return(n) and isinstance(_def_of(FlowNorm(nf, depth=8), n, n.ast.value)[1], ast.Tuple)
                for n in nf.cfg().nodes)]
        if len(others) != 1:
            raise AnchorVanished("get_block_and_salt no longer splits salt and block")
        pr_ = others[0]
        prn = FlowNorm(pr_, depth=8)
        rets = [n for n in pr_.cfg().nodes if is_return(n)]
        if not rets:
            raise AnchorVanished("get_block_and_salt no longer splits salt and block")
        roles = set()
        for n in rets:
            v = _def_of(prn, n, n.ast.value)[1]
            okr = isinstance(v, ast.Tuple) and len(v.elts) == 2 and all(isinstance(e, ast.Name) for e in v.elts) \
                and v.elts[0].id != v.elts[1].id
            r.require(okr, pr_, pr_.loc(n.ast),
                      "get_block_and_salt returns %s, its callers unpack (block, salt)" % src(pr_, v))
            if okr:
                roles.add((v.elts[0].id, v.elts[1].id))
        if len(roles) == 1:
            blockvar, saltvar = roles.pop()
            got = {}
            for nn in pr_.cfg().nodes:
                for role_, var in (("salt", saltvar), ("data", blockvar)):
                    v = assign_value(nn, var)
                    if isinstance(v, ast.Subscript) and isinstance(v.slice, ast.Slice) and _node_version(idx, pr_, prn, nn) == 1:
                        got[role_] = (prn.norm(nn, v.value), prn.norm(nn, v.slice.lower) if v.slice.lower else None,
                                      prn.norm(nn, v.slice.upper) if v.slice.upper else None, nn)
            if set(got) != {"salt", "data"}:
                raise AnchorVanished("get_block_and_salt._process_results: MDMF salt/block slices not found")
            r.site(pr_, got["salt"][3].ast, "salt || block split")
            r.require(got["salt"][0] == got["data"][0] and got["salt"][1:3] == (None, "SALT_SIZE")
                      and got["data"][1:3] == ("SALT_SIZE", None), pr_, pr_.loc(got["salt"][3].ast),
                      "salt = X[%s:%s], block = X[%s:%s]; the writer stores salt (SALT_SIZE bytes) first" % (
                          got["salt"][1], got["salt"][2], got["data"][1], got["data"][2]))
        elif roles:
            r.violation(pr_, pr_.loc(), "get_block_and_salt returns its (block, salt) pair from different locals on "
                        "different paths: %s" % sorted(roles))

    # ---- 5. tail selection and trim ---------------------------------------
    with ctx.rule("C09.5", "R1/R6", "the last segment (segnum + 1 == num_segments) uses the tail size / tail codec on "
                  "both sides, every other segment the full size; the decoded segment is trimmed to that size, then "
                  "decrypted, then written to the consumer", expected=10) as r:
        def tail_select(q, var, ns_attr, tail_val, other_val, what):
            fn = idx.func(q)
            if callable(var):
                var = var(fn)
            fnorm = FlowNorm(fn, depth=8)
            cfg = fn.cfg()
            seg = "segnum"
            enc = fn
            while seg not in enc.params and enc.parent is not None:
                enc = enc.parent
            if seg not in enc.params:
                raise AnchorVanished("%s has no segnum parameter" % q)
            wantT = N().cmp(parse_expr("%s + 1 == %s" % (seg, ns_attr)), True)
            wantF = N().cmp(parse_expr("%s + 1 == %s" % (seg, ns_attr)), False)
            sts = [n for n in cfg.nodes if var in node_stores(n) and n.kind == "stmt" and isinstance(n.ast, ast.Assign)]
            vals = {}
            for n in sts:
                vals.setdefault(fnorm.norm(n, assign_value(n, var)), []).append(n)
            if tail_val not in vals and other_val not in vals:
                raise AnchorVanished("%s no longer selects %s" % (q, var))
            r.site(fn, sts[0].ast, what)
            r.require(set(vals) == {tail_val, other_val}, fn, fn.loc(sts[0].ast),
                      "%s: %s is chosen from %s, expected %s for the last segment and %s otherwise" % (
                          what, var, sorted(vals), tail_val, other_val))
            for val, want, txt in ((tail_val, wantT, "only for"), (other_val, wantF, "for every segment but")):
                for n in vals.get(val, []):
                    bad = find_path_avoiding(cfg, lambda x, _n=n: x is _n,
                                             gate_edge=lambda a, lab, _w=want: fnorm.edge_fact(a, lab) == _w,
                                             kill=lambda m: var in node_stores(m))
                    r.count(len(cfg.nodes))
                    for (t, w) in bad:
                        r.violation(fn, fn.loc(t.ast), "%s: %s must be used %s the last segment "
                                    "(segnum + 1 == %s); path: %s" % (what, val, txt, ns_attr, w.brief()), w)
            return fn, fnorm

        # the selected locals are found by what they are used for, not by their names
        def arg_of(tail, recv_pred, default):
            def find(fn):
                for c in calls_in_func(fn, tail):
                    if c.args and isinstance(c.args[0], ast.Name) and isinstance(c.func, ast.Attribute) \
                            and recv_pred(attr_path(c.func.value)):
                        return c.args[0].id
                return default
            return find

        def receiver_of(tail, default):
            def find(fn):
                for c in calls_in_func(fn, tail):
                    if isinstance(c.func, ast.Attribute) and isinstance(c.func.value, ast.Name):
                        return c.func.value.id
                return default
            return find

        def read_length_var(fn):
            for n in fn.cfg().nodes:
                if is_return(n):
                    v = _def_of(FlowNorm(fn), n, n.ast.value)[1]
                    pr = _pair(v.elts[0]) if isinstance(v, ast.List) and len(v.elts) == 1 else None
                    if pr and isinstance(pr[1], ast.Name):
                        return pr[1].id
            return "data"

        def trim_bound_var(fn):
            p0 = first_positional_params(fn)[0]
            for n in fn.cfg().nodes:
                v = assign_value(n, p0)
                if isinstance(v, ast.Subscript) and isinstance(v.slice, ast.Slice) and isinstance(v.slice.upper, ast.Name):
                    return v.slice.upper.id
            return "size_to_use"
        tail_select(PUB + "._encode_segment", arg_of("read", lambda p: p == "self.data", "segsize"), "self.num_segments",
                    "self.tail_segment_size", "self.segment_size", "plaintext read size")
        tail_select(PUB + "._encode_segment", receiver_of("encode", "fec"), "self.num_segments", "self.tail_fec", "self.fec",
                    "segment encoder")
        tail_select(RP + ".get_block_and_salt._then", read_length_var, "self._num_segments", "self._tail_block_size",
                    "self._block_size", "block read length")
        prq = RET + "._decode_blocks._process"
        pfn, pnorm = tail_select(prq, trim_bound_var, "self._num_segments", "self._tail_data_size", "self._segment_size",
                                 "trim size")
        trim_var = trim_bound_var(pfn)
        # encoders are configured with the sizes they are selected for
        sp = idx.func(PUB + ".setup_encoding_parameters")
        spn = FlowNorm(sp, depth=8)
        seen = {}
        for cc in calls_in_func(sp, "set_params"):
            nn = _node_of(sp, cc)
            recv = attr_path(cc.func.value)
            stored = {attr_path(t) for m in sp.cfg().nodes if m.kind == "stmt" and isinstance(m.ast, ast.Assign)
                      and attr_path(m.ast.value) == recv for t in m.ast.targets}
            for a in stored:
                seen[a] = spn.norm(nn, cc.args[0]) if cc.args else None
        r.site(sp, None, "encoder sizes %s" % sorted(seen.items()))
        r.require(seen.get("self.fec") in ("self.segment_size", "segment_size")
                  and seen.get("self.tail_fec") == "self.tail_segment_size", sp, sp.loc(),
                  "encoders are configured as %s" % sorted(seen.items()))
        for n in sp.cfg().nodes:
            if assign_value(n, "self.tail_fec") is not None and attr_path(assign_value(n, "self.tail_fec")) == "self.fec":
                bad = find_path_avoiding(sp.cfg(), lambda x, _n=n: x is _n, gate_edge=lambda a, lab: spn.edge_fact(a, lab) in (
                    ("==", "self.segment_size", "self.tail_segment_size"), ("==", "segment_size", "self.tail_segment_size")))
                for (t, w) in bad:
                    r.violation(sp, sp.loc(t.ast), "the full-segment encoder is reused for the tail although the sizes "
                                "were not found equal", w)
        # trim: every return of _process passes segment = segment[:size_to_use]
        pcfg = pfn.cfg()
        seg_p = first_positional_params(pfn)[0]

        def trims(n):
            v = assign_value(n, seg_p)
            return isinstance(v, ast.Subscript) and attr_path(v.value) == seg_p and isinstance(v.slice, ast.Slice) \
                and v.slice.lower is None and v.slice.step is None and attr_path(v.slice.upper) == trim_var
        tr = [n for n in pcfg.nodes if trims(n)]
        for n in tr:
            r.site(pfn, n.ast, "trim")
        if not tr:
            r.violation(pfn, pfn.loc(), "the decoded segment is no longer trimmed to the selected size")
        for (n, w) in find_path_avoiding(pcfg, is_return, gate_node=trims,
                                         kill=lambda m: (seg_p in node_stores(m) and not trims(m)) or trim_var in node_stores(m)):
            r.violation(pfn, pfn.loc(n.ast), "decoded segment returned without trimming the zfec padding "
                        "(path: %s)" % w.brief(), w)
        for n in pcfg.nodes:
            if is_return(n):
                v = n.ast.value
                r.require(isinstance(v, ast.Tuple) and len(v.elts) == 2 and attr_path(v.elts[0]) == seg_p, pfn,
                          pfn.loc(n.ast), "_process returns %s instead of (trimmed segment, salt)" % src(pfn, v))
        # _process is on the decode Deferred; decrypt and delivery follow in order
        db = idx.func(RET + "._decode_blocks")
        regs = [x for x in registrations(db) if x.kind == "cb"]
        r.site(db, None, "decode chain " + " ".join(x.target_name() for x in regs))
        r.require(any(x.target_name() == "_process" for x in regs), db, db.loc(),
                  "_process (trim) is not registered on the decode Deferred")
        md = idx.func(RET + "._maybe_decode_and_decrypt_segment")
        chain = [x.target_name().split(".")[-1] for x in registrations(md) if x.kind in ("cb", "both")]
        r.site(md, None, "segment chain " + " ".join(chain))
        want = ["_decrypt_segment", "_set_segment"]
        idxs = [chain.index(x) if x in chain else -1 for x in want]
        r.require(-1 not in idxs and idxs == sorted(idxs), md, md.loc(),
                  "decode -> decrypt -> deliver chain is %s" % chain)
        extra = [x for x in chain if x not in want + ["_check_for_paused", "_check_for_stopped"]]
        r.require(not extra, md, md.loc(), "callbacks %s sit in the decode -> decrypt -> deliver chain" % extra)
        # the update path's shortcut decodes and decrypts, too
        rd = idx.func(RET + ".decode")
        dchain = [x.target_name().split(".")[-1] for x in registrations(rd) if x.kind in ("cb", "both")]
        r.site(rd, None, "update decode chain " + " ".join(dchain))
        r.require(any(c for c in calls_in_func(rd, "_decode_blocks")) and "_decrypt_segment" in dchain, rd, rd.loc(),
                  "Retrieve.decode (old boundary segments of an in-place update) chains %s behind _decode_blocks; the "
                  "old bytes merged into the new segments must be decrypted plaintext" % dchain)
        ss = idx.func(RET + "._set_segment")
        sp_ = first_positional_params(ss)[0]
        for cc in calls_in_func(ss, "write"):
            r.site(ss, cc, "consumer write")
            r.require(attr_path(cc.args[0]) == sp_ if cc.args else False, ss, ss.loc(cc),
                      "the consumer is given %s" % src(ss, cc))
        for v in all_defs(ss).get(sp_, []):
            ok = isinstance(v, ast.Constant) or (isinstance(v, ast.Subscript) and attr_path(v.value) == sp_
                                                 and isinstance(v.slice, ast.Slice))
            r.require(ok, ss, ss.loc(v) if v is not None else ss.loc(),
                      "segment is replaced by %s before delivery" % (src(ss, v) if v is not None else "an opaque value"))

    # ---- 6. in-place update reads the same verinfo fields ------------------
    with ctx.rule("C09.6", "R5/R6", "the in-place update path takes segment size, data length and the SDMF salt from "
                  "the verinfo positions the producers use, and computes the start segment like Publish", expected=8) as r:
        _need("the verinfo positions of C09.1", pos, T_PUB)
        iS, iD = pos["S"], pos["D"]
        bv = idx.func(RP + ".get_verinfo._build_verinfo")
        ret_t = [n for n in bv.cfg().nodes if is_return(n)][0].ast.value
        iSalt = [i for i, e in enumerate(ret_t.elts) if "self._salt" in depends_on(bv, e)]
        if len(iSalt) != 1:
            raise AnchorVanished("salt position in the verinfo tuple")
        iSalt = iSalt[0]
        # the read proxy fills the slot with the SDMF salt for version-0 shares and leaves it empty for MDMF shares
        bvn = FlowNorm(bv)
        slot = ret_t.elts[iSalt]
        r.site(bv, slot, "salt slot (reader)")
        if isinstance(slot, ast.Name):
            fills = [(n, assign_value(n, slot.id)) for n in bv.cfg().nodes if assign_value(n, slot.id) is not None]
        else:
            fills = []
        if not fills:
            raise AnalysisError("cannot decide what %s puts into verinfo[%d]" % (short(bv), iSalt))
        for (n, v) in fills:
            empty = isinstance(v, ast.Constant) and v.value is None
            ver = _node_version(idx, bv, bvn, n)
            r.require(ver == (1 if empty else 0) and (empty or attr_path(v) == "self._salt"), bv, bv.loc(n.ast),
                      "the read proxy puts %s into verinfo[%d] for %s shares; the update and download paths tell SDMF "
                      "(salt) from MDMF (None) by this slot" % (src(bv, v), iSalt,
                                                                {0: "SDMF", 1: "MDMF"}.get(ver, "any version of")))
        for q, want in ((SW + ".get_verinfo", "self._share_pieces['salt']"), (WP + ".get_verinfo", "None")):
            f = idx.func(q)
            t = [n for n in f.cfg().nodes if is_return(n)][0].ast.value
            r.site(f, t.elts[iSalt], "salt slot")
            r.require(norm_plain(t.elts[iSalt]) == want, f, f.loc(t.elts[iSalt]),
                      "verinfo[%d] is %s in %s; the update path tells SDMF from MDMF by this slot" % (
                          iSalt, norm_plain(t.elts[iSalt]), short(f)))
        up = idx.func(MFV + "._update")
        upn = FlowNorm(up, depth=8)
        T = [("self._version[%d]" % iS, "S"), ("self._version[%d]" % iD, "D"), ("version[%d]" % iS, "S"),
             ("version[%d]" % iD, "D"), ("verinfo[%d]" % iD, "D")]
        sd = [n for n in up.cfg().nodes if has_call("_do_modify_update")(n)]
        if not sd:
            raise AnchorVanished("_update no longer falls back to _do_modify_update for SDMF")
        r.site(up, sd[0].ast, "SDMF re-encode gate")
        bad = find_path_avoiding(up.cfg(), has_call("_do_update_update"),
                                 gate_edge=lambda a, lab: upn.edge_fact(a, lab) == ("false", "self._version[%d]" % iSalt, None))
        for (n, w) in bad:
            r.violation(up, up.loc(n.ast), "in-place (MDMF) update can start for a version whose salt slot "
                        "verinfo[%d] was not found empty (path: %s)" % (iSalt, w.brief()), w)
        du = idx.func(MFV + "._do_update_update")
        dun = FlowNorm(du, depth=8)
        off = first_positional_params(du)[1]
        # the start segment, by role: what is recorded as self._start_segment and what opens the update_range handed
        # to the servermap update (whatever local carries it)
        starts = []
        for n in du.cfg().nodes:
            v = assign_value(n, "self._start_segment")
            if v is not None:
                starts.append((n, v))
            for c in node_calls(n):
                ur = kwarg(c, "update_range")
                ur = dun.resolve(n, ur) if ur is not None else None
                if isinstance(ur, ast.Tuple) and len(ur.elts) == 2:
                    starts.append((_node_of(du, ur), ur.elts[0]))
        if not starts:
            raise AnchorVanished("_do_update_update no longer records / hands on the start segment of the update")
        r.site(du, starts[0][0].ast, "start segment")
        for (n, v) in starts:
            r.require(_canon(dun.norm(n, v), T) == norm_src("%s // S" % off), du, du.loc(n.ast),
                      "update start segment is %s, Publish computes offset // segment size with the segment size "
                      "at verinfo[%d]" % (dun.norm(n, v), iS))
        pubs = idx.func(PUB + ".setup_encoding_parameters")
        pn_ = FlowNorm(pubs, depth=8)
        for (n, form, fin) in _attr_forms(pubs, pn_, "self.starting_segment", T_PUB):
            if not _is_const_form(form):
                r.site(pubs, n.ast, "start segment (publish)")
                r.require(form == norm_src("%s // S" % first_positional_params(pubs)[0]), pubs, pubs.loc(n.ast),
                          "Publish start segment is %s" % form)
        bu = idx.func(MFV + "._build_uploadable_and_finish")
        for cc in calls_in_func(bu, "TransformingUploadable"):
            tu = idx.func("mutable.publish:TransformingUploadable.__init__")
            ps = first_positional_params(tu)
            i = ps.index("segment_size") if "segment_size" in ps else None
            r.site(bu, cc, "uploadable segment size")
            r.require(i is not None and i < len(cc.args) and _canon(norm_plain(cc.args[i]), T) == "S", bu, bu.loc(cc),
                      "TransformingUploadable gets %s as its segment size" % (
                          norm_plain(cc.args[i]) if i is not None and i < len(cc.args) else "nothing"))
        pu = idx.func(PUB + ".update")
        pun = FlowNorm(pu, depth=8)
        # the old segment count, by role: the size the old block hash tree is rebuilt with
        olds = [(n, c.args[0]) for n in pu.cfg().nodes for c in node_calls(n)
                if call_tail(c) == "IncompleteHashTree" and len(c.args) == 1]
        if not olds:
            raise AnchorVanished("Publish.update no longer rebuilds the old block hash tree (IncompleteHashTree(<old "
                                 "segment count>))")
        for (n, v) in olds:
            r.site(pu, n.ast, "old segment count")
            r.require(_canon(pun.norm(n, v), T) == norm_src("div_ceil(D, S)"), pu, pu.loc(n.ast),
                      "old segment count is %s; the file was laid out with div_ceil(verinfo[%d], verinfo[%d])" % (
                          pun.norm(n, v), iD, iS))
        sv = idx.func("mutable.servermap:ServerMap.size_of_version")
        svn = FlowNorm(sv)
        for n in sv.cfg().nodes:
            if is_return(n):
                r.site(sv, n.ast, "size of version")
                r.require(_canon(svn.norm(n, n.ast.value), T) == "D", sv, sv.loc(n.ast),
                          "size_of_version returns %s, the data length is verinfo[%d]" % (svn.norm(n, n.ast.value), iD))

    # ---- 7. the patched version's own length -------------------------------
    with ctx.rule("C09.7", "R6", "Publish.update: the length of the file being patched in place is the data length of "
                  "the version whose shares are patched (D slot of the `version` argument, which also gives "
                  "old_segcount), extended only by the new data", expected=2) as r:
        _need("the verinfo positions of C09.1", pos)
        pu = idx.func(PUB + ".update")
        pun = FlowNorm(pu, depth=8)
        ps = first_positional_params(pu)          # data, offset, blockhashes, version
        if len(ps) < 4:
            raise AnchorVanished("Publish.update(data, offset, blockhashes, version) signature changed")
        T7 = [("%s[%d]" % (ps[3], pos["D"]), "D"), ("self._servermap.size_of_version(%s)" % ps[3], "D"),
              ("%s.get_size()" % ps[0], "NEW")]
        allowed = {"D", "NEW", "max(D, NEW)", "max(NEW, D)"}     # (max's arguments are ordered before the names are mapped)
        for (n, form, fin) in _attr_forms(pu, pun, "self.datalength", T7):
            r.site(pu, n.ast, "patched length")
            r.require(form in allowed, pu, pu.loc(n.ast),
                      "in-place update lays the file out for a length of %s; the shares being patched belong to the "
                      "version passed in, whose length is %s[%d] (a cached node size is stale after an update that "
                      "extended the file: the next update truncates the layout and every share fails validation)" % (
                          form, ps[3], pos["D"]))
        # ... and, evaluated: the length is max(old length, end of the written range), and the segments pushed are
        # those of the written range (the composition of update() with setup_encoding_parameters)
        pmod7 = idx.module("allmydata.mutable.publish")
        S7 = _div_ceil(folder.name("DEFAULT_MUTABLE_MAX_SEGMENT_SIZE", pmod7, None), 3) * 3
        T7A = ("self.datalength", "self.segment_size", "self.starting_segment", "self.end_segment", "self._current_segment")
        first = None
        runs = 0
        r.site(pu, None, "evaluated length and pushed segments")
        pts7 = _boundary_points(S7)
        for Z in [x for x in pts7 if x >= 1]:
            for off in [x for x in pts7 if x <= Z and x // S7 < _div_ceil(Z, S7)][::2] + [Z - 1]:
                for L in sorted({1, S7, Z - off, Z - off + 1, max(1, Z - off - 1)}):
                    if L < 1 or first:
                        continue
                    E = off + L
                    sim = _Sim(idx, track=T7A)
                    sim.halt_at_loops = True
                    heap = {"self": {"_version": folder.name("MDMF_VERSION", pmod7, None), "_node": _Ref("node")},
                            "node": {"get_required_shares()": 3, "get_total_shares()": 10}, "data": {"get_size()": E}}
                    fr = {"self": _Ref("self"), ps[0]: _Ref("data"), ps[1]: off, ps[2]: UNK,
                          ps[3]: _verinfo(pos, None, S7, Z, 3, 10)}
                    outs = [o for o in sim.run(pu, fr, heap)]
                    runs += 1
                    what = "a %d-byte write at offset %d of a %d-byte file (S=%d)" % (L, off, Z, S7)
                    if len(outs) != 1:
                        raise AnalysisError("cannot evaluate Publish.update up to its writer loop for %s (%d paths)" % (
                            what, len(outs)))
                    me = outs[0][2]["self"]
                    got = {a: me.get(a.split(".", 1)[1], UNK) for a in T7A}
                    if any(not isinstance(v, int) for v in got.values()):
                        raise AnalysisError("cannot evaluate %s of Publish.update for %s" % (
                            sorted(a for a, v in got.items() if not isinstance(v, int)), what))
                    want = {"self.datalength": max(Z, E), "self.starting_segment": off // S7,
                            "self._current_segment": off // S7, "self.end_segment": _div_ceil(E, S7) - 1}
                    for a, w in sorted(want.items()):
                        if got[a] != w and not first:
                            first = "for %s Publish.update sets %s = %d; the patched file is %d bytes long and the " \
                                    "uploadable supplies segments %d..%d" % (what, a, got[a], max(Z, E), off // S7,
                                                                             _div_ceil(E, S7) - 1)
        r.count(runs)
        if first:
            sts = [n for n in pu.cfg().nodes if "self.datalength" in node_stores(n)]
            r.violation(pu, pu.loc(sts[-1].ast), first)

    # ---- 8. segment ranges, by bounded concrete evaluation ------------------
    S3 = None
    with ctx.rule("C09.8", "R6", "the segments a publish pushes are exactly those holding the bytes its uploadable "
                  "supplies (first = offset // S, last = div_ceil(data.get_size(), S) - 1), and a ranged read fetches "
                  "exactly the segments holding [offset, offset + size); decided by evaluating the functions' own "
                  "arithmetic over boundary inputs", expected=5) as r:
        pmod = idx.module("allmydata.mutable.publish")
        mdmf = folder.name("MDMF_VERSION", pmod, None)
        maxseg = folder.name("DEFAULT_MUTABLE_MAX_SEGMENT_SIZE", pmod, None)
        pubs = idx.func(PUB + ".setup_encoding_parameters")
        off_p = first_positional_params(pubs)[0]
        PT = ("self.segment_size", "self.num_segments", "self.starting_segment", "self.end_segment", "self._current_segment")
        sites = {a: _last_store(pubs, a) for a in ("self.starting_segment", "self.end_segment", "self._current_segment")}
        r.site(pubs, sites["self.starting_segment"], "first pushed segment")
        r.site(pubs, sites["self.end_segment"], "last pushed segment")
        r.site(pubs, sites["self._current_segment"], "segment the push loop starts at")
        bad = {}
        runs = 0
        for K in (3, 4):
            S = _div_ceil(maxseg, K) * K
            if K == 3:
                S3 = S
            pts = _boundary_points(S)
            for D in (pts if K == 3 else pts[::3]):
                for E in [x for x in pts if x <= D]:
                    offs = {0} if E == D else set()
                    if E >= 1:
                        offs |= {E - 1, ((E - 1) // S) * S, max(0, E - S - 1)}
                    for off in sorted(offs):
                        sim = _Sim(idx, track=PT)
                        heap = {"self": {"datalength": D, "required_shares": K, "total_shares": 10, "_version": mdmf,
                                         "data": _Ref("data")}, "data": {"get_size()": E}}
                        outs = sim.run(pubs, {"self": _Ref("self"), off_p: off}, heap)
                        runs += 1
                        what = "data length %d, uploadable size %d, offset %d, k=%d" % (D, E, off, K)
                        if not outs:
                            bad.setdefault("self.end_segment", "raises for %s" % what)
                        for (_ret, _fr, hp) in outs:
                            me = hp["self"]
                            got = {a: me.get(a.split(".", 1)[1], UNK) for a in PT}
                            if any(v is UNK or not isinstance(v, int) for v in got.values()):
                                raise AnalysisError("cannot evaluate %s of %s for %s" % (
                                    sorted(a for a, v in got.items() if v is UNK or not isinstance(v, int)), short(pubs), what))
                            s_ = got["self.segment_size"]
                            if s_ <= 0:
                                raise AnalysisError("segment size evaluates to %d for %s" % (s_, what))
                            want = {"self.starting_segment": off // s_, "self.end_segment": _div_ceil(E, s_) - 1,
                                    "self._current_segment": off // s_}
                            for a, w in want.items():
                                if got[a] != w:
                                    bad.setdefault(a, "for %s (S=%d) %s is %d; the uploadable supplies the bytes of "
                                                   "segments %d..%d only%s" % (
                                                       what, s_, a, got[a], want["self.starting_segment"],
                                                       want["self.end_segment"],
                                                       " - a segment beyond them is filled with the old end segment's "
                                                       "bytes and overwrites the following segment"
                                                       if a == "self.end_segment" and got[a] > w else ""))
        sdmf = folder.name("SDMF_VERSION", pmod, None)
        for D in (1, 2, 3, 1000, 131072, 131073, 300000):      # SDMF: one segment, always a full publish
            sim = _Sim(idx, track=PT)
            heap = {"self": {"datalength": D, "required_shares": 3, "total_shares": 10, "_version": sdmf,
                             "data": _Ref("data")}, "data": {"get_size()": D}}
            outs = sim.run(pubs, {"self": _Ref("self"), off_p: 0}, heap)
            runs += 1
            if not outs:
                bad.setdefault("self.end_segment", "raises for a %d-byte SDMF publish" % D)
            for (_ret, _fr, hp) in outs:
                got = (hp["self"].get("starting_segment", UNK), hp["self"].get("end_segment", UNK))
                if UNK in got:
                    raise AnalysisError("cannot evaluate the segment range of a %d-byte SDMF publish" % D)
                if got != (0, 0):
                    bad.setdefault("self.end_segment", "a %d-byte SDMF publish pushes segments %s..%s, the file is the "
                                   "single segment 0" % (D, got[0], got[1]))
        r.count(runs)
        for a, msg in sorted(bad.items()):
            r.violation(pubs, pubs.loc(sites[a]), msg)

        rets = idx.func(RET + "._setup_encoding_parameters")
        RT = ("self._segment_size", "self._num_segments", "self._start_segment", "self._last_segment")
        rsites = {a: _last_store(rets, a) for a in ("self._start_segment", "self._last_segment")}
        r.site(rets, rsites["self._start_segment"], "first fetched segment")
        r.site(rets, rsites["self._last_segment"], "last fetched segment")
        _need("the verinfo positions of C09.1", pos)
        bad, runs = {}, 0
        S = S3
        pts = _boundary_points(S)
        for D in [x for x in pts if x >= 1]:
            for off in [x for x in pts if x < D]:
                for size in sorted({1, D - off, S - off % S, min(D - off, S + 1)}):
                    if size < 1 or off + size > D:
                        continue
                    sim = _Sim(idx, track=RT)
                    heap = {"self": {"verinfo": _verinfo(pos, None, S, D, 3, 10), "_offset": off, "_read_length": size,
                                     "_data_length": D}}
                    outs = sim.run(rets, {"self": _Ref("self")}, heap)
                    runs += 1
                    what = "a read of [%d, %d) of a %d-byte file" % (off, off + size, D)
                    if not outs:
                        bad.setdefault("self._last_segment", "raises for %s" % what)
                    for (_ret, _fr, hp) in outs:
                        me = hp["self"]
                        got = {a: me.get(a.split(".", 1)[1], UNK) for a in RT}
                        if any(v is UNK or not isinstance(v, int) for v in got.values()):
                            raise AnalysisError("cannot evaluate %s of %s for %s" % (
                                sorted(a for a, v in got.items() if v is UNK or not isinstance(v, int)), short(rets), what))
                        s_ = got["self._segment_size"]
                        want = {"self._start_segment": off // s_, "self._last_segment": (off + size - 1) // s_}
                        for a, w in want.items():
                            if got[a] != w:
                                bad.setdefault(a, "for %s (S=%d) %s is %d, the bytes are in segments %d..%d" % (
                                    what, s_, a, got[a], want["self._start_segment"], want["self._last_segment"]))
        r.count(runs)
        for a, msg in sorted(bad.items()):
            r.violation(rets, rets.loc(rsites[a]), msg)

    # ---- 9. the old boundary segments an update fetches ---------------------
    upd_obs = None
    upd_exit = []        # per observation: the attributes of `self` when _update returns (one dict per completing path)
    with ctx.rule("C09.9", "R6", "the in-place update fetches, as old boundary segments, the segments Publish pushes "
                  "first and last: update_range = (offset // S, (offset + len - 1) // S) whenever the write ends "
                  "before the old end of file", expected=1) as r:
        _need("the verinfo positions of C09.1 and the segment size of C09.8", pos, S3)
        S = S3
        up = idx.func(MFV + "._update")
        ups = first_positional_params(up)           # data, offset
        if len(ups) < 2:
            raise AnchorVanished("MutableFileVersion._update(data, offset) signature changed")
        usm = idx.func(MFV + "._update_servermap")
        if "update_range" not in usm.params:
            raise AnchorVanished("_update_servermap no longer takes update_range")
        ur_i = usm.params.index("update_range") - 1
        pts = _boundary_points(S)
        obs, runs = [], 0
        for Z in pts:
            for off in [x for x in pts if x <= Z]:
                lens = {1, S + 1, 2 * S}
                if Z > off:
                    lens |= {Z - off, Z - off - 1, Z - off + 1}
                if off % S or Z > off:
                    lens |= {S - off % S, S - off % S + 1}
                for L in sorted(x for x in lens if x >= 1):
                    sim = _Sim(idx, observe={"_update_servermap"})
                    # (the filenode's cached size is accurate here; that nothing depends on it is C09.19)
                    heap = {"self": {"get_size()": Z, "_version": _verinfo(pos, None, S, Z, 3, 10), "is_mutable()": True,
                                     "_node": _Ref("node")},
                            "node": {"get_size()": Z, "_most_recent_size": Z}, "data": {"get_size()": L}}
                    outs9 = sim.run(up, {"self": _Ref("self"), ups[0]: _Ref("data"), ups[1]: off}, heap)
                    runs += 1
                    for (ofn, call, args, kwargs) in sim.seen:
                        v = kwargs.get("update_range", args[ur_i] if ur_i < len(args) else None)
                        if v is None:
                            continue
                        if not (isinstance(v, tuple) and len(v) == 2 and all(isinstance(x, int) for x in v)):
                            raise AnalysisError("cannot evaluate the update_range of %s for a %d-byte write at %d of a "
                                                "%d-byte file: %r" % (short(ofn), L, off, Z, v))
                        obs.append((Z, off, L, v[0], v[1], ofn, call))
                        upd_exit.append([dict(hp9["self"]) for (_r9, _f9, hp9) in outs9])
        r.count(runs)
        if not obs:
            raise AnchorVanished("no in-place update reaches _update_servermap(update_range=...) from _update")
        upd_obs = obs
        r.site(upd_obs[0][5], upd_obs[0][6], "update range (%d evaluated updates)" % len(upd_obs))
        seen_bad = set()
        for (Z, off, L, a, b, ofn, call) in upd_obs:
            what = "a %d-byte write at offset %d of a %d-byte file (S=%d)" % (L, off, Z, S)
            if a != off // S and "a" not in seen_bad:
                seen_bad.add("a")
                r.violation(ofn, ofn.loc(call), "for %s the old start segment fetched is %d, Publish starts pushing at "
                            "segment %d and merges the old head of that segment" % (what, a, off // S))
            if off + L < Z and b != (off + L - 1) // S and "b" not in seen_bad:
                seen_bad.add("b")
                r.violation(ofn, ofn.loc(call), "for %s the old end segment fetched is %d, the last segment Publish "
                            "pushes is %d and its old tail must be merged back" % (what, b, (off + L - 1) // S))

    # ---- 10. decoder inputs --------------------------------------------------
    with ctx.rule("C09.10", "R1", "Retrieve._decode_blocks hands the decoder the blocks and their share numbers as "
                  "parallel sequences (the same positional selection of one sequence of (shnum, block) pairs), and "
                  "uses the tail decoder exactly for the last segment; the blocks are the first and the salt the "
                  "second component of the (block, salt) answers", expected=7) as r:
        db = idx.func(RET + "._decode_blocks")
        dbn = FlowNorm(db, depth=8)
        par = _parents(db)
        cfg = db.cfg()
        decs = [(n, c) for n in cfg.nodes for c in node_calls(n) if call_tail(c) == "decode" and len(c.args) == 2
                and not c.keywords]
        if not decs:
            raise AnchorVanished("_decode_blocks no longer calls decoder.decode(blocks, shareids)")
        wantT = N().cmp(parse_expr("segnum + 1 == self._num_segments"), True)
        wantF = N().cmp(parse_expr("segnum + 1 == self._num_segments"), False)
        recvs = set()
        for (n, c) in decs:
            r.site(db, c, "decoder inputs")
            blocks = _seq_shape(db, dbn, par, n, c.args[0])
            ids = _seq_shape(db, dbn, par, n, c.args[1])
            why = _not_parallel(ids, blocks)
            if why:
                r.violation(db, db.loc(c), "the share numbers %s and the blocks %s given to the decoder do not "
                            "correspond position by position: %s; zfec then decodes each block as a different share "
                            "and the segment is garbage whenever the answers did not arrive in that order" % (
                                _shape_txt(ids), _shape_txt(blocks), why))
            rp = attr_path(c.func.value) if isinstance(c.func, ast.Attribute) else None
            recvs.add(rp)
            want = {"self._tail_decoder": (wantT, "only for"), "self._segment_decoder": (wantF, "for every segment but")}.get(rp)
            if want is None:
                continue
            r.site(db, c, "decoder selection")
            for (t, w) in find_path_avoiding(cfg, lambda x, _n=n: x is _n,
                                             gate_edge=lambda a, lab, _w=want[0]: dbn.edge_fact(a, lab) == _w):
                r.violation(db, db.loc(c), "%s must be used %s the last segment (segnum + 1 == self._num_segments); "
                            "path: %s" % (rp, want[1], w.brief()), w)
        r.require({"self._tail_decoder", "self._segment_decoder"} <= recvs, db, db.loc(),
                  "the decoders used are %s; the tail segment is encoded with its own parameters" % sorted(map(str, recvs)))
        # which component of the {shnum: (block, salt)} answers goes where
        res_p = first_positional_params(db)[0]
        envs = _component_types(db, {res_p: ("list", ("dict", "shnum", ("tuple", ("block", "salt"))))})
        for (n, c) in decs:
            r.site(db, c, "decoder input components")
            env = envs.get(n.id, {})
            tb, ti = _type_of(env, c.args[0]), _type_of(env, c.args[1])
            if _unknown_type(tb) or _unknown_type(ti):
                raise AnalysisError("cannot decide which parts of the (block, salt) answers reach %s (%s, %s)" % (
                    src(db, c), _type_txt(tb), _type_txt(ti)))
            r.require(tb == ("list", "block") and ti == ("list", "shnum"), db, db.loc(c),
                      "the decoder is given %s as blocks and %s as share numbers; the answers are {shnum: (block, salt)}, "
                      "so anything but the blocks decodes to garbage of the wrong length without any error" % (
                          _type_txt(tb), _type_txt(ti)))
        proc = [f for f in db.nested.values() if f.name == "_process"]
        if len(proc) != 1:
            raise AnchorVanished("_decode_blocks._process")
        defn = [m for m in cfg.nodes if m.kind == "stmt" and m.ast is proc[0].node]
        if len(defn) != 1:
            raise AnalysisError("definition of _process not found in the CFG of _decode_blocks")
        env = envs.get(defn[0].id, {})
        for n in proc[0].cfg().nodes:
            if is_return(n) and isinstance(n.ast.value, ast.Tuple) and len(n.ast.value.elts) == 2:
                e = n.ast.value.elts[1]
                r.site(proc[0], e, "salt handed to decryption")
                if isinstance(e, ast.Name) and e.id in all_defs(proc[0]):
                    raise AnalysisError("the salt returned by _process is computed inside it")
                ts = _type_of(env, e)
                if _unknown_type(ts):
                    raise AnalysisError("cannot decide which part of the (block, salt) answers is used as the salt (%s)" % _type_txt(ts))
                r.require(ts == "salt", proc[0], proc[0].loc(e), "the segment is decrypted with a key derived from %s of "
                          "the (block, salt) answers instead of the salt" % _type_txt(ts))

    # ---- 11. the fetched boundary segments exist -----------------------------
    with ctx.rule("C09.11", "R6", "every old boundary segment an in-place update asks the servers for exists in the "
                  "version being updated (0 <= segnum < div_ceil(old size, S)); otherwise every share answers "
                  "LayoutInvalid and the update fails", expected=1) as r:
        _need("the evaluated update ranges of C09.9", upd_obs, S3)
        S = S3
        r.site(upd_obs[0][5], upd_obs[0][6], "fetched segments exist (%d evaluated updates)" % len(upd_obs))
        r.count(len(upd_obs))
        badobs = [o for o in upd_obs if not (0 <= o[3] < _div_ceil(o[0], S) and 0 <= o[4] < _div_ceil(o[0], S))]
        if badobs:
            aligned = [o for o in badobs if o[1] == o[0] and o[0] % S == 0]
            pick = sorted(badobs, key=lambda o: (o in aligned, o[0] == 0, o[0], o[2]))[0]
            Z, off, L, a, b, ofn, call = pick
            nseg = _div_ceil(Z, S)
            r.violation(ofn, ofn.loc(call), "a %d-byte write at offset %d of a %d-byte MDMF file (%d segments of %d "
                        "bytes) asks the servers for the old segments (%d, %d); get_block_and_salt refuses segment "
                        "numbers >= %d, so every share is reported corrupt and the update fails.  %d of %d evaluated "
                        "in-place updates do this; %s" % (
                            L, off, Z, nseg, S, a, b, nseg, len(badobs), len(upd_obs),
                            "all of them are appends at offset == size where size is 0 or a multiple of the segment size"
                            if len(aligned) == len(badobs) else
                            "%d of them are not appends at a segment-aligned end of file" % (len(badobs) - len(aligned))))

    # ---- 12. head / tail trimming of a ranged read ---------------------------
    with ctx.rule("C09.12", "R6", "Retrieve._set_segment hands the consumer exactly the bytes of the decoded segment "
                  "that lie in [offset, offset + size) and moves on to the next segment; decided by evaluating the "
                  "function's own statements over boundary reads", expected=1) as r:
        _need("the segment size of C09.8", S3)
        S = S3
        ss = idx.func(RET + "._set_segment")
        seg_p = first_positional_params(ss)[0]
        wr = [c for c in calls_in_func(ss, "write")]
        if not wr:
            raise AnchorVanished("_set_segment no longer writes to the consumer")
        r.site(ss, wr[0], "delivered bytes")
        pts = _boundary_points(S)
        bad, runs = None, 0
        for D in [x for x in pts if x >= 1]:
            if bad:
                break
            for off in [x for x in pts if x < D]:
                if bad:
                    break
                for size in sorted({1, 2, D - off, S - off % S, min(D - off, S + 1), min(D - off, 2 * S)}):
                    if size < 1 or off + size > D or bad:
                        continue
                    first, last = off // S, (off + size - 1) // S
                    for c in sorted({first, last, (first + last) // 2}):
                        sim = _Sim(idx, observe={"write"})
                        heap = {"self": {"_read_length": size, "_offset": off, "_segment_size": S, "_current_segment": c,
                                         "_start_segment": first, "_last_segment": last, "_verify": False,
                                         "_data_length": D, "_consumer": _Ref("consumer")}, "consumer": {}}
                        plain = _Data([("file", c * S, min((c + 1) * S, D))])
                        outs = sim.run(ss, {"self": _Ref("self"), seg_p: plain}, heap)
                        runs += 1
                        what = "segment %d of a read of [%d, %d) of a %d-byte file (S=%d)" % (c, off, off + size, D, S)
                        want = _Data([("file", max(off, c * S), min(off + size, (c + 1) * S))])
                        if len(outs) != 1:
                            bad = "%s: _set_segment %s" % (what, "raises" if not outs else "could not be evaluated "
                                                           "(%d undetermined paths)" % len(outs))
                            break
                        got = _Data()
                        for (_f, _c, args, kwargs) in sim.seen:
                            if len(args) != 1 or kwargs or not (isinstance(args[0], _Data) or args[0] == b""):
                                raise AnalysisError("cannot evaluate what _set_segment writes for %s: %r" % (what, args))
                            got = got + args[0]
                        if got != want:
                            bad = "for %s the consumer is given %s, the bytes of the read in that segment are %s" % (
                                what, got, want)
                            break
                        nxt = outs[0][2]["self"].get("_current_segment", UNK)
                        if nxt != c + 1:
                            bad = "after %s the next segment to fetch is %s, not %d" % (what, nxt, c + 1)
                            break
        r.count(runs)
        if bad:
            r.violation(ss, ss.loc(wr[0]), bad)

    # ---- 13. stitching of old boundary segments and new data ------------------
    with ctx.rule("C09.13", "R6", "TransformingUploadable hands Publish, segment by segment, the new file contents: old "
                  "bytes of the start segment before the write offset, the new data, old bytes of the end segment "
                  "behind the written range; decided by evaluating __init__ and read over boundary updates",
                  expected=2) as r:
        _need("the segment size of C09.8", S3)
        S = S3
        tui = idx.func("mutable.publish:TransformingUploadable.__init__")
        tur = idx.func("mutable.publish:TransformingUploadable.read")
        ips = first_positional_params(tui)          # data, offset, segment_size, start, end
        rps = first_positional_params(tur)          # length
        if len(ips) < 5 or len(rps) < 1:
            raise AnchorVanished("TransformingUploadable(data, offset, segment_size, start, end).read(length) changed")
        r.site(tui, None, "uploadable state")
        rets = [n for n in tur.cfg().nodes if is_return(n)]
        if not rets:
            raise AnchorVanished("TransformingUploadable.read no longer returns data")
        r.site(tur, rets[-1].ast, "stitched segment")

        def newdata(L):
            def rd(hp, args):
                n = args[0] if len(args) == 1 else UNK
                at = hp["newdata"]["pos()"]
                if not isinstance(n, int) or isinstance(n, bool):
                    return UNK
                n = (L - at) if n < 0 else min(n, L - at)          # a file-like read
                hp["newdata"]["pos()"] = at + n
                return [_Data([("new", at, at + n)])]
            return {"get_size()": L, "pos()": 0, "read(*)": rd}

        pts = _boundary_points(S)
        bad, runs = None, 0
        for Z in [x for x in pts if x >= 1]:
            if bad:
                break
            for off in [x for x in pts if x <= Z and x // S < _div_ceil(Z, S)]:       # the in-place gate of _update
                if bad:
                    break
                lens = {1, 2, S - 1, S, S + 1, 2 * S, 2 * S + 1}
                if Z > off:
                    lens |= {Z - off, Z - off - 1, Z - off + 1}
                lens |= {S - off % S, S - off % S + 1, S - off % S - 1}
                for L in sorted(x for x in lens if x >= 1):
                    E = off + L
                    s0 = off // S
                    e0 = (E - 1) // S if E < Z else s0
                    newlen = max(Z, E)
                    nseg = _div_ceil(newlen, S)
                    what = "a %d-byte write at offset %d of a %d-byte file (S=%d)" % (L, off, Z, S)
                    heap = {"self": {}, "newdata": newdata(L)}
                    fr = {"self": _Ref("self"), ips[0]: _Ref("newdata"), ips[1]: off, ips[2]: S,
                          ips[3]: _Data([("old", s0 * S, min((s0 + 1) * S, Z))]),
                          ips[4]: _Data([("old", e0 * S, min((e0 + 1) * S, Z))])}
                    outs = _Sim(idx).run(tui, fr, heap)
                    runs += 1
                    if len(outs) != 1:
                        bad = (tui, None, "TransformingUploadable.__init__ %s for %s" % (
                            "raises" if not outs else "could not be evaluated", what))
                        break
                    hp = outs[0][2]
                    size = _Sim(idx).run(idx.func("mutable.publish:TransformingUploadable.get_size"),
                                         {"self": _Ref("self")}, copy.deepcopy(hp))
                    if len(size) != 1 or size[0][0] != E:
                        bad = (tui, None, "for %s the uploadable reports a size of %s; Publish takes the end of the written "
                               "range (%d) from it" % (what, size[0][0] if len(size) == 1 else "?", E))
                        break
                    for c in range(s0, (E - 1) // S + 1):
                        n = S if c + 1 < nseg else newlen - c * S
                        outs = _Sim(idx).run(tur, {"self": _Ref("self"), rps[0]: n}, hp)
                        runs += 1
                        if len(outs) != 1:
                            bad = (tur, rets[-1].ast, "read(%d) for segment %d of %s %s" % (
                                n, c, what, "raises" if not outs else "could not be evaluated"))
                            break
                        got, _fr, hp = outs[0]
                        want = _Data([("old", c * S, min(off, c * S + n)),
                                      ("new", max(c * S, off) - off, min(c * S + n, E) - off),
                                      ("old", max(E, c * S), c * S + n)])
                        if isinstance(got, list) and all(isinstance(x, _Data) for x in got):
                            got = sum(got, _Data())
                        if not isinstance(got, _Data):
                            raise AnalysisError("cannot evaluate what read(%d) returns for segment %d of %s: %r" % (
                                n, c, what, got))
                        if got != want:
                            bad = (tur, rets[-1].ast, "for %s, segment %d (%d bytes) is built as %s; the new file has %s "
                                   "there" % (what, c, n, got, want))
                            break
                    if bad:
                        break
        r.count(runs)
        if bad:
            r.violation(bad[0], bad[0].loc(bad[1]) if bad[1] is not None else bad[0].loc(), bad[2])

    # ---- 14. the fetched boundary segments keep their roles on the way to the uploadable ------------------
    with ctx.rule("C09.14", "R5", "the old start segment, old end segment and old block hash tree fetched by the "
                  "servermap update reach TransformingUploadable(start, end) and Publish.update(blockhashes) in their "
                  "own roles: update_range -> get_block_and_salt order -> update_data tuple -> decode(segment number) "
                  "-> gatherResults order -> constructor arguments", expected=12) as r:
        _need("the evaluated update ranges of C09.9", upd_obs)
        # (0) MutableFileVersion._update_servermap hands its update_range on to the ServermapUpdater
        usm = idx.func(MFV + "._update_servermap")
        usn = FlowNorm(usm)
        smi = idx.func(SMU + ".__init__")
        sm_ps = first_positional_params(smi)
        ctor_calls = [(n, c) for n in usm.cfg().nodes for c in node_calls(n) if call_tail(c) == "ServermapUpdater"]
        if not ctor_calls or "update_range" not in usm.params:
            raise AnchorVanished("_update_servermap(update_range) no longer builds a ServermapUpdater")
        r.site(usm, ctor_calls[0][1], "update_range handed to the servermap updater")
        for (n, c) in ctor_calls:
            given = kwarg(c, "update_range")
            if given is None and "update_range" in sm_ps and sm_ps.index("update_range") < len(c.args):
                given = c.args[sm_ps.index("update_range")]
            if given is not None and attr_path(usn.resolve(n, given)) == "update_range":
                continue
            for (t, w) in find_path_avoiding(usm.cfg(), lambda x, _n=n: x is _n,
                                             gate_edge=lambda a, lab: usn.edge_fact(a, lab) in (
                                                 ("false", "update_range", None), ("is", "None", "update_range"),
                                                 ("is", "update_range", "None"))):
                r.violation(usm, usm.loc(c), "_update_servermap can build its ServermapUpdater without the update_range "
                            "it was given (path: %s); the old boundary segments are then not fetched" % w.brief(), w)
        # (a) ServermapUpdater.__init__: which attribute holds update_range[0] / [1]
        if "update_range" not in smi.params:
            raise AnchorVanished("ServermapUpdater.__init__ no longer takes update_range")
        smn = FlowNorm(smi)
        seg_attr = {}
        for n in smi.cfg().nodes:
            if n.kind == "stmt" and isinstance(n.ast, ast.Assign):
                for t in n.ast.targets:
                    pth = attr_path(t)
                    m = re.match(r"^update_range\[(\d+)\]$", smn.norm(n, n.ast.value))
                    if pth and pth.startswith("self.") and m:
                        r.site(smi, n.ast, "update_range[%s] -> %s" % (m.group(1), pth))
                        if pth in seg_attr and seg_attr[pth] != int(m.group(1)):
                            r.violation(smi, smi.loc(n.ast), "%s is taken from two update_range positions" % pth)
                        seg_attr[pth] = int(m.group(1))
        if sorted(seg_attr.values()) != [0, 1]:
            raise AnchorVanished("ServermapUpdater.__init__ no longer stores update_range[0] and update_range[1]")
        role_of_attr = {a: ("start" if i == 0 else "end") for a, i in seg_attr.items()}
        # (b) the fetch: order of the Deferreds gathered for _got_update_results_one_share
        cg = get_callgraph(idx)
        fetch = None
        for cs in cg.calls_named("get_block_and_salt"):
            if cs.fn.module is smi.module and cs.call.args and attr_path(cs.call.args[0]) in role_of_attr:
                fetch = cs.fn
        if fetch is None:
            raise AnchorVanished("no get_block_and_salt(self.start_segment / self.end_segment) in the servermap updater")
        regs = [x for x in registrations(fetch) if x.kind == "cb" and x.target_name().endswith("_got_update_results_one_share")]
        if len(regs) != 1:
            raise AnchorVanished("%s no longer registers _got_update_results_one_share once" % short(fetch))
        fcfg = fetch.cfg()
        gat = None
        for n in fcfg.nodes:
            v = assign_value(n, regs[0].recv) if regs[0].recv else None
            if isinstance(v, ast.Call) and call_tail(v) in ("gatherResults", "DeferredList") and v.args:
                gat = (n, v)
        if gat is None:
            raise AnchorVanished("%s: the Deferred given to _got_update_results_one_share is not a gatherResults(...)" % short(fetch))

        def fetched_role(e):
            if isinstance(e, ast.Call):
                t = call_tail(e)
                if t == "get_block_and_salt" and e.args:
                    return role_of_attr.get(attr_path(e.args[0]), "?" + norm_plain(e.args[0]))
                return {"get_verinfo": "verinfo", "get_blockhashes": "bht"}.get(t, "?" + t)
            return "?" + norm_plain(e)
        produced = _gathered(fetch, gat[0], gat[1].args[0], fetched_role)
        r.site(fetch, gat[1], "fetched in the order %s" % produced)
        # (c) _got_update_results_one_share: results[i] -> update_data tuple
        gu = idx.func(SMU + "._got_update_results_one_share")
        gun = FlowNorm(gu, depth=8)
        res_p = first_positional_params(gu)[0]
        datum = None
        for n in gu.cfg().nodes:
            for c in node_calls(n):
                if call_tail(c) == "set_update_data_for_share_and_verinfo" and len(c.args) >= 3:
                    v = gun.resolve(n, c.args[2])
                    at = _node_of(gu, v) if isinstance(v, ast.Tuple) else n
                    if not isinstance(v, ast.Tuple):
                        raise AnalysisError("update data stored by %s is %s, not a tuple" % (short(gu), src(gu, c.args[2])))
                    datum = []
                    for e in v.elts:
                        m = re.match(r"^%s\[(\d+)\]$" % re.escape(res_p), gun.norm(at, e))
                        i = int(m.group(1)) if m else None
                        datum.append(produced[i] if i is not None and i < len(produced) else "?" + gun.norm(at, e))
                    r.site(gu, c, "update data is %s" % datum)
        if datum is None:
            raise AnchorVanished("_got_update_results_one_share no longer stores the update data")
        for need in ("bht", "start", "end"):
            r.require(datum.count(need) == 1, gu, gu.loc(), "the update data recorded per share is %s; it must carry the "
                      "old block hashes, the old start segment and the old end segment once each" % datum)
        # (c') the (verinfo, data) pairs of ServerMap.update_data
        sud = idx.func("mutable.servermap:ServerMap.set_update_data_for_share_and_verinfo")
        sps = first_positional_params(sud)
        pair_pos = None
        for c in calls_in_func(sud, "append"):
            if c.args and isinstance(c.args[0], ast.Tuple) and len(sps) >= 3:
                names = [attr_path(e) for e in c.args[0].elts]
                if sps[2] in names:
                    pair_pos = names.index(sps[2])
                    r.site(sud, c, "update data kept at position %d of the stored entry" % pair_pos)
        if pair_pos is None:
            raise AnchorVanished("set_update_data_for_share_and_verinfo no longer appends (verinfo, data)")
        # (d) _decode_and_decrypt_segments: datum[i] -> dict -> decode(dict, self.<segment attr>) -> gather order
        dd = idx.func(MFV + "._decode_and_decrypt_segments")
        ddn = FlowNorm(dd, depth=8)
        role_of_dict, bases = {}, set()
        for n in dd.cfg().nodes:
            if n.kind == "stmt" and isinstance(n.ast, ast.Assign) and len(n.ast.targets) == 1:
                t, v = n.ast.targets[0], n.ast.value
                if isinstance(t, ast.Subscript) and isinstance(t.value, ast.Name) and isinstance(v, ast.Subscript) \
                        and isinstance(v.value, ast.Name) and isinstance(v.slice, ast.Constant) and isinstance(v.slice.value, int):
                    i = v.slice.value
                    role_of_dict[t.value.id] = datum[i] if 0 <= i < len(datum) else "?%s[%d]" % (v.value.id, i)
                    bases.add(v.value.id)
        if len(bases) != 1 or len(role_of_dict) < 3:
            raise AnchorVanished("_decode_and_decrypt_segments no longer splits one update datum into per-share tables")
        base = bases.pop()
        sel = [e for e in all_defs(dd).get(base, []) if e is not None]
        picks = set()
        for e in sel:
            for dv in [e] + [x for nm in names_in(e) for x in all_defs(dd).get(nm, []) if x is not None]:
                for x in ast.walk(dv):
                    if isinstance(x, ast.ListComp) and isinstance(x.elt, ast.Subscript) and isinstance(x.elt.slice, ast.Constant):
                        picks.add(x.elt.slice.value)
        r.site(dd, None, "update datum taken from position %s of the stored entries" % sorted(picks))
        r.require(picks == {pair_pos}, dd, dd.loc(), "_decode_and_decrypt_segments takes the update datum from position %s "
                  "of the (verinfo, data) entries; ServerMap keeps it at position %d" % (sorted(picks), pair_pos))
        seg_of_role, role_of_var = {}, {}
        for n in dd.cfg().nodes:
            if n.kind == "stmt" and isinstance(n.ast, ast.Assign) and isinstance(n.ast.value, ast.Call) \
                    and len(n.ast.targets) == 1 and isinstance(n.ast.targets[0], ast.Name):
                c = n.ast.value
                if call_tail(c) == "decode" and len(c.args) == 2 and isinstance(c.args[0], ast.Name):
                    ro = role_of_dict.get(c.args[0].id, "?" + c.args[0].id)
                    r.site(dd, c, "decode of the old %s segment" % ro)
                    seg_of_role[ro] = (attr_path(c.args[1]), c)
                    role_of_var[n.ast.targets[0].id] = ro
                elif call_tail(c) == "succeed" and len(c.args) == 1 and isinstance(c.args[0], ast.Name):
                    role_of_var[n.ast.targets[0].id] = role_of_dict.get(c.args[0].id, "?" + c.args[0].id)
        if set(seg_of_role) != {"start", "end"}:
            r.violation(dd, dd.loc(), "the segments decoded for the update are %s; the uploadable needs the old start "
                        "segment and the old end segment" % sorted(seg_of_role))
        for ro, (ap, c) in sorted(seg_of_role.items()):
            if not (ap and ap.startswith("self.")):
                raise AnalysisError("segment number of the decoded %s segment is %s" % (ro, src(dd, c.args[1])))
            which = 3 if ro == "start" else 4
            for o, exits in zip(upd_obs, upd_exit):
                vals = {me.get(ap[5:], UNK) for me in exits}
                if vals != {o[which]}:
                    r.violation(dd, dd.loc(c), "the old %s segment is decoded as segment number %s = %s, but the segment "
                                "fetched for a %d-byte write at offset %d of a %d-byte file is number %d (the tail "
                                "segment is trimmed and decoded differently from the others)" % (
                                    ro, ap, sorted(map(str, vals)), o[2], o[1], o[0], o[which]))
                    break
        gathered = None
        for n in dd.cfg().nodes:
            if is_return(n):
                v = ddn.resolve(n, n.ast.value)
                if isinstance(v, ast.Call) and call_tail(v) in ("gatherResults",) and v.args:
                    gathered = _gathered(dd, n, v.args[0], lambda e: role_of_var.get(e.id, "?" + e.id)
                                         if isinstance(e, ast.Name) else "?" + norm_plain(e))
                    r.site(dd, v, "handed on in the order %s" % gathered)
        if gathered is None:
            raise AnchorVanished("_decode_and_decrypt_segments no longer returns gatherResults([...])")
        # (e) _build_uploadable_and_finish: positions -> constructor / Publish.update parameters
        bu = idx.func(MFV + "._build_uploadable_and_finish")
        bun = FlowNorm(bu, depth=8)
        bps = first_positional_params(bu)            # segments_and_bht, data, offset
        tui = idx.func("mutable.publish:TransformingUploadable.__init__")
        ips = first_positional_params(tui)
        pu = idx.func(PUB + ".update")
        pps = first_positional_params(pu)

        def passed(fn_, call, params):
            got = {}
            for i, a in enumerate(call.args):
                if i < len(params):
                    got[params[i]] = a
            for kw in call.keywords:
                if kw.arg:
                    got[kw.arg] = kw.value
            return got

        def role_at(node, e):
            m = re.match(r"^%s\[(\d+)\]$" % re.escape(bps[0]), bun.norm(node, e))
            if m and int(m.group(1)) < len(gathered):
                return gathered[int(m.group(1))]
            return "?" + bun.norm(node, e)
        ctor = upd = None
        for n in bu.cfg().nodes:
            for c in node_calls(n):
                if call_tail(c) == "TransformingUploadable":
                    ctor = (n, c)
                elif call_tail(c) == "update" and len(c.args) + len(c.keywords) >= 4:
                    upd = (n, c)
        if ctor is None or upd is None or len(ips) < 5 or len(pps) < 4 or len(bps) < 3:
            raise AnchorVanished("_build_uploadable_and_finish no longer builds TransformingUploadable and calls Publish.update")
        n, c = ctor
        got = passed(bu, c, ips)
        r.site(bu, c, "uploadable arguments")
        for prm, want in ((ips[3], "start"), (ips[4], "end")):
            ro = role_at(n, got[prm]) if prm in got else "nothing"
            r.require(ro == want, bu, bu.loc(c), "TransformingUploadable receives the old %s as its `%s` (the old %s "
                      "segment); the bytes around the written range are then stitched from the wrong segment" % (
                          ro if not ro.startswith("?") else ro[1:], prm, want))
        for prm, want in ((ips[0], bps[1]), (ips[1], bps[2])):
            r.require(prm in got and attr_path(got[prm]) == want, bu, bu.loc(c), "TransformingUploadable's `%s` is %s, "
                      "not the `%s` of the update" % (prm, src(bu, got[prm]) if prm in got else "missing", want))
        n, c = upd
        got = passed(bu, c, pps)
        r.site(bu, c, "Publish.update arguments")
        ro = role_at(n, got[pps[2]]) if pps[2] in got else "nothing"
        r.require(ro == "bht", bu, bu.loc(c), "Publish.update receives the old %s as its `%s` (the old block hash "
                  "trees it patches)" % (ro if not ro.startswith("?") else ro[1:], pps[2]))
        u0 = bun.resolve(n, got[pps[0]]) if pps[0] in got else None
        r.require(u0 is ctor[1], bu, bu.loc(c), "Publish.update is not given the TransformingUploadable built here")
        r.require(pps[1] in got and attr_path(got[pps[1]]) == bps[2], bu, bu.loc(c),
                  "Publish.update's `%s` is %s, not the offset of the update" % (
                      pps[1], src(bu, got[pps[1]]) if pps[1] in got else "missing"))
        r.require(pps[3] in got and attr_path(got[pps[3]]) == "self._version", bu, bu.loc(c),
                  "Publish.update's `%s` is %s, not the version being updated" % (
                      pps[3], src(bu, got[pps[3]]) if pps[3] in got else "missing"))

    # ---- 15. every step of an operation returns the Deferred of the work it started ----------------------------
    with ctx.rule("C09.15", "R1", "each function on the write / update / read path returns the Deferred on which the "
                  "work it started completes (never None, never falling off the end), so the caller's Deferred cannot "
                  "fire before the shares are written / the bytes delivered; _update dispatches every update to the "
                  "re-encode path or to the in-place chain fetch -> decode -> build uploadable and publish",
                  expected=28) as r:
        OPS = [MFV + "." + x for x in ("update", "_update", "_do_modify_update", "_do_update_update", "_update_servermap",
                                       "_decode_and_decrypt_segments", "_build_uploadable_and_finish", "overwrite",
                                       "_overwrite", "_upload", "modify", "_modify", "_modify_and_retry", "_modify_once",
                                       "read", "_read", "_do_serialized")]
        OPS += [PUB + ".update", PUB + ".publish", RET + ".download", RET + ".decode", RET + "._process_segment",
                RET + "._maybe_decode_and_decrypt_segment", RET + "._decode_blocks"]
        for q in OPS:
            fn = idx.func(q)
            fnorm = FlowNorm(fn, depth=8)
            cfg = fn.cfg()
            r.site(fn, None, "returns its Deferred")
            if _is_inline_callbacks(fn):
                # generator style: the caller always gets a Deferred, which fires when the generator finishes; what is left
                # of the obligation is that the steps it starts are waited for (yielded) before it finishes
                for (c, why) in _unawaited_steps(idx, fn, {x.split(".")[-1] for x in OPS}):
                    r.violation(fn, fn.loc(c), "%s (inlineCallbacks) %s; its Deferred then fires before (or without) the "
                                "operation being carried out" % (short(fn), why))
                continue
            if any(isinstance(x, (ast.Yield, ast.YieldFrom)) for x in func_own_nodes(fn)):
                r.violation(fn, fn.loc(), "%s is a generator function without inlineCallbacks: its callers get a generator "
                            "object instead of the Deferred of the work, and nothing is carried out" % short(fn))
                continue
            for (sid, lab) in cfg.pred[cfg.exit.id]:
                if lab == "exc":
                    continue
                n = cfg.nodes[sid]
                if not is_return(n):
                    r.violation(fn, fn.loc(n.ast) if n.ast is not None else fn.loc(), "%s can fall off its end without "
                                "returning the Deferred of the work it started; its caller's Deferred then fires at "
                                "once and the operation is reported done before (or without) being carried out" % short(fn))
                    continue
                why = _not_a_deferred(fn, fnorm, n, n.ast.value)
                if why:
                    r.violation(fn, fn.loc(n.ast), "%s returns %s instead of the Deferred of the work it started; its "
                                "caller's Deferred then fires at once and the operation is reported done before (or "
                                "without) being carried out" % (short(fn), why))
        # the modify loop: an upload that is started is waited for
        mo = idx.func(MFV + "._modify_once")
        ap = [f for f in mo.nested.values() if calls_in_func(f, "_upload")]
        if len(ap) != 1:
            raise AnchorVanished("_modify_once no longer has one callback that uploads the modified contents")
        ap = ap[0]
        r.site(ap, None, "upload of the modified contents is returned")
        for n in ap.cfg().nodes:
            if has_call("_upload")(n) and not is_return(n):
                v = [t for t in node_stores(n)]
                rets = [m for m in ap.cfg().nodes if is_return(m) and isinstance(m.ast.value, ast.Name) and m.ast.value.id in v]
                r.require(bool(rets), ap, ap.loc(n.ast), "the upload of the modified contents is started but its Deferred "
                          "is not returned; modify() then reports success before the new contents are written")
        regs = [x for x in registrations(mo) if x.kind == "cb" and x.target_name() == ap.name]
        r.require(bool(regs), mo, mo.loc(), "%s is not registered on the download Deferred of _modify_once" % ap.name)
        # ... and the only way out of it without an upload is "the modifier changed nothing"
        apn = FlowNorm(ap, depth=8)
        acfg = ap.cfg()
        old_p = first_positional_params(ap)[0]
        mcalls = [(n, c) for n in acfg.nodes for c in node_calls(n) if isinstance(c.func, ast.Name)
                  and c.func.id in mo.params and c.args and attr_path(c.args[0]) == old_p]
        if len(mcalls) != 1:
            raise AnchorVanished("_modify_once._apply no longer calls the modifier on the old contents once")
        M_ = N(ap).norm(mcalls[0][1])
        r.site(ap, mcalls[0][1], "no-change test")

        def unchanged(n, lab):
            f = apn.edge_fact(n, lab)
            if not f:
                return False
            return (f[0] == "is" and {f[1], f[2]} == {"None", M_}) or (f[0] == "==" and {f[1], f[2]} == {M_, old_p})
        for n in acfg.nodes:
            if is_return(n) and not has_call("_upload")(n) and _not_a_deferred(ap, apn, n, n.ast.value):
                for (t, w) in find_path_avoiding(acfg, lambda x, _n=n: x is _n, gate_edge=unchanged):
                    r.violation(ap, ap.loc(n.ast), "modify() can finish without uploading although the modifier "
                                "returned new contents (path: %s)" % w.brief(), w)
        for n in acfg.nodes:
            for c in calls_at(n, "_upload"):
                if not c.args or not isinstance(c.args[0], ast.Name):
                    continue
                for dnode_id in apn.rd.get(n.id, {}).get(c.args[0].id, ()):
                    if dnode_id < 0:
                        continue
                    dn = acfg.nodes[dnode_id]
                    at, v = _def_of(apn, dn, apn._def_value(dn, c.args[0].id))
                    what = apn.norm(at, v.args[0]) if isinstance(v, ast.Call) and call_tail(v) == "MutableData" and v.args else None
                    if what == M_:
                        continue
                    if what == old_p:
                        for (t, w) in find_path_avoiding(acfg, lambda x, _d=dn: x is _d, gate_edge=unchanged):
                            r.violation(ap, ap.loc(dn.ast), "the old contents are uploaded on a path where the modifier's "
                                        "result was not found unchanged (path: %s)" % w.brief(), w)
                        continue
                    r.violation(ap, ap.loc(dn.ast), "modify() uploads %s instead of the contents the modifier returned" % (
                        src(ap, v) if v is not None else c.args[0].id))
        mr = idx.func(MFV + "._modify_and_retry")
        steps = []
        for x in registrations(mr):
            if x.kind == "cb":
                body = x.target
                if isinstance(body, ast.Lambda):
                    steps += [call_tail(c) for c in ast.walk(body.body) if isinstance(c, ast.Call)]
                else:
                    steps.append(x.target_name().split(".")[-1])
        r.site(mr, None, "modify attempt chained behind the servermap update")
        r.require("_modify_once" in steps, mr, mr.loc(), "_modify_and_retry no longer runs _modify_once behind the "
                  "servermap update (callbacks: %s); modify() then succeeds without applying the modifier" % steps)
        # _update: the dispatch
        up = idx.func(MFV + "._update")
        upn = FlowNorm(up, depth=8)
        ups = first_positional_params(up)
        cfg = up.cfg()
        chain_var = None
        for n in cfg.nodes:
            if n.kind == "stmt" and isinstance(n.ast, ast.Assign) and isinstance(n.ast.value, ast.Call) \
                    and call_tail(n.ast.value) == "_do_update_update" and isinstance(n.ast.targets[0], ast.Name):
                chain_var = n.ast.targets[0].id
        if chain_var is None:
            raise AnchorVanished("_update no longer keeps the Deferred of _do_update_update")
        r.site(up, None, "update dispatch")
        for n in cfg.nodes:
            if not is_return(n) or n.ast.value is None:
                continue
            v = upn.resolve(n, n.ast.value)
            if isinstance(v, ast.Name) and v.id == chain_var:
                continue
            if isinstance(v, ast.Call) and call_tail(v) in ("_do_modify_update", "_do_update_update"):
                continue
            if _not_a_deferred(up, upn, n, n.ast.value):
                continue            # reported above
            r.violation(up, up.loc(n.ast), "_update returns %s, which is neither the re-encoding update nor the in-place "
                        "update chain" % src(up, n.ast.value))

        for n in cfg.nodes:
            if (has_call("_do_modify_update")(n) or has_call("_do_update_update")(n)) and not is_return(n) \
                    and not (n.kind == "stmt" and isinstance(n.ast, ast.Assign)):
                r.violation(up, up.loc(n.ast), "_update starts %s but neither returns nor keeps its Deferred" % src(up, n.ast))

        def same_args(fn_, call, callee_q, what):
            cal = idx.func(callee_q)
            cps = first_positional_params(cal)
            got = [attr_path(a) for a in call.args] + [None] * 4
            r.require(got[:2] == ups[:2] and not call.keywords, fn_, fn_.loc(call), "%s is given (%s), the update is "
                      "(%s, %s) = (%s)" % (what, ", ".join(src(fn_, a) for a in call.args), ups[0], ups[1],
                                           ", ".join(cps[:2])))
        for c in calls_in_func(up, "_do_modify_update"):
            same_args(up, c, MFV + "._do_modify_update", "_do_modify_update")
        for c in calls_in_func(up, "_do_update_update"):
            same_args(up, c, MFV + "._do_update_update", "_do_update_update")
        chain = [x for x in registrations(up, chain_var) if x.kind == "cb"]
        names = [x.target_name().split(".")[-1] for x in chain]
        want = ["_decode_and_decrypt_segments", "_build_uploadable_and_finish"]
        r.require(names == want, up, up.loc(), "the in-place update chain is %s, expected fetch -> %s" % (names, " -> ".join(want)))
        for x in chain:
            if x.target_name().split(".")[-1] in want:
                r.require([attr_path(a) for a in x.args] == ups[:2], up, up.loc(x.call), "%s is registered with (%s), "
                          "the update is (%s, %s)" % (x.target_name(), ", ".join(src(up, a) for a in x.args), ups[0], ups[1]))

    # ---- 16. the share-data region holds every block ----------------------------------------
    with ctx.rule("C09.16", "R5", "MDMFSlotWriteProxy places the block hash tree behind the last block: every "
                  "salt||block written by put_block lies inside [offsets['share_data'], offsets['block_hash_tree']) and "
                  "blocks do not overlap; decided by evaluating __init__ and put_block over boundary file sizes",
                  expected=2) as r:
        _need("the segment size of C09.8", S3)
        S = S3
        wpi = idx.func(WP + ".__init__")
        pb = idx.func(WP + ".put_block")
        ips = first_positional_params(wpi)       # shnum, storage_server, storage_index, secrets, seqnum, k, N, S, D
        bps = first_positional_params(pb)        # data, segnum, salt
        if len(ips) < 9 or len(bps) < 3:
            raise AnchorVanished("MDMFSlotWriteProxy(shnum, .., k, N, segment_size, data_length).put_block(data, segnum, salt) changed")
        salt_size = folder.name("SALT_SIZE", wpi.module, None)
        bht_store = [n for n in wpi.cfg().nodes if "self._offsets[]" in node_stores(n) and isinstance(n.ast, ast.Assign)
                     and norm_plain(n.ast.targets[0]) == "self._offsets['block_hash_tree']"]
        if not bht_store:
            raise AnchorVanished("MDMFSlotWriteProxy.__init__ no longer places the block hash tree")
        r.site(wpi, bht_store[-1].ast, "block hash tree offset")
        apps = [c for c in calls_in_func(pb, "append") if call_name(c) == "self._writevs.append"]
        if not apps:
            raise AnchorVanished("put_block no longer queues a write vector")
        r.site(pb, apps[0], "block extent")
        bad, runs = None, 0
        for D in [x for x in _boundary_points(S) if x >= 1]:
            if bad:
                break
            fr = {"self": _Ref("self"), ips[0]: 0, ips[1]: UNK, ips[2]: UNK, ips[3]: UNK, ips[4]: 1, ips[5]: 3, ips[6]: 10,
                  ips[7]: S, ips[8]: D}
            outs = _Sim(idx).run(wpi, fr, {"self": {}})
            runs += 1
            what = "a %d-byte MDMF file (k=3, S=%d)" % (D, S)
            if len(outs) != 1:
                raise AnalysisError("cannot evaluate MDMFSlotWriteProxy.__init__ for %s (%d paths)" % (what, len(outs)))
            hp = outs[0][2]
            offs = hp["self"].get("_offsets", UNK)
            if not isinstance(offs, dict) or not all(isinstance(offs.get(k), int) for k in ("share_data", "block_hash_tree")):
                raise AnalysisError("cannot evaluate the share_data / block_hash_tree offsets of %s: %r" % (what, offs))
            lo, hi = offs["share_data"], offs["block_hash_tree"]
            nseg = _div_ceil(D, S)
            tail = D - (nseg - 1) * S
            prev_end = lo
            for segnum in sorted({0, max(0, nseg - 2), nseg - 1}):
                blen = _div_ceil(S if segnum + 1 < nseg else tail, 3)
                sim = _Sim(idx, observe={"append"})
                outs = sim.run(pb, {"self": _Ref("self"), bps[0]: _Data([("block", 0, blen)]), bps[1]: segnum,
                                    bps[2]: _Data([("salt", 0, salt_size)])}, copy.deepcopy(hp))
                runs += 1
                vec = [a[0] for (_f, _c, a, _k) in sim.seen if len(a) == 1 and isinstance(a[0], tuple) and len(a[0]) == 2]
                if len(outs) != 1 or len(vec) != 1:
                    bad = (pb, apps[0], "put_block %s for block %d (%d bytes) of %s" % (
                        "raises" if not outs else "queues %d write vectors" % len(vec), segnum, blen, what))
                    break
                at, payload = vec[0]
                if not isinstance(at, int) or not isinstance(payload, _Data):
                    raise AnalysisError("cannot evaluate the write vector of block %d of %s: %r" % (segnum, what, vec[0]))
                if at < prev_end and segnum > 0 or at < lo:
                    bad = (pb, apps[0], "block %d of %s is written at offset %d, inside the %s that ends at %d" % (
                        segnum, what, at, "previous block" if at >= lo else "share header area", prev_end if at >= lo else lo))
                    break
                if at + len(payload) > hi:
                    bad = (wpi, bht_store[-1].ast, "block %d of %s (salt + block = %d bytes) is written at [%d, %d) but the "
                           "block hash tree is placed at offset %d: the tree overwrites the end of the share data, "
                           "every share fails its block hash check and the file cannot be read back" % (
                               segnum, what, len(payload), at, at + len(payload), hi))
                    break
                if segnum == 0:
                    prev_end = at + len(payload)
                else:
                    prev_end = max(prev_end, at + len(payload))
        r.count(runs)
        if bad:
            r.violation(bad[0], bad[0].loc(bad[1]), bad[2])

    # ---- 17. the queued write vectors are what is sent ---------------------------------------
    with ctx.rule("C09.17", "R5", "the share writers send what they queued: the remote slot_testv_and_readv_and_writev "
                  "call carries, under the writer's own share number, the data vectors (MDMF: the queue self._writevs "
                  "every put_* appends to; SDMF: the joined share)", expected=3) as r:
        cg17 = get_callgraph(idx)

        def bind_args(fn, call, h):
            """{parameter of h: argument expression of `call`} (defaults for the parameters not passed), or None."""
            a = h.node.args
            if a.vararg or a.kwarg or any(isinstance(x, ast.Starred) for x in call.args) or any(k.arg is None for k in call.keywords):
                return None
            pos = [x.arg for x in list(a.posonlyargs) + list(a.args)]
            dflt = dict(zip(pos[len(pos) - len(a.defaults):], a.defaults))
            dflt.update({k.arg: d for (k, d) in zip(a.kwonlyargs, a.kw_defaults) if d is not None})
            if h.cls is not None:
                if not (isinstance(call.func, ast.Attribute) and attr_path(call.func.value) == "self" and pos):
                    return None
                pos = pos[1:]
            if len(call.args) > len(pos):
                return None
            b = dict(zip(pos, call.args))
            for k in call.keywords:
                if k.arg in b or k.arg not in pos + [x.arg for x in a.kwonlyargs]:
                    return None
                b[k.arg] = k.value
            for x in pos + [x.arg for x in a.kwonlyargs]:
                if x not in b:
                    if x not in dflt:
                        return None
                    b[x] = dflt[x]
            return b

        def built_by_helper(fn, fnorm, m, call, key_ok, data_ok, why, depth):
            """`call` (evaluated at node m of fn) is a call of a package function that builds the test-and-write vectors:
            True when every dict it can return holds the entry for the writer's share, False (reason in `why`) when it
            returns something else, None when the callee is not a function of the package."""
            hs = cg17.resolve(fn, call)
            if not hs:
                return None
            if len(hs) != 1 or depth > 3:
                raise AnalysisError("the test-and-write vectors of %s come from %s, which has %d candidate callees" % (
                    short(fn), src(fn, call), len(hs)))
            h = hs[0]
            b = bind_args(fn, call, h)
            if b is None or h.node.decorator_list or isinstance(h.node, ast.AsyncFunctionDef) or \
                    any(isinstance(x, (ast.Yield, ast.YieldFrom)) for x in func_own_nodes(h)):
                raise AnalysisError("cannot bind the arguments of %s in %s to %s" % (src(fn, call), short(fn), short(h)))
            hcfg = h.cfg()
            hnorm = FlowNorm(h, depth=8)
            stored = {x for k in hcfg.nodes for x in node_stores(k)}

            def param_of(k, e):
                e = hnorm.resolve(k, e)
                if isinstance(e, ast.Name) and e.id in b and e.id not in stored:
                    return b[e.id]
                return None

            def hkey(_n, k, e):
                a = param_of(k, e)
                return a is not None and key_ok(fnorm, m, a)

            def hdata(_n, k, e):
                a = param_of(k, e)
                return a is not None and data_ok(fnorm, m, a)
            rets = [k for k in hcfg.nodes if k.kind == "stmt" and isinstance(k.ast, ast.Return)]
            if not rets:
                raise AnalysisError("%s, which builds the test-and-write vectors of %s, returns nothing" % (short(h), short(fn)))
            ok = True
            for k in rets:
                v = k.ast.value
                if v is not None and is_entry_dict(h, hnorm, k, v, hkey, hdata, why, depth):
                    continue
                if isinstance(v, ast.Name):
                    probs = entry_paths(h, hcfg, hnorm, k, v.id, hkey, hdata, depth)
                    why.extend(probs)
                    ok = ok and not probs
                else:
                    why.append("%s returns %s" % (short(h), src(h, v) if v is not None else "None"))
                    ok = False
            return ok

        def is_entry_dict(fn, fnorm, m, v, key_ok, data_ok, why, depth):
            """v is {<own share number>: (test vector, <data vectors>, new length)}, literally or built by a helper."""
            if isinstance(v, ast.Dict):
                return len(v.keys) == 1 and v.keys[0] is not None and key_ok(fnorm, m, v.keys[0]) and \
                    is_entry_value(fnorm, m, v.values[0], data_ok)
            if isinstance(v, ast.Call):
                return bool(built_by_helper(fn, fnorm, m, v, key_ok, data_ok, why, depth + 1))
            return False

        def is_entry_value(fnorm, m, v, data_ok):
            return isinstance(v, ast.Tuple) and len(v.elts) == 3 and data_ok(fnorm, m, v.elts[1])

        def entry_paths(fn, cfg, fnorm, n, tw, key_ok, data_ok, depth):
            """Problems (messages) on the ways to node n, where the dict named `tw` is used: a store under another key or
            of another value, or a path on which no entry for the writer's share was stored."""
            probs = []
            memo = {}

            def entry(m):
                if m.id not in memo:
                    memo[m.id] = entry0(m)
                return memo[m.id]

            def entry0(m):
                if m.kind != "stmt" or not isinstance(m.ast, ast.Assign) or len(m.ast.targets) != 1:
                    return False
                t = m.ast.targets[0]
                v = m.ast.value
                if attr_path(t) == tw:                   # tw_vectors = {self.shnum: (...)} / = make_tw_vectors(...)
                    why = []
                    ok = is_entry_dict(fn, fnorm, m, v, key_ok, data_ok, why, depth)
                    probs.extend(why)
                    return ok
                if not (isinstance(t, ast.Subscript) and attr_path(t.value) == tw and key_ok(fnorm, m, t.slice)):
                    return False
                return is_entry_value(fnorm, m, v, data_ok)
            for m in cfg.nodes:
                if (tw + "[]") in node_stores(m) and not entry(m):
                    probs.append("%s fills the test-and-write vectors with %s; the storage server applies "
                                 "the entry {self.shnum: (test vector, data vectors, new length)}" % (short(fn), src(fn, m.ast)))
            for (t, w) in find_path_avoiding(cfg, lambda x: x is n, gate_node=entry,
                                             kill=lambda m: tw in node_stores(m) and not entry(m)):
                probs.append("%s reaches %s without an entry for its share in the test-and-write vectors (path: %s)" % (
                    short(fn), src(fn, n.ast)[:60], w.brief()))
            return probs

        def transmits(fn, data_ok, what):
            cfg = fn.cfg()
            fnorm = FlowNorm(fn, depth=8)
            calls = [(n, c) for n in cfg.nodes for c in node_calls(n) if call_tail(c) == "slot_testv_and_readv_and_writev"]
            if len(calls) != 1:
                raise AnchorVanished("%s no longer makes one slot_testv_and_readv_and_writev call" % short(fn))
            n, c = calls[0]
            r.site(fn, c, what)
            tw = c.args[2] if len(c.args) > 2 else kwarg(c, "tw_vectors")

            def key_ok(_n, m, e):
                return attr_path(e) == "self.shnum"
            if isinstance(tw, (ast.Dict, ast.Call)):
                why = []
                if not is_entry_dict(fn, fnorm, n, tw, key_ok, data_ok, why, 0):
                    if not why and isinstance(tw, ast.Call):
                        raise AnalysisError("the test-and-write vectors sent by %s are %s" % (short(fn), src(fn, tw)))
                    probs = why or ["%s sends %s" % (short(fn), src(fn, tw))]
                else:
                    probs = []
            elif isinstance(tw, ast.Name):
                probs = entry_paths(fn, cfg, fnorm, n, tw.id, key_ok, data_ok, 0)
            else:
                raise AnalysisError("the test-and-write vectors sent by %s are %s" % (short(fn), src(fn, tw) if tw is not None else "missing"))
            for msg in probs:
                r.violation(fn, fn.loc(c), "%s can call the storage server without an entry for its share in the "
                            "test-and-write vectors: the server answers success, nothing is written and the publish "
                            "reports the share as placed (%s)" % (short(fn), msg))
        wfn = idx.func(WP + "._write")
        wps = first_positional_params(wfn)
        transmits(wfn, lambda fnorm, m, e: attr_path(fnorm.resolve(m, e)) == wps[0], "MDMF remote write")
        fin = idx.func(WP + ".finish_publishing")
        sent = [c for c in calls_in_func(fin, "_write")]
        if len(sent) != 1:
            raise AnchorVanished("MDMFSlotWriteProxy.finish_publishing no longer calls _write once")
        r.site(fin, sent[0], "MDMF queue handed to _write")
        got = sent[0].args[0] if sent[0].args else kwarg(sent[0], wps[0])
        r.require(got is not None and attr_path(got) == "self._writevs", fin, fin.loc(sent[0]),
                  "finish_publishing sends %s; put_block / put_blockhashes / ... queue their vectors in self._writevs" % (
                      src(fin, got) if got is not None else "nothing"))
        sfp = idx.func(SW + ".finish_publishing")

        def sdmf_data(fnorm, m, e):
            at, v = _def_of(fnorm, m, e)
            if not (isinstance(v, ast.List) and len(v.elts) == 1 and _pair(v.elts[0])):
                return False
            _at, d = _def_of(fnorm, at, _pair(v.elts[0])[1])
            return isinstance(d, ast.Call) and call_tail(d) == "join"
        transmits(sfp, sdmf_data, "SDMF remote write")

    # ---- 18. a ranged read is started for the range that was asked for ---------------------------------------
    with ctx.rule("C09.18", "R6", "Retrieve.download(consumer, offset, size) starts the download of exactly "
                  "[offset, offset + size) (size=None: to the end of the file) and _start_download records that range "
                  "before the segment range is computed; decided by evaluating both over boundary reads",
                  expected=2) as r:
        _need("the segment size of C09.8", S3)
        S = S3
        dl = idx.func(RET + ".download")
        sd = idx.func(RET + "._start_download")
        dps = first_positional_params(dl)          # consumer, offset, size
        sps = first_positional_params(sd)
        if len(dps) < 3 or len(sps) < 3:
            raise AnchorVanished("Retrieve.download(consumer, offset, size) / _start_download(consumer, offset, size) changed")
        starts = calls_in_func(dl, "_start_download")
        setups = calls_in_func(sd, "_setup_encoding_parameters")
        if not starts or not setups:
            raise AnchorVanished("download -> _start_download -> _setup_encoding_parameters")
        r.site(dl, starts[0], "range handed to _start_download")
        r.site(sd, setups[0], "range recorded for the segment arithmetic")
        pts = _boundary_points(S)
        bad, runs = None, 0
        for D in [x for x in pts if x >= 1][::2] + [1, 2]:
            for off in [x for x in pts if x < D][::2] + [D - 1]:
                for size in (None, 1, 2, D - off):
                    eff = D - off if size is None else size
                    if eff < 1 or off + eff > D or bad:
                        continue
                    what = "read(offset=%d, size=%s) of a %d-byte file" % (off, size, D)
                    sim = _Sim(idx, observe={"_start_download", "_done"})
                    heap = {"self": {"_verify": False, "_data_length": D}, "consumer": {}}
                    outs = sim.run(dl, {"self": _Ref("self"), dps[0]: _Ref("consumer"), dps[1]: off, dps[2]: size}, heap)
                    runs += 1
                    got = [(call_tail(c), a, k) for (_f, c, a, k) in sim.seen]
                    if len(outs) != 1:
                        bad = (dl, starts[0], "%s: download %s" % (what, "raises" if not outs else "could not be evaluated"))
                    elif [g[0] for g in got] != ["_start_download"]:
                        bad = (dl, starts[0], "%s: download calls %s; a read of %d byte(s) must be started, not finished "
                               "at once" % (what, [g[0] for g in got] or "nothing", eff))
                    else:
                        a, k = got[0][1], got[0][2]
                        vals = dict(zip(sps, a))
                        vals.update(k)
                        if (vals.get(sps[1]), vals.get(sps[2])) != (off, eff) or vals.get(sps[0]) != _Ref("consumer"):
                            bad = (dl, starts[0], "%s: the download is started for offset=%s size=%s, the caller asked "
                                   "for [%d, %d)" % (what, vals.get(sps[1]), vals.get(sps[2]), off, off + eff))
                    if bad:
                        continue
                    sim = _Sim(idx, observe={"_setup_encoding_parameters", "_setup_download", "loop"})
                    heap = {"self": {"_data_length": D}, "consumer": {}}
                    outs = sim.run(sd, {"self": _Ref("self"), sps[0]: _Ref("consumer"), sps[1]: off, sps[2]: eff}, heap)
                    runs += 1
                    snap = [h["self"] for ((_f, c, _a, _k), h) in zip(sim.seen, sim.seen_heap)
                            if call_tail(c) == "_setup_encoding_parameters"]
                    if len(outs) != 1 or len(snap) != 1:
                        bad = (sd, setups[0], "%s: _start_download %s" % (what, "raises" if not outs else
                                                                           "computes the segment range %d times" % len(snap)))
                    elif (snap[0].get("_offset", UNK), snap[0].get("_read_length", UNK)) != (off, eff):
                        bad = (sd, setups[0], "%s: the segment range is computed for offset=%s, length=%s" % (
                            what, snap[0].get("_offset", UNK), snap[0].get("_read_length", UNK)))
        r.count(runs)
        if bad:
            r.violation(bad[0], bad[0].loc(bad[1]), bad[2])

    # ---- 19. the update's decisions are functions of the updated version's own size ------------------------------
    with ctx.rule("C09.19", "R6", "every size the in-place update compares the written range with (re-encode or patch in "
                  "place, which old boundary segments to fetch) is the size of the version being updated: "
                  "MutableFileVersion.get_size() is the data-length slot of self._version, and the calls _update makes "
                  "(_do_modify_update / _update_servermap(update_range) and the recorded segment numbers) do not vary "
                  "with the filenode's cached size, which an in-place update() or modify() does not refresh; decided by "
                  "evaluating get_size and _update under accurate and stale cached sizes", expected=2) as r:
        _need("the verinfo positions of C09.1 and the segment size of C09.8", pos, S3)
        S = S3
        up = idx.func(MFV + "._update")
        ups = first_positional_params(up)           # data, offset
        if len(ups) < 2:
            raise AnchorVanished("MutableFileVersion._update(data, offset) signature changed")
        gsz = idx.cls(MFV).lookup("get_size")
        if not isinstance(gsz, FuncInfo):
            raise AnchorVanished("MutableFileVersion.get_size")
        sv = idx.func("mutable.servermap:ServerMap.size_of_version")
        svp = first_positional_params(sv)
        if len(svp) != 1:
            raise AnchorVanished("ServerMap.size_of_version(verinfo) signature changed")

        def size_of(hp, args):
            """ServerMap.size_of_version, by evaluating its own statements (that it gives the D slot is C09.6)."""
            if len(args) != 1:
                return UNK
            o = _Sim(idx).run(sv, {"self": _Ref("sm"), svp[0]: args[0]}, {"sm": {}})
            return o[0][0] if len(o) == 1 else UNK

        def heap19(Z, L, cached):
            return {"self": {"_version": _verinfo(pos, None, S, Z, 3, 10), "is_mutable()": True, "_node": _Ref("node"),
                             "_servermap": _Ref("sm")},
                    "sm": {"size_of_version(*)": size_of},
                    "node": {"get_size()": cached, "_most_recent_size": cached},
                    "data": {"get_size()": L}}

        def reads(sim):
            out = []
            for (f, e) in sim.touched:
                if not any(e is x for (_f, x) in out):
                    out.append((f, e))
            return out

        # (a) the size of the version being updated
        r.site(gsz, None, "size of the version being updated")
        runs = 0
        bad_a = None
        for Z in (0, 1, S - 1, S, 2 * S + 777):
            for cached in (Z, 0, Z + S + 1):
                sim = _Sim(idx)
                sim.watch = {"node"}
                outs = sim.run(gsz, {"self": _Ref("self")}, heap19(Z, 1, cached))
                runs += 1
                if len(outs) != 1 or not isinstance(outs[0][0], int) or isinstance(outs[0][0], bool):
                    raise AnalysisError("cannot evaluate %s for a version of %d bytes (%s)" % (
                        short(gsz), Z, "%d paths" % len(outs) if len(outs) != 1 else "result %r" % (outs[0][0],)))
                if outs[0][0] != Z and bad_a is None:
                    rd = reads(sim)
                    bad_a = (rd[0][1] if rd else None,
                             "%s gives %d for a version whose data length (verinfo[%d]) is %d while the filenode's cached "
                             "size is %d%s; the update path compares the written range with this value" % (
                                 short(gsz), outs[0][0], pos["D"], Z, cached,
                                 " (it reads %s)" % ", ".join(src(f, e) for (f, e) in rd) if rd else ""))
        if bad_a:
            r.violation(gsz, gsz.loc(bad_a[0]) if bad_a[0] is not None else gsz.loc(), bad_a[1])

        # (b) the decisions of _update under an accurate and under stale cached node sizes
        def outcome(Z, off, L, cached):
            sim = _Sim(idx, observe={"_update_servermap", "_do_modify_update"})
            sim.watch = {"node"}
            outs = sim.run(up, {"self": _Ref("self"), ups[0]: _Ref("data"), ups[1]: off}, heap19(Z, L, cached))
            calls = []
            for (_f, c, a, k) in sim.seen:
                calls.append((call_tail(c), ", ".join([repr(x) for x in a] + ["%s=%r" % kv for kv in sorted(k.items())])))
            recorded = sorted({(me[2]["self"].get("_start_segment", None), me[2]["self"].get("_end_segment", None))
                               for me in outs}, key=repr)
            return (len(outs), tuple(calls), repr(recorded)), sim

        def describe(o):
            n, calls, rec = o
            if not n:
                return "raises"
            return "%s, records (start, end) segment %s" % (
                "; ".join("%s(%s)" % (t, a) for (t, a) in calls) or "makes no call",
                rec)

        r.site(up, None, "decisions under stale cached node sizes")
        pts = _boundary_points(S)
        first = later = None         # a stale size below the real one (the file grew) is reported in preference
        for Z in pts:
            for off in [x for x in pts if x <= Z]:
                lens = {1, S + 1}
                if Z > off:
                    lens |= {Z - off, Z - off - 1, Z - off + 1}
                if off % S or Z > off:
                    lens |= {S - off % S + 1}
                for L in sorted(x for x in lens if x >= 1):
                    if first:
                        continue
                    ref, sim0 = outcome(Z, off, L, Z)
                    runs += 1
                    if ref[0] != 1 or "?" in repr(ref):
                        raise AnalysisError("cannot evaluate the decisions of %s for a %d-byte write at offset %d of a "
                                            "%d-byte file: %s" % (short(up), L, off, Z, describe(ref)))
                    # stale sizes on either side of every threshold the written range is compared with
                    for cached in sorted({0, off, off + L, off + L + 1, (off // S) * S, Z + S + 1} - {Z}):
                        if cached < 0 or first or (later and cached > Z):
                            continue
                        got, sim1 = outcome(Z, off, L, cached)
                        runs += 1
                        if got != ref:
                            rd = reads(sim1)
                            if not rd:
                                raise AnalysisError("%s behaves differently for equal inputs without reading the cached "
                                                    "node size" % short(up))
                            found = (rd, "for a %d-byte write at offset %d of a %d-byte MDMF file (S=%d) the update %s "
                                     "when the filenode's cached size is accurate, but %s when it is %d: the decision "
                                     "reads %s - the node's cached size (_most_recent_size), which in-place update() / "
                                     "modify() do not refresh and which need not be the size of the version being "
                                     "updated (self.get_size(), verinfo[%d] of self._version); with a stale size the "
                                     "wrong old boundary segments are fetched (or the wrong path is taken) and bytes "
                                     "behind the write are replaced" % (
                                         L, off, Z, S, describe(ref), describe(got), cached,
                                         ", ".join("%s in %s" % (src(f, e), short(f)) for (f, e) in rd), pos["D"]))
                            if cached < Z:
                                first = found
                            else:
                                later = later or found
        r.count(runs)
        first = first or later
        if first:
            f0, e0 = first[0][0]
            r.violation(f0, f0.loc(e0), first[1])


    # ---- 20. a read is served from the grid as it is after the last write made through the same node ----------------
    # "each read after a successful operation returns the bytes obtained by applying the operations in order": whatever a
    # MutableFileNode keeps from one operation to the next (a servermap with its share read-proxies, a version object,
    # contents) and hands to a later read describes the shares as they were.  Every publish - full (Publish.publish) or in
    # place (Publish.update) - changes the shares, so every path that publishes has to drop that state behind the publish.
    with ctx.rule("C09.20", "R4/E7", "what a read of a MutableFileNode is served from (the servermap / version object / data that "
                  "reaches the MutableFileVersion and the Retrieve) comes from the caller or from a mapupdate made for the read; "
                  "any filenode attribute that is assigned while operations run and flows into a read is forgotten by a callback "
                  "behind EVERY Publish.publish / Publish.update started in mutable/filenode.py, on every way up to a public method",
                  expected=12) as r:
        node_cls = idx.cls(NODE)
        ver_cls = idx.cls(MFV)
        org = _Origins(idx, node_cls, ver_cls)
        ctor = {idx.func(NODE + "." + x).qual for x in ("__init__", "init_from_cap", "create_with_keys")}
        entries = [idx.func(NODE + "." + x) for x in ("get_best_readable_version", "get_readable_version", "download_best_version",
                                                     "get_size_of_best_version", "download_version", "get_best_mutable_version",
                                                     "get_mutable_version")]
        entries += [idx.func(MFV + "." + x) for x in ("read", "download_to_data")]
        flows = {}                   # attribute -> entry functions whose result it reaches
        for e in entries:
            res = org.of_function(e)
            attrs = sorted({l[1] for l in res if l[0] == "attr"})
            r.site(e, None, "served from: %s" % (", ".join(attrs) or "-"))
            r.count(len(res))
            for a in attrs:
                flows.setdefault(a, []).append(e)
            if e.cls is node_cls and e.name in ("get_readable_version", "get_mutable_version"):
                if ("fresh", "ServerMap") not in res or ("fresh", "MutableFileVersion") not in res:
                    raise AnalysisError("cannot follow the servermap of %s from its mapupdate (ServerMap() .. ServermapUpdater.update()) "
                                        "to the MutableFileVersion it returns" % short(e))
            if e.cls is ver_cls and e.name == "read" and ("fresh", "Retrieve") not in res:
                raise AnalysisError("cannot follow MutableFileVersion.read to its Retrieve")
        # the Publish starts of the module
        fmod = node_cls.module
        mfuncs = [f for f in idx.funcs.values() if f.module is fmod]
        starts = []
        for f in mfuncs:
            dfs = {}
            for n in func_own_nodes(f):
                if isinstance(n, ast.Assign):
                    for t in n.targets:
                        if isinstance(t, ast.Name):
                            dfs.setdefault(t.id, []).append(n.value)
            for c in calls_in_func(f, into_lambda=True):
                if not (isinstance(c.func, ast.Attribute) and c.func.attr in ("publish", "update")):
                    continue
                rv = c.func.value
                vals = dfs.get(rv.id, []) if isinstance(rv, ast.Name) else [rv]
                if vals and all(isinstance(v, ast.Call) and call_tail(v) == "Publish" for v in vals):
                    starts.append((f, c))
        if len(starts) < 2 or not any(c.func.attr == "update" for (_f, c) in starts):
            raise AnchorVanished("Publish(..).publish / Publish(..).update calls in mutable/filenode.py")
        for (f, c) in starts:
            r.site(f, c, "publish start")
        # remembered state: flows into a read and is assigned outside the construction of the node
        for a in sorted(flows):
            sts = _node_attr_stores(idx, node_cls, ver_cls, a)
            live = [(f, n, v, how) for (f, n, v, how) in sts if f.qual not in ctor and not (how in ("assign", "del") and _is_blank(v))]
            if not live:
                continue
            inv = {f.qual for (f, n, v, how) in sts if f.module is fmod and f.qual not in ctor
                   and ((how == "assign" and _is_blank(v)) or how == "del")}
            fg = _Forgetting(idx, org, mfuncs, inv)
            rf, rn = org.where[a][0]
            wf, wn = live[0][0], live[0][1]
            for (f, c) in starts:
                r.count(len(fg.inv))
                ch = fg.escape(f, c)
                if ch is None:
                    continue
                r.violation(f, f.loc(c), "%s changes the shares of the file, but the filenode's remembered `%s` - assigned in %s "
                            "(%s), read in %s (%s) and handed on to what %s serve%s a read from - is not dropped behind this "
                            "publish on the way %s%s: a read after this write is served from the state of the shares as they were "
                            "before it (stale servermap / cached read proxies / contents) and returns the old bytes" % (
                                src(f, c), a, short(wf), wf.loc(wn), short(rf), rf.loc(rn),
                                ", ".join(sorted({short(e) for e in flows[a]})), "s" if len(flows[a]) == 1 else "",
                                " -> ".join(short(x) for x in ch),
                                "" if fg.inv else " (nothing in mutable/filenode.py ever resets it)"))


# ---- which component of a nested answer structure an expression is (flow-insensitive shape inference) ----
# shapes: "shnum" / "block" / "salt" (atoms), ("tuple", (shapes..)), ("list", shape), ("dict", key shape, value shape),
# None = nothing known yet (an empty container), "?" = cannot tell
def _join(a, b):
    if a is None:
        return b
    if b is None or a == b:
        return a
    if isinstance(a, tuple) and isinstance(b, tuple) and a[0] == b[0] and len(a) == len(b):
        if a[0] == "tuple":
            if len(a[1]) != len(b[1]):
                return "?"
            return ("tuple", tuple(_join(x, y) for x, y in zip(a[1], b[1])))
        return (a[0],) + tuple(_join(x, y) for x, y in zip(a[1:], b[1:]))
    return "?"


def _elem(t):
    if isinstance(t, tuple) and t[0] == "list":
        return t[1]
    if isinstance(t, tuple) and t[0] == "dict":
        return t[1]
    return "?" if t is not None else None


def _unknown_type(t):
    if t is None or t == "?":
        return True
    if isinstance(t, tuple):
        return any(_unknown_type(x) for x in (t[1] if t[0] == "tuple" else t[1:]))
    return False


def _type_txt(t):
    if t is None:
        return "nothing"
    if isinstance(t, str):
        return {"shnum": "the share number", "block": "the block", "salt": "the salt", "?": "something undetermined"}.get(t, t)
    if t[0] == "tuple":
        return "(" + ", ".join(_type_txt(x) for x in t[1]) + ")"
    if t[0] == "list":
        return "a list of " + _type_txt(t[1])
    return "a dict {%s: %s}" % (_type_txt(t[1]), _type_txt(t[2]))


def _type_of(env, e, local=None):
    loc = local or {}
    if isinstance(e, ast.Name):
        return loc[e.id] if e.id in loc else env.get(e.id, "?")
    if isinstance(e, ast.Constant) and e.value is None:
        return "?"
    if isinstance(e, ast.Dict) and not e.keys:
        return ("dict", None, None)
    if isinstance(e, (ast.List,)) and not e.elts:
        return ("list", None)
    if isinstance(e, ast.Tuple):
        return ("tuple", tuple(_type_of(env, x, loc) for x in e.elts))
    if isinstance(e, ast.List):
        t = None
        for x in e.elts:
            t = _join(t, _type_of(env, x, loc))
        return ("list", t)
    if isinstance(e, ast.Subscript):
        t = _type_of(env, e.value, loc)
        if t is None:
            return None                  # nothing known yet (bottom): stays bottom, so that a later pass can refine it
        if isinstance(e.slice, ast.Slice):
            return t if isinstance(t, tuple) and t[0] == "list" else "?"
        if isinstance(t, tuple) and t[0] == "tuple":
            if isinstance(e.slice, ast.Constant) and isinstance(e.slice.value, int) and -len(t[1]) <= e.slice.value < len(t[1]):
                return t[1][e.slice.value]
            return "?"
        if isinstance(t, tuple) and t[0] == "list":
            return t[1]
        if isinstance(t, tuple) and t[0] == "dict":
            return t[2]
        return "?"
    if isinstance(e, (ast.ListComp, ast.GeneratorExp)) and len(e.generators) == 1:
        g = e.generators[0]
        inner = dict(loc)
        _bind(inner, g.target, _elem(_type_of(env, g.iter, loc)))
        return ("list", _type_of(env, e.elt, inner))
    if isinstance(e, ast.Call):
        t = call_tail(e)
        if isinstance(e.func, ast.Attribute) and not e.args and t in ("items", "keys", "values"):
            d = _type_of(env, e.func.value, loc)
            if d is None:
                return None
            if isinstance(d, tuple) and d[0] == "dict":
                return ("list", {"items": ("tuple", (d[1], d[2])), "keys": d[1], "values": d[2]}[t])
            return "?"
        if isinstance(e.func, ast.Name) and t in ("list", "tuple", "sorted", "reversed", "iter") and e.args:
            a = _type_of(env, e.args[0], loc)
            if a is None:
                return None
            return ("list", _elem(a)) if isinstance(a, tuple) and a[0] in ("list", "dict") else "?"
        if isinstance(e.func, ast.Name) and t in ("list",) and not e.args:
            return ("list", None)
        if isinstance(e.func, ast.Name) and t == "dict":
            if not e.args:
                return ("dict", None, None)
            a = _type_of(env, e.args[0], loc)
            if isinstance(a, tuple) and a[0] == "dict":
                return a
            el = _elem(a)
            if el is None:
                return None
            if isinstance(el, tuple) and el[0] == "tuple" and len(el[1]) == 2:
                return ("dict", el[1][0], el[1][1])
            return "?"
        if isinstance(e.func, ast.Name) and t == "zip" and len(e.args) == 1 and isinstance(e.args[0], ast.Starred):
            el = _elem(_type_of(env, e.args[0].value, loc))
            if el is None:
                return None
            if isinstance(el, tuple) and el[0] == "tuple":
                return ("tuple", tuple(("list", x) for x in el[1]))
            return "?"
        if isinstance(e.func, ast.Name) and t == "next" and e.args:
            return _elem(_type_of(env, e.args[0], loc))
    return "?"


def _bind(env, target, t):
    if isinstance(target, ast.Name):
        env[target.id] = _join(env.get(target.id), t) if target.id in env else t
    elif isinstance(target, (ast.Tuple, ast.List)):
        if isinstance(t, tuple) and t[0] == "tuple" and len(t[1]) == len(target.elts):
            for x, y in zip(target.elts, t[1]):
                _bind(env, x, y)
        else:
            for x in target.elts:
                _bind(env, x.value if isinstance(x, ast.Starred) else x, "?" if t is not None else None)


def _component_types(fn, seed):
    """Forward data flow over the CFG: {node id: {local name: shape}} on entry to each node."""
    cfg = fn.cfg()
    IN = {cfg.entry.id: dict(seed)}
    work = [cfg.entry.id]
    steps = 0
    while work:
        steps += 1
        if steps > 40 * len(cfg.nodes) + 100:
            raise AnalysisError("shape inference of %s does not settle" % short(fn))
        nid = work.pop()
        n = cfg.nodes[nid]
        for (dst, lab) in cfg.succ[nid]:
            env = dict(IN[nid])
            if lab != "exc":
                _transfer(n, lab, env)
            cur = IN.get(dst)
            if cur is None:
                IN[dst] = env
                work.append(dst)
                continue
            changed = False
            for k, v in env.items():
                j = _join(cur[k], v) if k in cur else v
                if k not in cur or j != cur[k]:
                    cur[k] = j
                    changed = True
            if changed:
                work.append(dst)
    return IN


def _transfer(n, lab, env):
    st = n.ast
    if n.kind == "iter":
        if lab == "iter":
            _strong(env, st.target, _elem(_type_of(env, st.iter)))
        return
    if n.kind != "stmt":
        return
    if isinstance(st, ast.Assign):
        t = _type_of(env, st.value)
        for tg in st.targets:
            if isinstance(tg, (ast.Name, ast.Tuple, ast.List)):
                _strong(env, tg, t)
    elif isinstance(st, ast.AugAssign) and isinstance(st.target, ast.Name):
        env[st.target.id] = _join(env.get(st.target.id), _type_of(env, st.value))
    elif isinstance(st, ast.Expr) and isinstance(st.value, ast.Call) and isinstance(st.value.func, ast.Attribute) \
            and isinstance(st.value.func.value, ast.Name) and len(st.value.args) == 1:
        nm, meth = st.value.func.value.id, st.value.func.attr
        a = _type_of(env, st.value.args[0])
        if meth == "update":
            env[nm] = _join(env.get(nm), a if isinstance(a, tuple) and a[0] == "dict" else "?")
        elif meth == "append":
            env[nm] = _join(env.get(nm), ("list", a))
        elif meth == "extend":
            env[nm] = _join(env.get(nm), a if isinstance(a, tuple) and a[0] == "list" else "?")
        elif meth in ("sort", "reverse"):
            pass
    elif isinstance(st, ast.Expr) and isinstance(st.value, ast.Call) and isinstance(st.value.func, ast.Attribute) \
            and isinstance(st.value.func.value, ast.Name) and st.value.func.attr in ("sort", "reverse"):
        pass


def _strong(env, target, t):
    if isinstance(target, ast.Name):
        env[target.id] = t
    elif isinstance(target, (ast.Tuple, ast.List)):
        if isinstance(t, tuple) and t[0] == "tuple" and len(t[1]) == len(target.elts):
            for x, y in zip(target.elts, t[1]):
                _strong(env, x, y)
        else:
            for x in target.elts:
                _strong(env, x.value if isinstance(x, ast.Starred) else x, "?" if t is not None else None)


def _def_of(fnorm, node, e):
    """(defining node, value) of a local name with exactly one reaching definition at `node` (also list literals,
    which FlowNorm does not inline); (node, e) otherwise."""
    for _hop in range(4):
        if not isinstance(e, ast.Name):
            break
        ds = fnorm.rd.get(node.id, {}).get(e.id) or ()
        if len(ds) != 1 or min(ds) < 0:
            break
        dn = fnorm.cfg.nodes[min(ds)]
        v = fnorm._def_value(dn, e.id)
        if v is None:
            break
        node, e = dn, v
    return node, e


def _is_inline_callbacks(fn):
    """fn is a generator run by twisted's inlineCallbacks (the decorator is the only one)."""
    decs = fn.node.decorator_list
    if not any((attr_path(d) or "").split(".")[-1] == "inlineCallbacks" for d in decs):
        return False
    if len(decs) != 1 or not any(isinstance(x, ast.Yield) for x in func_own_nodes(fn)):
        raise AnalysisError("%s is decorated with inlineCallbacks but %s" % (
            short(fn), "has other decorators too" if len(decs) != 1 else "is not a generator"))
    return True


def _unawaited_steps(idx, fn, step_names):
    """Calls in an inlineCallbacks function that start a step of the operation - a callable handed in as a parameter, or
    a method of the write / update / read path - whose Deferred is not waited for: the call is neither the operand of a
    yield nor bound to a local that is (a plain `return call` hands the caller a Deferred as a *result*)."""
    yielded = set()
    names = set()
    for y in func_own_nodes(fn):
        if isinstance(y, ast.Yield) and y.value is not None:
            yielded.add(id(y.value))
            if isinstance(y.value, ast.Name):
                names.add(y.value.id)
    bound = {}
    for a in func_own_nodes(fn):
        if isinstance(a, ast.Assign) and isinstance(a.value, ast.Call) and all(isinstance(t, ast.Name) for t in a.targets):
            bound[id(a.value)] = [t.id for t in a.targets]
    out = []
    for c in func_own_nodes(fn):
        if not isinstance(c, ast.Call):
            continue
        f = c.func
        step = (isinstance(f, ast.Name) and f.id in fn.params) or \
               (isinstance(f, ast.Attribute) and attr_path(f.value) == "self" and f.attr in step_names)
        if not step or id(c) in yielded:
            continue
        if id(c) in bound and all(t in names for t in bound[id(c)]):
            continue
        out.append((c, "starts %s without waiting for it (the call is not yielded)" % src(fn, c)))
    return out


def _not_a_deferred(fn, fnorm, node, v):
    """None when the returned expression is the result of a call / a Deferred kept on self; else what it is."""
    if v is None:
        return "nothing"
    v = fnorm.resolve(node, v)
    if isinstance(v, ast.Constant):
        return repr(v.value)
    if isinstance(v, ast.Call):
        return None
    if isinstance(v, ast.Name):
        ds = fnorm.rd.get(node.id, {}).get(v.id) or ()
        vals = [fnorm._def_value(fnorm.cfg.nodes[d], v.id) if d >= 0 else None for d in ds]
        if vals and all(isinstance(d, ast.Call) for d in vals):
            return None
        return "`%s` (not the result of a call on every path)" % v.id
    pth = attr_path(v)
    if pth and pth.startswith("self."):
        for n in fn.cfg().nodes:
            x = assign_value(n, pth) if pth in node_stores(n) else None
            if isinstance(x, ast.Call) and call_tail(x) == "Deferred":
                return None
        return "%s, which is not a Deferred created for this operation" % pth
    return src(fn, v)


def _gathered(fn, node, e, role):
    """Roles, in order, of the Deferreds handed to gatherResults: a list literal, or a local list that is created
    empty and appended to on the straight-line path up to `node`."""
    if isinstance(e, (ast.List, ast.Tuple)):
        return [role(x) for x in e.elts]
    if not isinstance(e, ast.Name):
        raise AnalysisError("cannot decide what %s gathers in %s" % (src(fn, e), short(fn)))
    cfg = fn.cfg()
    out, cur, steps = [], node, 0
    while True:
        steps += 1
        preds = [(s_, lab) for (s_, lab) in cfg.pred[cur.id] if lab != "exc"]
        if len(preds) != 1 or steps > 200:
            raise AnalysisError("the list %s gathered in %s is not filled on one straight-line path" % (e.id, short(fn)))
        cur = cfg.nodes[preds[0][0]]
        if cur.kind == "stmt" and isinstance(cur.ast, ast.Expr) and isinstance(cur.ast.value, ast.Call):
            c = cur.ast.value
            if isinstance(c.func, ast.Attribute) and attr_path(c.func.value) == e.id:
                if c.func.attr == "append" and len(c.args) == 1:
                    out.append(role(c.args[0]))
                    continue
                raise AnalysisError("%s.%s(...) in %s: cannot decide the order of the gathered results" % (
                    e.id, c.func.attr, short(fn)))
        v = assign_value(cur, e.id)
        if v is not None:
            if isinstance(v, (ast.List, ast.Tuple)):
                return [role(x) for x in v.elts] + out[::-1]
            raise AnalysisError("the list %s gathered in %s starts as %s" % (e.id, short(fn), src(fn, v)))
        if e.id in node_stores(cur):
            raise AnalysisError("the list %s gathered in %s is rebound" % (e.id, short(fn)))


def _boundary_points(S):
    pts = {0, 1, 2, S // 2, 2 * S + 777, 3 * S + 500}
    for m in (1, 2, 3, 4):
        pts |= {m * S - 1, m * S, m * S + 1}
    return sorted(pts)


def _verinfo(pos, salt, S, D, K, Nn):
    v = [b"x"] * pos["len"]
    v[0] = 1
    v[pos["S"]], v[pos["D"]], v[pos["K"]], v[pos["N"]] = S, D, K, Nn
    free = [i for i in range(1, pos["len"]) if i not in (pos["S"], pos["D"], pos["K"], pos["N"])]
    v[free[1]] = salt                 # (seqnum, root hash, salt, ...): checked against the producers in C09.6
    v[-1] = ()
    return tuple(v)


def _last_store(fn, path):
    ns = [n for n in fn.cfg().nodes if path in node_stores(n)]
    if not ns:
        raise AnchorVanished("%s no longer stores %s" % (short(fn), path))
    return ns[-1].ast


def _parents(fn):
    par = {}

    def walk(n):
        for c in ast.iter_child_nodes(n):
            par[c] = n
            if not isinstance(c, (ast.FunctionDef, ast.AsyncFunctionDef, ast.Lambda, ast.ClassDef)):
                walk(c)
    walk(fn.node)
    return par


def _component(expr, target):
    """Which part of the iteration variable `target` the expression is: tuple index, 'whole', or None."""
    if isinstance(target, (ast.Tuple, ast.List)):
        base = expr
        while isinstance(base, ast.Subscript) and isinstance(base.slice, ast.Constant) and isinstance(base.slice.value, int):
            base = base.value            # a fixed part of one element is still that element's position in the sequence
        for i, t in enumerate(target.elts):
            if isinstance(t, ast.Name) and isinstance(base, ast.Name) and base.id == t.id:
                return i
        return None
    if isinstance(target, ast.Name):
        if isinstance(expr, ast.Name) and expr.id == target.id:
            return "whole"
        if isinstance(expr, ast.Subscript) and isinstance(expr.value, ast.Name) and expr.value.id == target.id \
                and isinstance(expr.slice, ast.Constant) and isinstance(expr.slice.value, int):
            return expr.slice.value
    return None


_VALUE_ORDER = ("sorted", "sort()")


def _seq_shape(fn, fnorm, par, node, e, depth=0):
    """(order transforms applied, source) of the sequence expression e at cfg node `node`.
    source: ('loop', For stmt, holder, component, iter) | ('comp', iter form, conds, component) |
    ('zipstar', form, component) | ('dictview', receiver form, component)."""
    if depth > 12:
        raise AnalysisError("sequence derivation too deep in %s" % short(fn))
    cfg = fnorm.cfg
    if isinstance(e, ast.Subscript) and isinstance(e.slice, ast.Slice):
        tr, so = _seq_shape(fn, fnorm, par, node, e.value, depth + 1)
        b = tuple(fnorm.norm(node, x) if x is not None else None for x in (e.slice.lower, e.slice.upper, e.slice.step))
        return tr + [("slice",) + b], so
    if isinstance(e, ast.Call):
        t = call_tail(e)
        if isinstance(e.func, ast.Name) and t in ("list", "tuple") and len(e.args) == 1 and not e.keywords:
            return _seq_shape(fn, fnorm, par, node, e.args[0], depth + 1)
        if isinstance(e.func, ast.Name) and t == "sorted" and e.args:
            tr, so = _seq_shape(fn, fnorm, par, node, e.args[0], depth + 1)
            return tr + [("sorted",)], so
        if isinstance(e.func, ast.Name) and t == "reversed" and len(e.args) == 1:
            tr, so = _seq_shape(fn, fnorm, par, node, e.args[0], depth + 1)
            return tr + [("reversed",)], so
        if isinstance(e.func, ast.Attribute) and t in ("keys", "values") and not e.args:
            return [], ("dictview", fnorm.norm(node, e.func.value), 0 if t == "keys" else 1)
    if isinstance(e, (ast.ListComp, ast.GeneratorExp)) and len(e.generators) == 1:
        g = e.generators[0]
        comp = _component(e.elt, g.target)
        if comp is not None:
            return [], ("comp", fnorm.norm(node, g.iter), tuple(norm_plain(c) for c in g.ifs), comp,
                        isinstance(g.iter, ast.Call) and call_tail(g.iter) == "items")
    if isinstance(e, ast.Name):
        ds = fnorm.rd.get(node.id, {}).get(e.id)
        if ds and len(ds) == 1 and min(ds) >= 0:
            dn = cfg.nodes[min(ds)]
            st = dn.ast
            if dn.kind == "stmt" and isinstance(st, ast.Assign):
                for t in st.targets:
                    if isinstance(t, ast.Name) and t.id == e.id:
                        v = st.value
                        if (isinstance(v, ast.List) and not v.elts) or (
                                isinstance(v, ast.Call) and call_tail(v) == "list" and not v.args):
                            return _built(fn, fnorm, par, e.id)
                        return _seq_shape(fn, fnorm, par, dn, v, depth + 1)
                    if isinstance(t, (ast.Tuple, ast.List)):
                        for i, x in enumerate(t.elts):
                            if isinstance(x, ast.Name) and x.id == e.id:
                                v = st.value
                                if isinstance(v, ast.Call) and call_tail(v) == "zip" and len(v.args) == 1 \
                                        and isinstance(v.args[0], ast.Starred):
                                    return [], ("zipstar", fnorm.norm(dn, v.args[0].value), i)
    raise AnalysisError("cannot decide how the sequence %s in %s is ordered" % (src(fn, e), short(fn)))


def _built(fn, fnorm, par, name):
    """A list that starts empty: its order is that of the single loop appending to it."""
    tr, apps = [], []
    for x in func_own_nodes(fn):
        if isinstance(x, ast.Call) and isinstance(x.func, ast.Attribute) and isinstance(x.func.value, ast.Name) \
                and x.func.value.id == name:
            m = x.func.attr
            if m == "append" and len(x.args) == 1:
                apps.append(x)
            elif m == "sort":
                tr.append(("sort()",))
            elif m == "reverse":
                tr.append(("reversed",))
            elif m in ("insert", "pop", "remove", "extend", "clear"):
                raise AnalysisError("%s.%s(...) in %s: cannot decide the order of %s" % (name, m, short(fn), name))
        if isinstance(x, (ast.Subscript,)) and isinstance(x.ctx, (ast.Store, ast.Del)) and isinstance(x.value, ast.Name) \
                and x.value.id == name:
            raise AnalysisError("element store into %s in %s: cannot decide its order" % (name, short(fn)))
    if len(apps) != 1:
        raise AnalysisError("%s is filled by %d append sites in %s" % (name, len(apps), short(fn)))
    a = apps[0]
    stmt = par.get(a)
    holder = par.get(stmt)
    loop = holder
    while loop is not None and not isinstance(loop, (ast.For, ast.AsyncFor)):
        loop = par.get(loop)
    if not isinstance(stmt, ast.Expr) or loop is None:
        raise AnalysisError("%s.append(...) is not a statement of a for loop in %s" % (name, short(fn)))
    comp = _component(a.args[0], loop.target)
    if comp is None:
        raise AnalysisError("%s.append(%s): not a part of the loop variable of %s" % (name, src(fn, a.args[0]), short(fn)))
    field = "body" if any(stmt is y for y in getattr(holder, "body", [])) else "orelse"
    return tr, ("loop", loop, (holder, field), comp, isinstance(loop.iter, ast.Call) and call_tail(loop.iter) == "items")


def _shape_txt(shape):
    tr, so = shape
    base = {"loop": "appended in a loop", "comp": "a comprehension over %s" % (so[1] if so[0] == "comp" else ""),
            "zipstar": "unzipped from %s" % (so[1] if so[0] == "zipstar" else ""),
            "dictview": "a view of %s" % (so[1] if so[0] == "dictview" else "")}[so[0]]
    steps = []
    for t in tr:
        if t[0] == "slice":
            steps.append("[%s:%s%s]" % (t[1] or "", t[2] or "", (":" + t[3]) if t[3] else ""))
        else:
            steps.append(t[0])
    return "(%s%s)" % (base, (", then " + " ".join(steps)) if steps else "")


def _not_parallel(ids, blocks):
    """None when the two shapes are the same positional selection of one sequence of pairs, else the reason."""
    (itr, iso), (btr, bso) = ids, blocks
    for who, tr in (("share numbers", itr), ("blocks", btr)):
        for t in tr:
            if t[0] in _VALUE_ORDER:
                return "the %s are reordered by value (%s) on their own" % (who, t[0])
    if itr != btr:
        return "the two lists are cut / reordered differently"
    if iso[0] != bso[0]:
        return "the two lists are built in different ways"
    kind = iso[0]
    if kind == "loop":
        same = iso[1] is bso[1] and iso[2][0] is bso[2][0] and iso[2][1] == bso[2][1]
        ic, bc, items = iso[3], bso[3], iso[4]
    elif kind == "comp":
        same = iso[1] == bso[1] and iso[2] == bso[2]
        ic, bc, items = iso[3], bso[3], iso[4]
    elif kind == "zipstar":
        same = iso[1] == bso[1]
        ic, bc, items = iso[2], bso[2], False
    else:
        same = iso[1] == bso[1]
        ic, bc, items = iso[2], bso[2], True
    if not same:
        return "the two lists are not filled from the same iteration"
    if ic == bc:
        return "both lists take the same component (%s) of the pairs" % (ic,)
    if items and (ic, bc) != (0, 1):
        return "the share numbers are component %s and the blocks component %s of the (shnum, block) items" % (ic, bc)
    return None


def _poly_subst(poly, atom, repl):
    out = Poly()
    for term, co in poly.t.items():
        p = Poly.const(co)
        for a in term:
            p = p * (repl if a == atom else Poly.atom(a))
        out = out + p
    return out


def call_tail_of(e):
    return call_tail(e) if isinstance(e, ast.Call) else None


def _pair(e):
    """(offset, data) of a queued write vector: tuple([o, d]) / (o, d)."""
    if isinstance(e, ast.Call) and call_tail(e) == "tuple" and e.args:
        e = e.args[0]
    if isinstance(e, (ast.Tuple, ast.List)) and len(e.elts) == 2:
        return e.elts[0], e.elts[1]
    return None


def _wrole(fn, e, version_const):
    """Writer-side role expressed in the read proxy's vocabulary."""
    ro = _role(fn, e)
    if ro == "const:%r" % (version_const,):
        return "self._version_number"
    return W2R.get(ro, "?" + ro)


def _name_of(fn, pack):
    """Local name a pack result is assigned to."""
    n, c = pack
    if isinstance(n.ast, ast.Assign) and n.ast.value is c and isinstance(n.ast.targets[0], ast.Name):
        return n.ast.targets[0].id
    return None


def _writev_offsets(idx, fn, fnorm):
    """{local name of the data: folded offset} for self._writevs.append(tuple([offset, name]))."""
    out = {}
    for cc in calls_in_func(fn, "append"):
        if call_name(cc) != "self._writevs.append" or not cc.args:
            continue
        pr = _pair(cc.args[0])
        if pr is None or not isinstance(pr[1], ast.Name):
            continue
        nn = _node_of(fn, cc)
        try:
            out[pr[1].id] = _fold_at(idx, fn, fnorm, nn, pr[0])
        except NotConstant:
            out[pr[1].id] = None
    return out


def _slice_bounds(idx, fn, fnorm, node, e):
    if isinstance(e, ast.Subscript) and isinstance(e.slice, ast.Slice):
        try:
            lo = _fold_at(idx, fn, fnorm, node, e.slice.lower) if e.slice.lower is not None else 0
            hi = _fold_at(idx, fn, fnorm, node, e.slice.upper) if e.slice.upper is not None else None
        except NotConstant as ex:
            raise AnalysisError("slice bounds of %s in %s are not constant (%s)" % (src(fn, e), short(fn), ex))
        return lo, hi
    return None, None


def _reader_header(idx, r, rpe, rpn):
    """Header unpacks of _process_encoding_parameters per version: (fmt, role list, lo, hi, node)."""
    attr_of = {}
    for n in rpe.cfg().nodes:
        if n.kind == "stmt" and isinstance(n.ast, ast.Assign) and isinstance(n.ast.value, ast.Name):
            for t in n.ast.targets:
                p = attr_path(t)
                if p and p.startswith("self."):
                    attr_of.setdefault(n.ast.value.id, set()).add(p)
    out = {}
    for (n, c) in _struct_calls(rpe, "unpack"):
        if not (isinstance(n.ast, ast.Assign) and isinstance(n.ast.targets[0], ast.Tuple)):
            continue
        tg = n.ast.targets[0].elts
        if len(tg) < 2:
            continue      # the one-byte version probe
        v = _node_version(idx, rpe, rpn, n)
        fmt = _fold_at(idx, rpe, rpn, n, c.args[0])
        roles = []
        for t in tg:
            a = attr_of.get(t.id, set()) if isinstance(t, ast.Name) else set()
            roles.append(sorted(a)[0] if len(a) == 1 else "?" + norm_plain(t))
        lo, hi = _slice_bounds(idx, rpe, rpn, n, c.args[1])
        r.site(rpe, c, "header unpack v%s" % v)
        r.require(v is not None, rpe, rpe.loc(c), "header unpack is not tied to one share version")
        r.require(len(tg) == struct_value_count(fmt), rpe, rpe.loc(c),
                  "%d targets for format %r" % (len(tg), fmt))
        if v is not None:
            out[v] = (fmt, roles, lo, hi, n)
    return out


def _reader_offsets(idx, r, po):
    """Offset-table unpacks of _process_offsets per version: (fmt, key list in unpack order, lo, hi, node)."""
    pon = FlowNorm(po, depth=8)
    out = {}
    cfg = po.cfg()
    for (n, c) in _struct_calls(po, "unpack"):
        if not (isinstance(n.ast, ast.Assign) and isinstance(n.ast.targets[0], ast.Tuple)):
            continue
        v = _node_version(idx, po, pon, n)
        fmt = _fold_at(idx, po, pon, n, c.args[0])
        key_of = {}
        for m in cfg.nodes:
            if "self._offsets[]" in node_stores(m) and isinstance(m.ast, ast.Assign) \
                    and isinstance(m.ast.value, ast.Name) and _node_version(idx, po, pon, m) == v:
                t = m.ast.targets[0]
                if isinstance(t.slice, ast.Constant):
                    key_of.setdefault(m.ast.value.id, []).append(t.slice.value)
        keys = []
        for t in n.ast.targets[0].elts:
            ks = key_of.get(t.id, []) if isinstance(t, ast.Name) else []
            keys.append(ks[0] if len(ks) == 1 else "?" + norm_plain(t))
        lo, hi = _slice_bounds(idx, po, pon, n, c.args[1])
        r.site(po, c, "offset table unpack v%s" % v)
        r.require(v is not None, po, po.loc(c), "offset table unpack is not tied to one share version")
        r.require(len(keys) == struct_value_count(fmt), po, po.loc(c), "%d targets for format %r" % (len(keys), fmt))
        if v is not None:
            out[v] = (fmt, keys, lo, hi, n)
    return out


# ------------------------------------------------- bounded concrete evaluation
# The segment-range arithmetic (which segments an update pushes / fetches / a read covers) is decided by evaluating
# the anchored functions' own statements over boundary inputs with a small interpreter of their CFGs.  Nothing of the
# package is imported or run: values are ints / tuples / abstract object references, everything else is UNKNOWN, an
# UNKNOWN test forks, and an UNKNOWN result is an analysis error (fail closed), never a pass.
class _Unknown(object):
    def __repr__(self):
        return "?"

    def __deepcopy__(self, memo):
        return self


UNK = _Unknown()


class _Ref(object):
    """Reference to an abstract object of the simulated heap (heap[name] = {member: value, 'meth()': value})."""
    def __init__(self, name):
        self.name = name

    def __eq__(self, other):
        return isinstance(other, _Ref) and other.name == self.name

    def __hash__(self):
        return hash(("ref", self.name))

    def __deepcopy__(self, memo):
        return self

    def __repr__(self):
        return "<%s>" % self.name


class _Dead(Exception):
    """The simulated path raises."""


class _Data(object):
    """An abstract byte string: runs (source tag, lo, hi) of bytes lo..hi-1 of the named source.  Supports what the
    stitching code does with bytes: len, slicing, concatenation (also with the empty bytes literal), equality."""
    __slots__ = ("runs",)

    def __init__(self, runs=()):
        norm = []
        for (t, lo, hi) in runs:
            if hi <= lo:
                continue
            if norm and norm[-1][0] == t and norm[-1][2] == lo:
                norm[-1] = (t, norm[-1][1], hi)
            else:
                norm.append((t, lo, hi))
        self.runs = tuple(norm)

    def __len__(self):
        return sum(hi - lo for (_t, lo, hi) in self.runs)

    def __getitem__(self, i):
        if not isinstance(i, slice) or i.step not in (None, 1):
            raise TypeError("only plain slices of abstract data are modelled")
        a, b, _st = i.indices(len(self))
        out, at = [], 0
        for (t, lo, hi) in self.runs:
            s_, e_ = max(a, at), min(b, at + hi - lo)
            if s_ < e_:
                out.append((t, lo + s_ - at, lo + e_ - at))
            at += hi - lo
        return _Data(out)

    def __add__(self, o):
        if isinstance(o, _Data):
            return _Data(self.runs + o.runs)
        if isinstance(o, bytes) and not o:
            return self
        return NotImplemented

    def __radd__(self, o):
        if isinstance(o, bytes) and not o:
            return self
        return NotImplemented

    def __eq__(self, o):
        if isinstance(o, bytes) and not o:
            return not self.runs
        return isinstance(o, _Data) and o.runs == self.runs

    def __ne__(self, o):
        return not self.__eq__(o)

    def __hash__(self):
        return hash(self.runs)

    def __deepcopy__(self, memo):
        return self

    def __repr__(self):
        return "+".join("%s[%d:%d]" % r for r in self.runs) or "(no bytes)"


def _has_unk(v):
    if v is UNK:
        return True
    if isinstance(v, (tuple, list)):
        return any(_has_unk(x) for x in v)
    return False


_BIN = {ast.Add: lambda a, b: a + b, ast.Sub: lambda a, b: a - b, ast.Mult: lambda a, b: a * b,
        ast.FloorDiv: lambda a, b: a // b, ast.Mod: lambda a, b: a % b, ast.Pow: lambda a, b: a ** b,
        ast.LShift: lambda a, b: a << b, ast.RShift: lambda a, b: a >> b, ast.BitOr: lambda a, b: a | b,
        ast.BitAnd: lambda a, b: a & b}
_CMP = {ast.Eq: lambda a, b: a == b, ast.NotEq: lambda a, b: a != b, ast.Lt: lambda a, b: a < b,
        ast.LtE: lambda a, b: a <= b, ast.Gt: lambda a, b: a > b, ast.GtE: lambda a, b: a >= b,
        ast.Is: lambda a, b: a is b, ast.IsNot: lambda a, b: a is not b, ast.In: lambda a, b: a in b,
        ast.NotIn: lambda a, b: a not in b}
_BUILTINS = {"min": min, "max": max, "abs": abs, "int": int, "len": len, "bool": bool, "divmod": divmod,
             "tuple": tuple, "list": list, "sorted": sorted, "sum": sum}


def _div_ceil(n, d):
    return int((n // d) + (n % d != 0))


# pyutil.mathutil (third-party, re-exported by allmydata.util.mathutil): modelled by its documented definitions
_EXTERNAL = {"pyutil.mathutil.div_ceil": _div_ceil,
             "pyutil.mathutil.next_multiple": lambda n, k: _div_ceil(n, k) * k,
             "pyutil.mathutil.pad_size": lambda n, k: (k - n % k) if n % k else 0}


def _log_ceil(n, b):
    p_, k_ = 1, 0
    while p_ < n:
        p_, k_ = p_ * b, k_ + 1
    return k_


_EXTERNAL["pyutil.mathutil.log_ceil"] = _log_ceil


class _ModuleScope(object):
    """Stands in for a FuncInfo when a module-level constant's defining expression is evaluated."""
    def __init__(self, module):
        self.module = module
        self.cls = None
        self.qual = module.name if hasattr(module, "name") else "<module>"


_INLINE_CACHE = {}


_HELPER_CACHE = {}


def _simple_helper(m):
    hit = _HELPER_CACHE.get(id(m))
    if hit is not None and hit[0] is m:
        return hit[1]
    res = _simple_helper_(m)
    _HELPER_CACHE[id(m)] = (m, res)
    return res


def _simple_helper_(m):
    if not isinstance(m.node, ast.FunctionDef) or m.node.decorator_list or len(m.node.body) > 12:
        return False
    if m.node.args.vararg or m.node.args.kwarg:
        return False              # its arguments cannot be bound (e.g. the log(*args, **kwargs) wrappers)
    for x in ast.walk(m.node):
        if isinstance(x, (ast.For, ast.While, ast.Try, ast.With, ast.Yield, ast.YieldFrom, ast.Await, ast.Lambda,
                          ast.AsyncFunctionDef, ast.ClassDef)) or (isinstance(x, ast.FunctionDef) and x is not m.node):
            return False
    return True


class _Sim(object):
    MAX_PATHS = 128
    MAX_DEPTH = 3

    def __init__(self, idx, observe=(), track=()):
        self.idx = idx
        self.folder = get_folder(idx)
        self.observe = set(observe)      # call tails whose evaluated arguments are recorded, never inlined
        self.track = set(track)          # self attributes whose stores make a helper method worth inlining
        self.seen = []                   # [(FuncInfo, ast.Call, [args], {kwargs})]
        self.seen_heap = []              # the heap at each recorded call (parallel to .seen)
        self.halt_at_loops = False       # True: a path that reaches a loop head ends there and is reported
        self.watch = set()               # heap object names whose member reads / modelled calls are recorded
        self.touched = []                # [(FuncInfo, expression)] reads of watched objects, in evaluation order
        self.const_depth = 0
        self.depth = 0

    # -- which helper methods are followed
    def _inlined(self, ci):
        key = (id(self.idx), ci.qual, frozenset(self.observe), frozenset(self.track))
        if key in _INLINE_CACHE and _INLINE_CACHE[key][0] is self.idx:
            return _INLINE_CACHE[key][1]
        meths = {}
        for c in ci.mro():
            for nm, m in c.methods.items():
                meths.setdefault(nm, m)
        hit = set()
        for nm, m in meths.items():
            for x in func_own_nodes(m):
                if isinstance(x, ast.Call) and call_tail(x) in self.observe:
                    hit.add(nm)
                if isinstance(x, ast.Attribute) and isinstance(x.ctx, ast.Store) and attr_path(x) in self.track:
                    hit.add(nm)
        changed = True
        while changed:
            changed = False
            for nm, m in meths.items():
                if nm in hit:
                    continue
                for x in func_own_nodes(m):
                    if isinstance(x, ast.Call) and isinstance(x.func, ast.Attribute) \
                            and attr_path(x.func.value) == "self" and x.func.attr in hit \
                            and x.func.attr not in self.observe:
                        hit.add(nm)
                        changed = True
                        break
        res = {nm: meths[nm] for nm in hit if nm not in self.observe}
        _INLINE_CACHE[key] = (self.idx, res)
        return res

    # -- expressions
    def ev(self, fn, e, fr, hp):
        try:
            return self._ev(fn, e, fr, hp)
        except (_Dead, AnalysisError):
            raise
        except Exception:
            return UNK

    def _ev(self, fn, e, fr, hp):
        f = lambda x: self._ev(fn, x, fr, hp)
        if isinstance(e, ast.Constant):
            return e.value
        if isinstance(e, ast.Name):
            if e.id in fr:
                return fr[e.id]
            try:
                return self.folder.name(e.id, fn.module, None)
            except NotConstant:
                # a module constant computed with a modelled third-party helper (e.g. mathutil.log_ceil)
                exprs = fn.module.assigns.get(e.id) or []
                if len(exprs) == 1 and self.const_depth < 4:
                    self.const_depth += 1
                    try:
                        return self.ev(_ModuleScope(fn.module), exprs[0], {}, hp)
                    finally:
                        self.const_depth -= 1
                return UNK
        if isinstance(e, ast.Attribute):
            b = self.ev(fn, e.value, fr, hp)
            if isinstance(b, _Ref):
                if b.name in self.watch:
                    self.touched.append((fn, e))
                return hp[b.name].get(e.attr, UNK)
            if b is UNK:
                try:
                    return self.folder.fold(e, fn.module, None)
                except NotConstant:
                    return UNK
            return UNK
        if isinstance(e, ast.Call):
            return self._call(fn, e, fr, hp)
        if isinstance(e, (ast.Tuple, ast.List)):
            vals = [self.ev(fn, x, fr, hp) for x in e.elts]
            return tuple(vals) if isinstance(e, ast.Tuple) else vals
        if isinstance(e, ast.Dict):
            if any(k is None for k in e.keys):
                return UNK
            ks = [f(k) for k in e.keys]
            if _has_unk(ks):
                return UNK
            return dict(zip(ks, [self.ev(fn, x, fr, hp) for x in e.values]))
        if isinstance(e, ast.Subscript):
            v = f(e.value)
            if isinstance(e.slice, ast.Slice):
                i = slice(*[(f(x) if x is not None else None) for x in (e.slice.lower, e.slice.upper, e.slice.step)])
                if _has_unk([i.start, i.stop, i.step]):
                    return UNK
            else:
                i = f(e.slice)
            if v is UNK or i is UNK or isinstance(v, _Ref):
                return UNK
            return v[i]
        if isinstance(e, ast.BinOp):
            l, r = f(e.left), f(e.right)
            if _has_unk(l) or _has_unk(r) or type(e.op) not in _BIN:
                return UNK
            return _BIN[type(e.op)](l, r)
        if isinstance(e, ast.UnaryOp):
            v = f(e.operand)
            if v is UNK:
                return UNK
            if isinstance(e.op, ast.USub):
                return -v
            if isinstance(e.op, ast.UAdd):
                return +v
            if isinstance(e.op, ast.Not):
                return not v
            return UNK
        if isinstance(e, ast.BoolOp):
            res = None
            for x in e.values:
                res = f(x)
                if res is UNK:
                    return UNK
                if isinstance(e.op, ast.And) and not res:
                    return res
                if isinstance(e.op, ast.Or) and res:
                    return res
            return res
        if isinstance(e, ast.Compare):
            l = f(e.left)
            for op, rr in zip(e.ops, e.comparators):
                r = f(rr)
                if l is UNK or r is UNK:
                    return UNK
                if isinstance(op, (ast.Eq, ast.NotEq, ast.Lt, ast.LtE, ast.Gt, ast.GtE)) and (_has_unk(l) or _has_unk(r)):
                    return UNK
                if not _CMP[type(op)](l, r):
                    return False
                l = r
            return True
        if isinstance(e, ast.IfExp):
            c = f(e.test)
            if c is UNK:
                return UNK
            return f(e.body) if c else f(e.orelse)
        return UNK

    def _call(self, fn, e, fr, hp):
        tail = call_tail(e)
        if any(isinstance(a, ast.Starred) for a in e.args) or any(k.arg is None for k in e.keywords):
            args, kwargs, star = [], {}, True
        else:
            args = [self.ev(fn, a, fr, hp) for a in e.args]
            kwargs = {k.arg: self.ev(fn, k.value, fr, hp) for k in e.keywords}
            star = False
        if tail in self.observe:
            self.seen.append((fn, e, args, kwargs))
            self.seen_heap.append(copy.deepcopy(hp))
            return UNK
        if star:
            return UNK
        if isinstance(e.func, ast.Attribute):
            recv = self.ev(fn, e.func.value, fr, hp)
            if isinstance(recv, _Ref):
                mem = hp[recv.name]
                if recv.name in self.watch:
                    self.touched.append((fn, e))
                if not args and not kwargs and (e.func.attr + "()") in mem:
                    return mem[e.func.attr + "()"]
                if not kwargs and (e.func.attr + "(*)") in mem:
                    return mem[e.func.attr + "(*)"](hp, args)          # a modelled method of an abstract object
                if recv.name == "self" and fn.cls is not None:
                    m = self._inlined(fn.cls).get(e.func.attr)
                    if m is not None:
                        return self.call(m, recv, args, kwargs, hp)
                    m = fn.cls.lookup(e.func.attr)
                    if isinstance(m, FuncInfo) and _simple_helper(m):
                        # a small straight-line helper (e.g. a formula hoisted into a method): follow it, give up quietly
                        keep = copy.deepcopy(hp)
                        try:
                            return self.call(m, recv, args, kwargs, hp)
                        except AnalysisError:
                            hp.clear()
                            hp.update(keep)
                            return UNK
                return UNK
            if isinstance(recv, bytes) and not recv and e.func.attr == "join" and len(args) == 1 and not kwargs \
                    and isinstance(args[0], (list, tuple)):
                out = _Data()
                for piece in args[0]:
                    if not (isinstance(piece, _Data) or (isinstance(piece, bytes) and not piece)):
                        return UNK
                    out = out + piece
                return out
            if recv is not UNK:
                return UNK
        if isinstance(e.func, ast.Name) and e.func.id in _BUILTINS and e.func.id not in fr:
            if _has_unk(args) or kwargs:
                return UNK
            return _BUILTINS[e.func.id](*args)
        ext = self._external(fn, e.func)
        if ext is not None:
            if _has_unk(args) or kwargs:
                return UNK
            return ext(*args)
        target = self.idx.resolve_expr(fn.module, e.func) if isinstance(e.func, (ast.Name, ast.Attribute)) else None
        if isinstance(target, FuncInfo) and not kwargs and not _has_unk(args) \
                and not any(isinstance(a, _Ref) for a in args):
            from sa.tables import ConstEval
            try:
                return ConstEval(self.folder, target.module).call(target, args, {})
            except NotConstant:
                return UNK
        return UNK

    def _external(self, fn, f):
        """Model of a third-party arithmetic helper the package re-exports (pyutil.mathutil), by import target."""
        m, name = fn.module, None
        if isinstance(f, ast.Attribute) and isinstance(f.value, ast.Name):
            mod = self.idx.resolve_expr(fn.module, f.value)
            if not hasattr(mod, "imports"):
                return None
            m, name = mod, f.attr
        elif isinstance(f, ast.Name):
            name = f.id
        if name is None:
            return None
        for _hop in range(4):
            tgt = m.imports.get(name)
            if tgt is None:
                return None
            if tgt in _EXTERNAL:
                return _EXTERNAL[tgt]
            modname, _, name = tgt.rpartition(".")
            m = self.idx.modules.get(modname)
            if m is None:
                return None
        return None

    def call(self, m, selfref, args, kwargs, hp):
        """Follow a helper method of the same class on the same heap."""
        if self.depth >= self.MAX_DEPTH:
            raise AnalysisError("helper-method nesting deeper than %d while evaluating %s" % (self.MAX_DEPTH, short(m)))
        a = m.node.args
        names = [x.arg for x in a.args]
        if a.vararg or a.kwarg or not names:
            raise AnalysisError("cannot bind the arguments of %s" % short(m))
        fr = {names[0]: selfref}
        defaults = list(a.defaults)
        for i, nm in enumerate(names[1:], 1):
            if i - 1 < len(args):
                fr[nm] = args[i - 1]
            elif nm in kwargs:
                fr[nm] = kwargs[nm]
            else:
                di = i - (len(names) - len(defaults))
                fr[nm] = self.ev(m, defaults[di], {}, hp) if di >= 0 else UNK
        self.depth += 1
        try:
            outs = self.run(m, fr, hp)
        finally:
            self.depth -= 1
        if not outs:
            raise _Dead()
        if len(outs) > 1:
            raise AnalysisError("%s completes on %d paths for one concrete input" % (short(m), len(outs)))
        ret, _fr, hp2 = outs[0]
        if hp2 is not hp:
            hp.clear()
            hp.update(hp2)
        return ret

    # -- statements
    def store(self, fn, t, v, fr, hp):
        if isinstance(t, ast.Name):
            fr[t.id] = v
        elif isinstance(t, ast.Attribute):
            b = self.ev(fn, t.value, fr, hp)
            if isinstance(b, _Ref):
                hp[b.name][t.attr] = v
        elif isinstance(t, (ast.Tuple, ast.List)):
            if isinstance(v, (tuple, list)) and len(v) == len(t.elts) and not any(isinstance(x, ast.Starred) for x in t.elts):
                for x, y in zip(t.elts, v):
                    self.store(fn, x, y, fr, hp)
            else:
                for x in t.elts:
                    self.store(fn, x.value if isinstance(x, ast.Starred) else x, UNK, fr, hp)
        elif isinstance(t, ast.Subscript):
            box = self.ev(fn, t.value, fr, hp)
            key = self.ev(fn, t.slice, fr, hp) if not isinstance(t.slice, ast.Slice) else UNK
            if isinstance(box, dict) and not _has_unk(key) and not isinstance(key, (list, dict)):
                box[key] = v
            else:
                self.store(fn, t.value, UNK, fr, hp)      # otherwise an element store makes the container unknown

    def exec_stmt(self, fn, st, fr, hp):
        if isinstance(st, ast.Assign):
            v = self.ev(fn, st.value, fr, hp)
            for t in st.targets:
                self.store(fn, t, v, fr, hp)
        elif isinstance(st, ast.AnnAssign):
            if st.value is not None:
                self.store(fn, st.target, self.ev(fn, st.value, fr, hp), fr, hp)
        elif isinstance(st, ast.AugAssign):
            load = copy.deepcopy(st.target)
            for x in ast.walk(load):
                if hasattr(x, "ctx"):
                    x.ctx = ast.Load()
            cur, v = self.ev(fn, load, fr, hp), self.ev(fn, st.value, fr, hp)
            res = UNK
            if not _has_unk(cur) and not _has_unk(v) and type(st.op) in _BIN:
                try:
                    res = _BIN[type(st.op)](cur, v)
                except Exception:
                    res = UNK
            self.store(fn, st.target, res, fr, hp)
        elif isinstance(st, ast.Expr):
            self.ev(fn, st.value, fr, hp)
        elif isinstance(st, ast.Return):
            fr["<return>"] = self.ev(fn, st.value, fr, hp) if st.value is not None else None
        elif isinstance(st, ast.Raise):
            raise _Dead()
        elif isinstance(st, (ast.FunctionDef, ast.AsyncFunctionDef, ast.ClassDef)):
            fr[st.name] = UNK
        elif isinstance(st, ast.Delete):
            for t in st.targets:
                self.store(fn, t, UNK, fr, hp)
        elif isinstance(st, (ast.Pass, ast.Global, ast.Nonlocal, ast.Import, ast.ImportFrom, ast.Break, ast.Continue)):
            pass
        else:
            raise AnalysisError("cannot evaluate a %s statement of %s" % (type(st).__name__, short(fn)))

    def run(self, fn, frame, heap):
        """Every normally completing path of fn for this concrete input: [(return value, frame, heap)]."""
        cfg = fn.cfg()
        out, forks = [], 0
        work = [(cfg.entry, frame, heap)]
        while work:
            node, fr, hp = work.pop()
            steps = 0
            while node is not None:
                steps += 1
                if steps > 4 * len(cfg.nodes) + 16:
                    raise AnalysisError("evaluation of %s does not terminate" % short(fn))
                if node is cfg.exit:
                    out.append((fr.get("<return>"), fr, hp))
                    break
                if node is cfg.raise_exit or node.kind == "except":
                    break
                if node.kind == "iter":
                    if self.halt_at_loops and self.depth == 0:
                        fr["<halted>"] = True
                        out.append((None, fr, hp))
                        break
                    raise AnalysisError("%s loops; its segment arithmetic cannot be evaluated" % short(fn))
                nxt = [(cfg.nodes[d], lab) for (d, lab) in cfg.succ[node.id] if lab != "exc"]
                if node.kind == "test":
                    v = self.ev(fn, node.ast, fr, hp)
                    if v is UNK:
                        forks += 1
                        if forks > self.MAX_PATHS:
                            raise AnalysisError("too many undetermined branches in %s" % short(fn))
                        for (d, lab) in nxt[1:]:
                            work.append((d, copy.deepcopy(fr), copy.deepcopy(hp)))
                        node = nxt[0][0] if nxt else None
                        continue
                    want = "T" if v else "F"
                    nxt = [(d, lab) for (d, lab) in nxt if isinstance(lab, tuple) and lab[0] == want]
                elif node.kind == "stmt":
                    try:
                        self.exec_stmt(fn, node.ast, fr, hp)
                    except _Dead:
                        break
                if not nxt:
                    break
                for (d, lab) in nxt[1:]:
                    work.append((d, copy.deepcopy(fr), copy.deepcopy(hp)))
                node = nxt[0][0]
        return out


# ---- C09.20: where the value a read is served from comes from, and who forgets it ---------------------------------
# Leaves of the provenance sets:  ("attr", X)          a read of the persistent filenode attribute X
#                                 ("param", qual, p)   parameter p of function qual (substituted at resolved call sites)
#                                 ("fresh", Name)      a Name(..) object constructed on the way
NODE = "mutable.filenode:MutableFileNode"
_REGK = {"addCallback": "cb", "addErrback": "eb", "addBoth": "both", "addCallbacks": "pair"}
_EMPTY = frozenset()


def _flat_targets(t):
    if isinstance(t, (ast.Tuple, ast.List)):
        for x in t.elts:
            for y in _flat_targets(x):
                yield y
    elif isinstance(t, ast.Starred):
        for y in _flat_targets(t.value):
            yield y
    else:
        yield t


class _Origins:
    """Flow-insensitive, interprocedural data-flow provenance of the value an expression has or, for a Deferred, eventually
    fires with: through local assignments, Deferred callback chains (callbacks receive the previous result), resolved method /
    nested-function calls (parameters substituted), functions that call a callable they are given (_do_serialized), tuples
    and derived objects (a constructed object or the result of an unresolved call derives from its receiver and arguments).
    Branch conditions are not data flow."""

    def __init__(self, idx, node_cls, version_cls):
        self.idx = idx
        self.node_cls = node_cls
        self.version_cls = version_cls
        self.memo = {}
        self.busy = set()
        self._defs = {}
        self.where = {}          # attribute -> [(fn, ast node)] reads that flow somewhere

    def defs(self, fn):
        if fn.qual not in self._defs:
            self._defs[fn.qual] = def_exprs(fn)
        return self._defs[fn.qual]

    def node_attr(self, fn, path):
        """X when `path` (an attribute path read in fn) is the filenode's instance attribute X"""
        parts = path.split(".")
        if fn.cls is self.node_cls and parts[0] == "self" and len(parts) >= 2:
            return None if self.node_cls.lookup(parts[1]) is not None else parts[1]
        if fn.cls is self.version_cls and parts[:2] == ["self", "_node"] and len(parts) >= 3:
            return None if self.node_cls.lookup(parts[2]) is not None else parts[2]
        return None

    # ------------------------------------------------------------------ callables
    def resolve_callable(self, fn, f):
        if isinstance(f, ast.Name):
            p = fn
            while p is not None:
                if f.id in p.nested:
                    return [p.nested[f.id]]
                p = p.parent
            g = fn.module.funcs.get(f.id)
            return [g] if isinstance(g, FuncInfo) else []
        if isinstance(f, ast.Attribute):
            p = attr_path(f.value)
            if p == "self" and fn.cls is not None:
                m = fn.cls.lookup(f.attr)
                return [m] if m is not None else []
            if p == "self._node" and fn.cls is self.version_cls:
                m = self.node_cls.lookup(f.attr)
                return [m] if m is not None else []
        return []

    def called_params(self, callee):
        out = []
        ps = first_positional_params(callee)
        for n in ast.walk(callee.node):
            if isinstance(n, ast.Call) and isinstance(n.func, ast.Name) and n.func.id in ps and n.func.id not in out:
                out.append(n.func.id)
        return out

    def of_function(self, fn):
        if fn.qual in self.memo:
            return self.memo[fn.qual]
        if fn.qual in self.busy:
            return _EMPTY
        self.busy.add(fn.qual)
        out = set()
        for n in func_own_nodes(fn):
            if isinstance(n, ast.Return) and n.value is not None:
                out |= self.of_expr(fn, n.value, {})
        self.busy.discard(fn.qual)
        self.memo[fn.qual] = frozenset(out)
        return self.memo[fn.qual]

    def instantiate(self, callee, argsets, kwsets):
        res = self.of_function(callee)
        ps = first_positional_params(callee)
        out = set()
        for leaf in res:
            if leaf[0] == "param" and leaf[1] == callee.qual:
                nm = leaf[2]
                if nm in ps and ps.index(nm) < len(argsets):
                    out |= argsets[ps.index(nm)]
                elif nm in kwsets:
                    out |= kwsets[nm]
                elif callee.node.args.vararg is not None and callee.node.args.vararg.arg == nm:
                    for a in argsets[len([a for a in callee.node.args.args if a.arg not in ("self", "cls")]):]:
                        out |= a
                elif nm in ("self", "cls"):
                    continue
            else:
                out.add(leaf)
        return out

    def call_callable(self, fn, target, first, extras, env, seen):
        args = ([first] if first is not None else []) + list(extras)
        if isinstance(target, ast.Lambda):
            la = target.args
            names = [a.arg for a in la.posonlyargs + la.args]
            dflt = dict(zip(reversed(names), reversed(la.defaults)))
            env2 = dict(env)
            for i, nm in enumerate(names):
                if i < len(args):
                    env2[nm] = frozenset(args[i])
                elif nm in dflt:
                    env2[nm] = self.of_expr(fn, dflt[nm], env, seen)
                else:
                    env2[nm] = _EMPTY
            return self.of_expr(fn, target.body, env2, seen)
        callees = self.resolve_callable(fn, target)
        if callees:
            out = set()
            for c in callees:
                out |= self.instantiate(c, args, {})
            return frozenset(out)
        out = set()
        for a in args:
            out |= a
        if isinstance(target, ast.Attribute):
            out |= self.of_expr(fn, target.value, env, seen)
        return frozenset(out)

    def apply_reg(self, fn, kind, target, errtarget, extra_exprs, cur, env, seen):
        extras = [self.of_expr(fn, a, env, seen) for a in extra_exprs]
        if kind in ("cb", "both"):
            return self.call_callable(fn, target, frozenset(cur), extras, env, seen)
        if kind == "eb":
            return frozenset(cur) | self.call_callable(fn, target, _EMPTY, extras, env, seen)
        out = self.call_callable(fn, target, frozenset(cur), [], env, seen)
        if errtarget is not None:
            out = out | self.call_callable(fn, errtarget, _EMPTY, [], env, seen)
        return out

    # ------------------------------------------------------------------ expressions
    def of_name(self, fn, name, env, seen):
        if name in env:
            return env[name]
        key = (fn.qual, name)
        if key in seen:
            return _EMPTY
        seen = seen | {key}
        defs = self.defs(fn)
        out = set()
        if name in fn.params:
            out.add(("param", fn.qual, name))
        for v in defs.get(name, []):
            out |= self.of_expr(fn, v, env, seen)
        if name in defs:
            for x in registrations(fn, name):
                out = set(self.apply_reg(fn, x.kind, x.target, x.errtarget, x.args, out, env, seen))
        if name not in defs and name not in fn.params and fn.parent is not None and name not in fn.nested:
            return self.of_name(fn.parent, name, {}, seen)
        return frozenset(out)

    def of_call(self, fn, call, env, seen):
        f = call.func
        if isinstance(f, ast.Attribute) and f.attr in _REGK:
            chain = []
            cur_e = call
            while isinstance(cur_e, ast.Call) and isinstance(cur_e.func, ast.Attribute) and cur_e.func.attr in _REGK:
                chain.append(cur_e)
                cur_e = cur_e.func.value
            chain.reverse()
            cur = self.of_expr(fn, cur_e, env, seen)
            for c in chain:
                kind = _REGK[c.func.attr]
                if not c.args:
                    continue
                if kind == "pair":
                    cur = self.apply_reg(fn, kind, c.args[0], c.args[1] if len(c.args) > 1 else None, [], cur, env, seen)
                else:
                    cur = self.apply_reg(fn, kind, c.args[0], None, c.args[1:], cur, env, seen)
            return frozenset(cur)
        argsets = [self.of_expr(fn, a.value if isinstance(a, ast.Starred) else a, env, seen) for a in call.args]
        kwsets = {k.arg: self.of_expr(fn, k.value, env, seen) for k in call.keywords if k.arg}
        tail = call_tail(call)
        if tail == "succeed":
            return argsets[0] if argsets else _EMPTY
        if tail == "maybeDeferred" and call.args:
            return self.call_callable(fn, call.args[0], None, argsets[1:], env, seen)
        callees = self.resolve_callable(fn, f)
        out = set()
        if callees:
            for c in callees:
                out |= self.instantiate(c, argsets, kwsets)
                ps = first_positional_params(c)
                for nm in self.called_params(c):
                    i = ps.index(nm)
                    if i < len(call.args):
                        out |= self.call_callable(fn, call.args[i], None, argsets[i + 1:], env, seen)
            return frozenset(out)
        for a in argsets:
            out |= a
        for a in kwsets.values():
            out |= a
        if isinstance(f, ast.Attribute):
            out |= self.of_expr(fn, f.value, env, seen)
        elif isinstance(f, ast.Name) and f.id[:1].isupper():
            out.add(("fresh", f.id))
        if isinstance(f, ast.Attribute) and f.attr[:1].isupper():
            out.add(("fresh", f.attr))
        return frozenset(out)

    def of_expr(self, fn, e, env, seen=_EMPTY):
        if e is None or isinstance(e, (ast.Constant, ast.Lambda, ast.Compare, ast.JoinedStr)):
            return _EMPTY
        if isinstance(e, ast.Await):
            return self.of_expr(fn, e.value, env, seen)
        if isinstance(e, ast.Name):
            return self.of_name(fn, e.id, env, seen)
        if isinstance(e, ast.Attribute):
            p = attr_path(e)
            if p:
                a = self.node_attr(fn, p)
                if a:
                    self.where.setdefault(a, []).append((fn, e))
                    return frozenset([("attr", a)])
                base = p.split(".")[0]
                if base == "self":
                    return _EMPTY
                return self.of_name(fn, base, env, seen)
            return self.of_expr(fn, e.value, env, seen)
        if isinstance(e, ast.Call):
            return self.of_call(fn, e, env, seen)
        if isinstance(e, ast.Subscript):
            return self.of_expr(fn, e.value, env, seen)
        if isinstance(e, ast.Starred):
            return self.of_expr(fn, e.value, env, seen)
        out = set()
        if isinstance(e, (ast.Tuple, ast.List, ast.Set)):
            for x in e.elts:
                out |= self.of_expr(fn, x, env, seen)
        elif isinstance(e, ast.Dict):
            for x in list(e.keys) + list(e.values):
                out |= self.of_expr(fn, x, env, seen)
        elif isinstance(e, ast.IfExp):
            out |= self.of_expr(fn, e.body, env, seen) | self.of_expr(fn, e.orelse, env, seen)
        elif isinstance(e, ast.BoolOp):
            for x in e.values:
                out |= self.of_expr(fn, x, env, seen)
        elif isinstance(e, ast.BinOp):
            out |= self.of_expr(fn, e.left, env, seen) | self.of_expr(fn, e.right, env, seen)
        elif isinstance(e, ast.UnaryOp):
            out |= self.of_expr(fn, e.operand, env, seen)
        elif isinstance(e, ast.NamedExpr):
            out |= self.of_expr(fn, e.value, env, seen)
        else:
            # comprehensions and whatever else: everything the expression reads (comprehension variables resolve to nothing)
            bound = {t.id for c in getattr(e, "generators", []) for t in ast.walk(c.target) if isinstance(t, ast.Name)}
            for x in own_nodes(e, into_lambda=True):
                if isinstance(x, ast.Attribute) and attr_path(x):
                    a = self.node_attr(fn, attr_path(x))
                    if a:
                        self.where.setdefault(a, []).append((fn, x))
                        out.add(("attr", a))
                elif isinstance(x, ast.Name) and x.id not in bound and isinstance(x.ctx, ast.Load):
                    out |= self.of_name(fn, x.id, env, seen)
        return frozenset(out)


def _node_attr_stores(idx, node_cls, version_cls, attr):
    """[(fn, ast node, value or None, how)] every place of allmydata.mutable that assigns / fills / empties the filenode
    attribute `attr` (self.X in MutableFileNode, <expr>._node.X / <expr>.node.X elsewhere)."""
    out = []

    def is_it(f, path):
        if path is None:
            return False
        parts = path.split(".")
        if parts[-1] != attr or len(parts) < 2:
            return False
        if parts[:-1] == ["self"]:
            return f.cls is node_cls
        return parts[-2] in ("_node", "node", "filenode", "_filenode")
    for f in idx.funcs.values():
        if not f.module.name.startswith("allmydata.mutable."):
            continue
        for n in func_own_nodes(f, into_lambda=True):
            if isinstance(n, (ast.Assign, ast.AnnAssign, ast.AugAssign)):
                ts = n.targets if isinstance(n, ast.Assign) else [n.target]
                for t0 in ts:
                    for t in _flat_targets(t0):
                        if isinstance(t, ast.Attribute) and is_it(f, attr_path(t)):
                            out.append((f, n, n.value, "assign"))
                        elif isinstance(t, ast.Subscript) and is_it(f, attr_path(t.value)):
                            out.append((f, n, n.value, "item"))
            elif isinstance(n, ast.Delete):
                for t in n.targets:
                    if is_it(f, attr_path(t)) or (isinstance(t, ast.Subscript) and is_it(f, attr_path(t.value))):
                        out.append((f, n, None, "del"))
            elif isinstance(n, ast.Call) and isinstance(n.func, ast.Attribute) and is_it(f, attr_path(n.func.value)):
                if n.func.attr in ("append", "add", "update", "extend", "insert", "setdefault", "appendleft"):
                    out.append((f, n, n, "fill"))
                elif n.func.attr in ("clear", "pop", "popitem", "discard", "remove"):
                    out.append((f, n, None, "del"))
    return out


def _is_blank(v):
    if v is None:
        return True
    if isinstance(v, ast.Constant):
        return True
    if isinstance(v, (ast.Dict, ast.List, ast.Set, ast.Tuple)):
        return not (v.keys if isinstance(v, ast.Dict) else v.elts)
    if isinstance(v, ast.Call) and isinstance(v.func, ast.Name) and v.func.id in ("dict", "list", "set", "tuple", "frozenset") \
            and not v.args and not v.keywords:
        return True
    return False


class _Forgetting:
    """For one remembered attribute: which functions of mutable/filenode.py forget it (directly or by calling one that does),
    and whether every way from a Publish start up to a public method passes, BEHIND the publish on the same Deferred, a
    callback that forgets it."""

    def __init__(self, idx, org, funcs, inv):
        self.idx = idx
        self.org = org
        self.funcs = funcs                  # FuncInfos of the module (nested ones included)
        self.inv = set(inv)                 # quals that forget the attribute directly
        changed = True
        while changed:
            changed = False
            for f in funcs:
                if f.qual in self.inv:
                    continue
                for n in func_own_nodes(f, into_lambda=True):
                    if isinstance(n, ast.Call) and any(c.qual in self.inv for c in org.resolve_callable(f, n.func)):
                        self.inv.add(f.qual)
                        changed = True
                        break

    def forgets(self, g, target):
        if isinstance(target, ast.Lambda):
            return any(isinstance(c, ast.Call) and any(x.qual in self.inv for x in self.org.resolve_callable(g, c.func))
                       for c in ast.walk(target.body))
        return any(x.qual in self.inv for x in self.org.resolve_callable(g, target))

    def covered(self, g, u):
        """is the work started / referenced by the expression u inside g followed, on its Deferred, by a forgetting callback?"""
        regs = registrations(g)
        inside = lambda root: any(x is u for x in ast.walk(root))
        after = [x for x in regs if inside(x.call.func.value)]
        var, pos = None, None
        for i, x in enumerate(regs):
            if x not in after and (inside(x.target) or any(inside(a) for a in x.args)) and x.recv:
                var, pos = x.recv, i
        if var is None:
            for n in func_own_nodes(g):
                if isinstance(n, ast.Assign) and len(n.targets) == 1 and isinstance(n.targets[0], ast.Name) and inside(n.value):
                    var, pos = n.targets[0].id, -1
        if var is not None:
            after += [x for i, x in enumerate(regs) if x.recv == var and i > pos and x not in after]
        return any(x.kind in ("cb", "both", "pair") and self.forgets(g, x.target) for x in after)

    def users(self, f):
        """(g, expression) every call of / reference to f in the module"""
        out = []
        for g in self.funcs:
            for n in func_own_nodes(g, into_lambda=True):
                if isinstance(n, ast.Call):
                    cs = self.org.resolve_callable(g, n.func)
                    if any(c is f for c in cs):
                        out.append((g, n))
                        continue
                    fa = n.func
                    if not cs and isinstance(fa, ast.Attribute) and fa.attr == f.name and f.parent is None \
                            and (attr_path(fa.value) or "").split(".")[0] != "self":
                        out.append((g, n))
                elif isinstance(n, (ast.Attribute, ast.Name)) and isinstance(getattr(n, "ctx", None), ast.Load):
                    if any(c is f for c in self.org.resolve_callable(g, n)):
                        out.append((g, n))
        # a call is reported once (the Call), not again through its func expression
        calls = {id(n.func) for (_g, n) in out if isinstance(n, ast.Call)}
        return [(g, n) for (g, n) in out if id(n) not in calls]

    def escape(self, g, u, seen=()):
        """None when every way up from (g, u) is covered, else the chain of functions of an uncovered way to a public method"""
        if self.covered(g, u):
            return None
        if g.parent is None and not g.name.startswith("_"):
            return [g]
        if g.qual in seen:
            return None
        for (h, v) in self.users(g):
            ch = self.escape(h, v, seen + (g.qual,))
            if ch is not None:
                return [g] + ch
        return None
