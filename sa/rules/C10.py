"""C10 Mutable reads return only published versions.

Decided: the trust chain from the cap (fingerprint / writekey) to the bytes
handed to the consumer: fingerprint gate before the verification key is
installed, signature gate before a version or a share is recorded in the
servermap, signed prefix covers every verinfo field Retrieve relies on, hash
gates before a block leaves Retrieve._validate_block, only validated blocks are
decoded, only decoded+decrypted segments are written (DESIGN.md section 5, C10); a share whose bytes cannot be
parsed or validated reaches Retrieve._handle_bad_share as an exception type it tolerates (C10.12, C10.13); the hash
trees those gates consult accept a hash only when its chain reaches the trusted root and are left exactly as they were
by a rejected offer - Retrieve keeps ONE share hash tree for all shares of a read and one block hash tree per share for
all segments, so whatever a rejected forged share leaves behind is what the next shares are compared with (C10.14.*,
the set_hashes rules of C35)."""
from sa.h import *
from sa.cfg import reaching_defs, PARAM_DEF, node_exprs

EXPLANATION = (
    "Decided (structural, all paths): (1) ServermapUpdater._try_to_set_pubkey installs a verification key only "
    "after ssk_pubkey_fingerprint_hash(key string) == node fingerprint, and installs the key parsed from that "
    "string; (2) who-may-call _populate_pubkey/_populate_privkey/_populate_encprivkey and who-may-write the "
    "node's _pubkey/_fingerprint; (3) _got_signature_one_share records a version (_valid_versions.add) or a "
    "share (add_new_share) only after rsa.verify_signature(node pubkey, sig, verinfo[7]) returned normally or "
    "the same verinfo is already in _valid_versions; the BadSignature handler does not fall through; "
    "(4) who-may-call add_new_share / who-may-write _known_shares, _valid_versions; Publish records only its "
    "own versioninfo; (5) the reader's verinfo fields are all packed into the signed prefix it carries; "
    "(6) Retrieve._validate_block returns {shnum:(block,salt)} only after the block-hash leaf "
    "block_hash(salt+block | block) at index segnum and the share-hash leaf bht[0] at index shnum were accepted, "
    "MDMF hashes salt+block, hash failures raise - each of the two set_hashes calls may be written in _validate_block or "
    "made by a helper it calls (followed through the call graph, arguments bound to the helper's parameters): the helper "
    "must make the call, with the leaf it was given, on every normal path through it, and the helper call itself must lie "
    "on every path to the return (a guard may skip the extra `hashes`, never the leaf; a call in the short-circuited arm "
    "of and/or or of a conditional expression does not count); a helper whose set_hashes arguments cannot be traced to "
    "its parameters gives ANALYSIS-ERROR, not a verdict; (7) the share hash tree root is verinfo root_hash and the "
    "trees are bound only in _setup_download; (8) _decode_blocks is fed only the gathered _validate_block outputs, "
    "_handle_bad_share yields None (a None entry makes _decode_blocks raise, i.e. an error, so the 'None in results' "
    "test itself is not demanded); consumer.write only in _set_segment on the chain "
    "decode -> decrypt -> _set_segment; (9) both _try_to_validate_privkey install a signing key only after "
    "ssk_writekey_hash(decrypted) == node writekey; (10) the SDMF decryption IV handed to the decoder is "
    "authenticated (covered by the block hash or equal to the signed verinfo IV); (11) segment sequencing: "
    "_maybe_decode_and_decrypt_segment hands the decode -> decrypt -> _set_segment Deferred back to the segment loop on "
    "every path after the decode started, _set_segment writes the segment on every non-verify path and advances "
    "_current_segment by exactly one exactly once, only _setup_encoding_parameters (= _start_segment) and _set_segment "
    "move _current_segment, _process_segment is run for _current_segment, Retrieve._done (the only place that fires "
    "_done_deferred with success) is called only by _download_current_segment behind _current_segment > _last_segment "
    "(or in verify mode) and by download() behind size == 0; (12) _set_segment cuts the tail only under "
    "_current_segment == _last_segment and a non-zero bound, the head only under _current_segment == _start_segment, "
    "does each cut on every path to the write where that equality holds (unless an edge says the boundary remainder is "
    "zero), and blanks the segment only under _read_length == 0; (13, rule C10.12) a damaged share is dropped, not fatal - exception "
    "containment: inside MDMFSlotReadProxy every Deferred callback that can raise struct.error (struct.unpack of bytes a "
    "server returned, directly or through a reader method it calls) is followed, on every path to the return of the "
    "Deferred, by an errback that traps struct.error and re-raises a BadShareError subclass (or the unpack sits in a try "
    "whose handler does), the conversion errback really does that, and no public reader method can raise struct.error "
    "synchronously; (14, rule C10.13) Retrieve._handle_bad_share's trap includes BadShareError and every exception raised explicitly "
    "in MDMFSlotReadProxy, Retrieve._validate_block and the hash-tree update helpers _validate_block calls is a package class "
    "derived from a trapped class. "
    "(15, rules C10.14.*, shared with C35) the gates of (6) are only as good as IncompleteHashTree.set_hashes, and "
    "Retrieve feeds every share of a read into the same share_hash_tree (and every segment of a share into the same "
    "block hash tree), with hash numbers and hashes chosen by the server: every store into the tree made by a call is "
    "scheduled for roll-back (offered hashes and the parents computed from them alike) and only those are; the roll-back "
    "handler covers every rejection raised in the region including the IndexError of an out-of-range hash number, undoes "
    "every scheduled store and re-raises; a known node is never overwritten and a mismatch with it raises BadHashError; "
    "every stored node is checked against its parent (sibling required, parent = pair_hash of the sorted pair, computed "
    "parent stored and enqueued one level up, only the root is skipped, levels bottom-up) - so a call returns normally "
    "only when everything it added hangs off the trusted root, and a call that raises leaves nothing behind. "
    "(16, rule C10.15) availability at the servermap: a share is kept out of the servermap only by its own checks - in "
    "ServermapUpdater._got_results every branch decision that keeps a share of a server's answer from reaching "
    "_got_signature_one_share, and in _got_signature_one_share every branch decision that keeps a share from reaching "
    "add_new_share (the edges after which the recording call is no longer reachable), is an exception / assertion of the "
    "validation, the end of the answer, the updater having been stopped, or a test that depends on what differs from share "
    "to share (the Deferred result and the loop variables, e.g. the (server, shnum) key looked up in the bad-share map) - "
    "never a test on the server alone (a corrupt sibling share); the per-share loop is left only when the answer is "
    "exhausted; ServerMap.add_new_share stores the (server, shnum) it is given on every path, ServerMap removes from "
    "_known_shares only the one (server, shnum) named by its caller, and the updater calls mark_bad_share only for the "
    "(server, shnum) the failing callback was invoked for. "
    "Undecided: RSA / SHA-256d strength, the index algebra and the writer-side shape of the hash trees (C35.5-C35.8), zfec algebra, the rest of availability (k intact shares => "
    "success: share selection and replacement, exceptions other than struct.error that malformed server answers could "
    "provoke in the reader such as IndexError on an empty read vector; "
    "this includes edits that only make a gate stricter, e.g. `and` -> `or` in the SDMF IV test, skipping "
    "bht.set_hashes(blockhashes), negating the bad-share / running tests of the servermap updater, which shares "
    "Retrieve picks and how it replaces a share that failed), pause/stop "
    "handling, the values of the trim bounds ((offset + read_length) % segment_size, offset % segment_size) and the "
    "order tail-before-head, the start/last segment arithmetic of _setup_encoding_parameters and _decode_blocks' own "
    "trimming (C09), publish-side surprise handling (C12).")
TECHNIQUE = "static analysis: CFG must-precede gates on normalised edge facts, who-may-call/write sweeps, Deferred chain order, reaching definitions, exception-type containment along Deferred chains and the class hierarchy, rollback pairing (journal / undo) on the hash-tree store, diverting-edge analysis (branch edges after which the recording call is unreachable) with def-use dependency sets"

SM = "mutable.servermap:ServermapUpdater"
SMAP = "mutable.servermap:ServerMap"
RET = "mutable.retrieve:Retrieve"
NODE = "mutable.filenode:MutableFileNode"
PUB = "mutable.publish:Publish"
READER = "mutable.layout:MDMFSlotReadProxy"


# ------------------------------------------------------------------ helpers
def _fact(fnorm, n, lab):
    f = fnorm.edge_fact(n, lab)
    return f if f else (None, None, None)


def _eq_gate(fnorm, pa, pb):
    """gate edge: canonical '==' whose two sides match the regexes pa / pb (either order)."""
    ra, rb = re.compile(pa), re.compile(pb)

    def gate(n, lab):
        op, l, r = _fact(fnorm, n, lab)
        if op != "==":
            return False
        return bool((ra.match(l) and rb.match(r)) or (ra.match(r) and rb.match(l)))
    return gate


def _unwrap_thread(e):
    """`await defer_to_thread(f, a, ..)` / `defer_to_thread(f, a)` / `f(a)` -> (callee expr, [args])."""
    while isinstance(e, ast.Await):
        e = e.value
    if isinstance(e, ast.Call) and call_tail(e) in ("defer_to_thread", "deferToThread") and e.args:
        return e.args[0], list(e.args[1:])
    if isinstance(e, ast.Call):
        return e.func, list(e.args)
    return None, []


def _name_tail(e):
    if isinstance(e, ast.Name):
        return e.id
    if isinstance(e, ast.Attribute):
        return e.attr
    return ""


def _defs_at(fn, node, name):
    """Defining expressions of local `name` that reach `node` (None for opaque / parameter)."""
    cfg = fn.cfg()
    rd = reaching_defs(cfg)
    fl = FlowNorm(fn)
    out = []
    for d in rd.get(node.id, {}).get(name, ()):
        if d == PARAM_DEF:
            out.append(None)
        else:
            out.append(fl._def_value(cfg.nodes[d], name))
    return out


def _assign_of(fn, store_node):
    for n in func_own_nodes(fn):
        if isinstance(n, ast.Assign):
            for t in n.targets:
                for x in own_nodes(t):
                    if x is store_node:
                        return n
    return None


def _uses_everywhere(idx, tail, module_prefix=None):
    """(fn, node, is_call) for every call of / bare attribute reference to `tail` in the package, *including those
    inside lambda bodies* (the engine's who-may-call sweep does not enter lambdas)."""
    out = []
    for f in idx.funcs.values():
        if tail not in f.module.source:
            continue
        if module_prefix and not f.module.name.startswith(module_prefix):
            continue
        nodes = list(func_own_nodes(f, into_lambda=True))
        callee = {id(n.func) for n in nodes if isinstance(n, ast.Call)}
        for n in nodes:
            if isinstance(n, ast.Call) and call_tail(n) == tail:
                out.append((f, n, True))
            elif isinstance(n, ast.Attribute) and n.attr == tail and isinstance(n.ctx, ast.Load) and id(n) not in callee:
                out.append((f, n, False))
    seen = set()
    res = []
    for (f, n, c) in out:
        if id(n) not in seen:
            seen.add(id(n))
            res.append((f, n, c))
    return res


def _who_may_use(r, idx, tail, allowed, what, module_prefix=None):
    allowed = ["allmydata." + a for a in allowed]
    uses = _uses_everywhere(idx, tail, module_prefix)
    for (f, n, is_call) in uses:
        if any(f.qual == a or f.qual.startswith(a + ".") for a in allowed):
            continue
        r.violation(f, f.loc(n), "%s %s %s %s" % (short(f), "calls" if is_call else "takes as a value", tail, what))
    return len(uses)


# ---- exception containment (C10.12 / C10.13) -----------------------------------------
UNPACK_TAILS = {"unpack", "unpack_from", "iter_unpack"}
REG_ATTRS = {"addCallback", "addCallbacks", "addErrback", "addBoth"}


def _names_exc(m, e, dotted, builtin_bases=("Exception", "BaseException")):
    """The handler type / trap argument `e` (in module m) denotes the external exception `dotted` (e.g. 'struct.error')
    or one of its builtin base classes (bare `except:` included)."""
    if e is None:
        return True
    if isinstance(e, ast.Tuple):
        return any(_names_exc(m, x, dotted, builtin_bases) for x in e.elts)
    p = attr_path(e)
    if p is None:
        return False
    if p in builtin_bases:
        return True
    head, _, tail = p.partition(".")
    full = m.imports.get(head)
    if full is None:
        return False
    return full + ("." + tail if tail else "") == dotted


def _exc_class(idx, m, e):
    """ClassInfo of the package exception class a `raise` operand / trap argument denotes (None: not a package class)."""
    if isinstance(e, ast.Call):
        e = e.func
    if e is None:
        return None
    return idx.resolve_expr_to_class(m, e)


def _in_family(ci, roots):
    return ci is not None and any(c in roots for c in ci.mro())


def _local_func(idx, f, e, depth=0):
    """FuncInfo that the callable expression `e` inside f denotes: lambda, partial(x, ..), nested / enclosing def,
    module function, self.method, or a local bound once to one of those."""
    if isinstance(e, ast.Lambda):
        return idx.lambda_func(f, e)
    if isinstance(e, ast.Call) and call_tail(e) == "partial" and e.args:
        return _local_func(idx, f, e.args[0], depth)
    if isinstance(e, ast.Name):
        g = f
        while g is not None:
            if e.id in g.nested:
                return g.nested[e.id]
            g = g.parent
        x = idx.resolve_name(f.module, e.id)
        if isinstance(x, FuncInfo):
            return x
        if depth < 2 and not isinstance(f.node, ast.Lambda):
            d = unique_defs(f).get(e.id)
            if d is not None:
                return _local_func(idx, f, d, depth + 1)
        return None
    if isinstance(e, ast.Attribute) and isinstance(e.value, ast.Name) and e.value.id == "self" and f.cls is not None:
        return f.cls.lookup(e.attr)
    return None


def _unprotected_calls(f, ok_handler):
    """Calls evaluated by f's own body (nested defs / lambda bodies excluded) that do not sit in the body of a `try`
    one of whose handlers satisfies ok_handler."""
    out = []

    def expr_calls(node):
        return [x for x in own_nodes(node) if isinstance(x, ast.Call)]

    def walk(stmts, prot):
        for st in stmts:
            if isinstance(st, (ast.FunctionDef, ast.AsyncFunctionDef, ast.ClassDef)):
                continue
            if isinstance(st, ast.Try):
                walk(st.body, prot or any(ok_handler(h) for h in st.handlers))
                for h in st.handlers:
                    walk(h.body, prot)
                walk(st.orelse, prot)
                walk(st.finalbody, prot)
                continue
            bodies = []
            for field in ("body", "orelse", "finalbody"):
                sub = getattr(st, field, None)
                if isinstance(sub, list) and sub and isinstance(sub[0], ast.stmt):
                    bodies.append(sub)
            if not bodies:
                if not prot:
                    out.extend(expr_calls(st))
                continue
            for fld, val in ast.iter_fields(st):
                if fld in ("body", "orelse", "finalbody", "handlers"):
                    continue
                for v in (val if isinstance(val, list) else [val]):
                    if isinstance(v, ast.AST) and not prot:
                        out.extend(expr_calls(v))
            for b in bodies:
                walk(b, prot)
    walk(f.body, False)
    return out


def _chain_base(c):
    while isinstance(c, ast.Call) and isinstance(c.func, ast.Attribute) and c.func.attr in REG_ATTRS:
        c = c.func.value
    return c


class _StructContainment:
    """Which functions of the reader class can raise struct.error, which hand out a Deferred that can fail with it,
    and which errbacks turn it into an exception of the bad-share family."""

    def __init__(self, idx, in_scope, family_roots):
        self.idx = idx
        self.in_scope = in_scope          # FuncInfo -> bool : part of the reader class
        self.roots = family_roots
        self._raise = {}
        self._leak = {}
        self._conv = {}
        self.states = 0

    # -- a handler / errback that converts struct.error -------------------------------
    def ok_handler_in(self, f):
        def ok(h):
            if not _names_exc(f.module, h.type, "struct.error"):
                return False
            if not h.body or any(isinstance(x, ast.Return) for st in h.body for x in own_nodes(st)):
                return False
            last = h.body[-1]
            return isinstance(last, ast.Raise) and last.exc is not None and \
                _in_family(_exc_class(self.idx, f.module, last.exc), self.roots)
        return ok

    def converter_problem(self, g):
        """None when the errback g re-raises every struct.error failure as a bad-share-family exception, else why not."""
        if g.qual in self._conv:
            return self._conv[g.qual]
        ps = first_positional_params(g)
        if not ps:
            self._conv[g.qual] = "takes no failure"
            return self._conv[g.qual]
        p = ps[0]
        cfg = g.cfg()

        def picks_struct(c, meth):
            return call_name(c) == p + "." + meth and any(_names_exc(g.module, a, "struct.error") for a in c.args)

        def tr(n, lab, nxt, st):
            if n.kind in ("entry", "exit", "raise"):
                return st
            if lab == "exc":
                return st if is_raise(n) else None
            for c in node_calls(n):
                if call_name(c) == p + ".trap":
                    if picks_struct(c, "trap"):
                        st = "S"
                    elif st != "N":
                        raw.append(c)       # a struct.error failure is re-raised unchanged here
                        return None
            if n.kind == "test" and isinstance(lab, tuple) and isinstance(n.ast, ast.Call) and picks_struct(n.ast, "check"):
                st = "S" if lab[0] == "T" else "N"
            return st
        raw = []
        visited, _ = explore(cfg, "?", tr)
        self.states += len(visited)
        why = "%s lets a struct.error failure through unchanged" % src(g, raw[0]) if raw else None
        for (nid, st) in sorted(visited):
            n = cfg.nodes[nid]
            if st == "N" or why:
                continue
            if n.kind == "exit":
                why = "can return normally for a struct.error failure (or never identifies one with trap/check)"
            elif is_raise(n) and not _in_family(_exc_class(self.idx, g.module, n.ast.exc), self.roots):
                why = "raises %s, which is not a BadShareError, for a struct.error failure" % (
                    src(g, n.ast.exc) if n.ast.exc is not None else "the original exception again")
            if why:
                break
        self._conv[g.qual] = why
        return why

    def is_converter(self, f, target):
        g = _local_func(self.idx, f, target) if target is not None else None
        return g is not None and self.converter_problem(g) is None

    # -- synchronous struct.error -------------------------------------------------------
    def may_raise(self, f):
        """The call through which running f can raise struct.error (None: it cannot)."""
        if f.qual in self._raise:
            return self._raise[f.qual]
        self._raise[f.qual] = None
        why = None
        for c in _unprotected_calls(f, self.ok_handler_in(f)):
            if call_tail(c) in UNPACK_TAILS:
                why = c
                break
            g = _local_func(self.idx, f, c.func)
            if g is not None and g.qual != f.qual and self.in_scope(g) and self.may_raise(g):
                why = c
                break
        self._raise[f.qual] = why
        return why

    # -- Deferreds that can fail with struct.error ----------------------------------------
    def fails_with_struct(self, f, target):
        """registering `target` as a callback makes the chain able to fail with struct.error"""
        g = _local_func(self.idx, f, target) if target is not None else None
        if g is None or not self.in_scope(g):
            return None
        if self.may_raise(g) is not None:
            return g
        if self.leaks(g) is not None:
            return g
        return None

    def leaks(self, f):
        """(witness, description) when a Deferred built / obtained in f can still fail with struct.error when f returns
        normally; None otherwise."""
        if f.qual in self._leak:
            return self._leak[f.qual]
        self._leak[f.qual] = None
        cfg = f.cfg()
        regs = registrations(f)
        assigned = {}
        for st in func_own_nodes(f):
            if isinstance(st, ast.Assign) and len(st.targets) == 1 and attr_path(st.targets[0]):
                assigned[id(_chain_base(st.value))] = attr_path(st.targets[0])
        events = {}
        for n in cfg.nodes:
            if n.kind in ("entry", "exit", "raise") or n.ast is None:
                continue
            calls = node_calls(n)
            ids = {id(c) for c in calls}
            evs = []
            for c in calls:
                if isinstance(c.func, ast.Attribute) and c.func.attr in REG_ATTRS:
                    continue
                g = _local_func(self.idx, f, c.func)
                if g is not None and g.qual != f.qual and self.in_scope(g) and self.leaks(g) is not None:
                    evs.append(("src", assigned.get(id(c), ""), g))
            for x in regs:
                if id(x.call) in ids:
                    evs.append(("reg", x.recv or assigned.get(id(_chain_base(x.call)), ""), x))
            if evs:
                events[n.id] = evs

        def tr(n, lab, nxt, st):
            if lab == "exc":
                return None
            for (what, key, x) in events.get(n.id, ()):
                if what == "src":
                    st = st | {(key, short(x))}
                    continue
                if (x.kind in ("eb", "both") and self.is_converter(f, x.target)) or \
                        (x.kind == "pair" and self.is_converter(f, x.errtarget)):
                    st = frozenset(e for e in st if e[0] != key)
                if x.kind in ("cb", "both", "pair"):
                    g = self.fails_with_struct(f, x.target)
                    if g is not None:
                        st = st | {(key, short(g))}
            return st
        visited, parent = explore(cfg, frozenset(), tr)
        self.states += len(visited)
        res = None
        for (nid, st) in sorted(visited, key=lambda v: (v[0], sorted(v[1]))):
            if cfg.nodes[nid].kind == "exit" and st:
                res = (witness(cfg, parent, (nid, st)), ", ".join(sorted({e[1] for e in st})))
                break
        self._leak[f.qual] = res
        return res


# ------------------------------------------------- diverting edges (C10.15)
def _can_reach(cfg, targets):
    """ids of the nodes from which a target node is reachable - within the same iteration of every for loop whose body
    holds a target (the back edges of those loops are not followed: the next share is another obligation)."""
    tast = {id(t.ast) for t in targets if t.ast is not None}
    inside = {}
    for it in cfg.nodes:
        if it.kind == "iter":
            body = {id(x) for st in it.ast.body for x in ast.walk(st)}
            if body & tast:
                inside[it.id] = body
    seen = {t.id for t in targets}
    work = list(seen)
    while work:
        x = work.pop()
        for (p, _lab) in cfg.pred[x]:
            pa = cfg.nodes[p].ast
            if x in inside and pa is not None and id(pa) in inside[x]:
                continue
            if p not in seen:
                seen.add(p)
                work.append(p)
    return seen


def _diverting_edges(cfg, targets):
    """(u, label, v): u can still reach a target, v (its successor on that edge) cannot - the branch decisions (and
    exceptions) that make a path miss every target."""
    can = _can_reach(cfg, targets)
    live = cfg.reachable_nodes()
    tids = {t.id for t in targets}
    out = []
    for u in cfg.nodes:
        if u.id not in can or u.id not in live or u.id in tids:
            continue
        for (d, lab) in cfg.succ[u.id]:
            if d not in can:
                out.append((u, lab, cfg.nodes[d]))
    return out


def _own_verdict(fn, u, lab, own, defs):
    """May this diverting edge decide the fate of the share?  Yes when it is the share's own check failing (exception,
    assertion), the end of the loop, the updater having been stopped, or a test on something that belongs to this
    share (depends on one of `own`).  Returns (ok, dependency set)."""
    if lab == "exc":
        return True, set()
    if u.kind == "iter":
        return lab == "done", set()
    if u.kind != "test":
        return False, set()
    if u.assume:
        return True, set()
    deps = depends_on(fn, u.ast, defs=defs) - {"self"}
    if deps & own:
        return True, deps
    if deps == {"self._running"}:
        return True, deps
    return False, deps


def _loop_of(cfg, node_ast):
    """innermost for-loop head whose body holds node_ast"""
    best = None
    for it in cfg.nodes:
        if it.kind == "iter":
            body = {id(x) for st in it.ast.body for x in ast.walk(st)}
            if id(node_ast) in body and (best is None or id(it.ast) in {id(x) for x in ast.walk(best.ast)}):
                best = it
    return best


def _names(e):
    return {n.id for n in ast.walk(e) if isinstance(n, ast.Name)}


def _per_share_params(gr, reg, callee, loopvars, defs):
    """Parameters of `callee` that differ from share to share at the registration `reg` made in the per-share loop of
    `gr`: the one receiving the Deferred's result and those fed from the loop variables."""
    ps = first_positional_params(callee)
    own = set()
    t = reg.target
    if isinstance(t, ast.Lambda):
        calls = [c for c in ast.walk(t.body) if isinstance(c, ast.Call) and call_tail(c) == callee.name]
        la = t.args
        lps = [a.arg for a in la.posonlyargs + la.args]
        dflt = dict(zip(reversed(lps), reversed(la.defaults)))
        for c in calls:
            pairs = [(ps[i], a) for i, a in enumerate(c.args) if i < len(ps)]
            pairs += [(k.arg, k.value) for k in c.keywords if k.arg in ps]
            for (pn, a) in pairs:
                for nm in _names(a):
                    if lps and nm == lps[0] and nm not in dflt:
                        own.add(pn)
                    elif nm in lps and nm not in dflt:
                        continue
                    elif depends_on(gr, dflt.get(nm, ast.Name(id=nm, ctx=ast.Load())), defs=defs) & loopvars:
                        own.add(pn)
    else:
        if ps:
            own.add(ps[0])
        for i, a in enumerate(reg.args):
            if i + 1 < len(ps) and depends_on(gr, a, defs=defs) & loopvars:
                own.add(ps[i + 1])
    return own


def _reg_runs(reg, name):
    t = reg.target
    if isinstance(t, ast.Lambda):
        return any(isinstance(c, ast.Call) and call_tail(c) == name for c in ast.walk(t.body))
    return _name_tail(t) == name


# ---- hash-tree updates made by a CFG node, directly or through helpers (C10.6) ---------------------------------
def _always_evaluated(n, call):
    """`call` is evaluated whenever node n is evaluated: it does not sit in the short-circuited operand of and/or, in a
    branch of a conditional expression, in a comprehension element / lambda body.  -> (yes, awaited-or-yielded)"""
    par = {}
    for e in node_exprs(n):
        for x in ast.walk(e):
            for ch in ast.iter_child_nodes(x):
                par[id(ch)] = x
    cur = call
    waited = isinstance(par.get(id(call)), (ast.Await, ast.Yield, ast.YieldFrom))
    while id(cur) in par:
        p = par[id(cur)]
        if isinstance(p, ast.BoolOp) and p.values[0] is not cur:
            return False, waited
        if isinstance(p, ast.IfExp) and p.test is not cur:
            return False, waited
        if isinstance(p, (ast.Lambda, ast.ListComp, ast.SetComp, ast.DictComp, ast.GeneratorExp, ast.comprehension)):
            return False, waited
        cur = p
    return True, waited


class _TreeUpdates:
    """Which IncompleteHashTree.set_hashes calls a CFG node has made when it is left normally - written at the node, or
    made by a helper the node calls (resolved through the call graph; every candidate callee must make the call on every
    normal path through it, and the receiver / hashes / leaves expressions it uses are translated back into the caller's
    expressions through the argument binding).  Expressions that cannot be traced to the helper's parameters are
    remembered in .undecided (the caller turns a resulting alarm into ANALYSIS-ERROR)."""
    MAXDEPTH = 3

    def __init__(self, idx, cg):
        self.idx = idx
        self.cg = cg
        self._reach = {}
        self._flow = {}
        self._locals = {}
        self.undecided = []
        self.states = 0

    def flow(self, g):
        if g.qual not in self._flow:
            self._flow[g.qual] = FlowNorm(g)
        return self._flow[g.qual]

    def locals_of(self, g):
        if g.qual not in self._locals:
            self._locals[g.qual] = set(all_defs(g)) | set(g.params)
        return self._locals[g.qual]

    def reaches(self, f, depth=0):
        """f may call set_hashes, itself or through package functions it calls"""
        if f.qual in self._reach:
            return self._reach[f.qual]
        self._reach[f.qual] = False
        res = bool(calls_in_func(f, "set_hashes"))
        if not res and depth < self.MAXDEPTH:
            for c in calls_in_func(f):
                if any(g.qual != f.qual and self.reaches(g, depth + 1) for g in self.cg.resolve(f, c)):
                    res = True
                    break
        self._reach[f.qual] = res
        return res

    def bind(self, f, g, c):
        """parameter name of g -> argument expression (in f's terms) for the call c made in f; None: not decidable"""
        a = g.node.args if isinstance(g.node, (ast.FunctionDef, ast.AsyncFunctionDef)) else None
        if a is None or a.vararg or a.kwarg or any(isinstance(x, ast.Starred) for x in c.args) \
                or any(k.arg is None for k in c.keywords):
            return None
        for d in g.node.decorator_list:
            if _name_tail(d.func if isinstance(d, ast.Call) else d) in ("staticmethod", "classmethod", "property"):
                return None
        pos = [x.arg for x in a.posonlyargs + a.args]
        dflt = dict(zip(reversed(pos), reversed(a.defaults)))
        for x, d in zip(a.kwonlyargs, a.kw_defaults):
            if d is not None:
                dflt[x.arg] = d
        names = pos + [x.arg for x in a.kwonlyargs]
        out = {}
        if g.cls is not None:
            if not (isinstance(c.func, ast.Attribute) and isinstance(c.func.value, ast.Name) and c.func.value.id == "self" and pos):
                return None
            out[pos[0]] = c.func.value
            pos = pos[1:]
        elif g.parent is not None and g.parent is not f:
            return None             # a closure of another function: its free variables are not f's
        if len(c.args) > len(pos):
            return None
        for p, x in zip(pos, c.args):
            out[p] = x
        for k in c.keywords:
            if k.arg not in names or k.arg in out:
                return None
            out[k.arg] = k.value
        for p in names:
            if p not in out:
                if p not in dflt:
                    return None
                out[p] = dflt[p]
        return out

    def subst(self, g, mg, expr, binding, depth=4):
        """expr, evaluated at node mg of g, rewritten into the caller's terms; None (and a note) when it uses a local of g
        that is not a plain function of g's parameters"""
        if expr is None:
            return None
        fl = self.flow(g)
        rd = fl.rd.get(mg.id, {})
        env = fl.env_at(mg).defs
        loc = self.locals_of(g)
        ok = [True]
        me = self

        class T(ast.NodeTransformer):
            def visit_Name(s, n):
                if not isinstance(n.ctx, ast.Load) or n.id not in loc:
                    return n
                if n.id in binding and rd.get(n.id) == frozenset([PARAM_DEF]):
                    return binding[n.id]
                v = env.get(n.id)
                if v is None and len(rd.get(n.id, ())) == 1:
                    (d,) = tuple(rd[n.id])
                    if d != PARAM_DEF:
                        dv = fl._def_value(fl.cfg.nodes[d], n.id)
                        if isinstance(dv, ast.Dict):
                            v = dv
                if v is not None and depth > 0:
                    r2 = me.subst(g, mg, v, binding, depth - 1)
                    if r2 is not None:
                        return r2
                ok[0] = False
                return n
        import copy
        res = T().visit(copy.deepcopy(expr))
        if not ok[0]:
            self.undecided.append("%s: %s" % (short(g), src(g, expr)))
            return None
        return res

    def made(self, f, m, test, depth=0):
        """leaving node m of f normally implies a set_hashes call with test(receiver, hashes, leaves) true (the three
        expressions are in f's terms, to be evaluated at m; hashes / leaves may be None = not passed)"""
        for c in node_calls(m):
            sure, waited = _always_evaluated(m, c)
            if not sure:
                continue
            if call_tail(c) == "set_hashes" and isinstance(c.func, ast.Attribute):
                if any(k.arg is None for k in c.keywords) or any(isinstance(x, ast.Starred) for x in c.args):
                    continue
                if test(c.func.value, arg(c, 0, "hashes"), arg(c, 1, "leaves")):
                    return True
                continue
            if depth >= self.MAXDEPTH:
                continue
            cands = [g for g in self.cg.resolve(f, c) if g.qual != f.qual]
            if not cands or not all(self.reaches(g) for g in cands):
                continue
            good = True
            for g in cands:
                gen = isinstance(g.node, ast.AsyncFunctionDef) or any(
                    isinstance(x, (ast.Yield, ast.YieldFrom)) for x in func_own_nodes(g))
                if gen and not waited:
                    good = False        # a coroutine / generator that is not awaited: its body has not run (to the end)
                    break
                b = self.bind(f, g, c)
                if b is None:
                    self.undecided.append("%s: cannot bind the arguments of %s" % (short(f), src(f, c)))
                    good = False
                    break
                gcfg = g.cfg()
                memo = {}

                def gate(mg, _g=g, _b=b):
                    if mg.id not in memo:
                        def test_g(recv, hs, lv, _mg=mg):
                            r2 = self.subst(_g, _mg, recv, _b)
                            if r2 is None:
                                return False
                            h2 = self.subst(_g, _mg, hs, _b) if hs is not None else None
                            l2 = self.subst(_g, _mg, lv, _b) if lv is not None else None
                            if (hs is not None and h2 is None) or (lv is not None and l2 is None):
                                return False
                            return test(r2, h2, l2)
                        memo[mg.id] = self.made(_g, mg, test_g, depth + 1)
                    return memo[mg.id]
                self.states += len(gcfg.nodes)
                if find_path_avoiding(gcfg, lambda x: x.kind == "exit", gate_node=gate):
                    good = False
                    break
            if good:
                return True
        return False


def run(ctx: Context):
    idx = ctx.idx
    cg = get_callgraph(idx)

    # -- 1. fingerprint gate ----------------------------------------------------
    with ctx.rule("C10.1", "R1", "_try_to_set_pubkey: _populate_pubkey(key parsed from pubkey_s) only with "
                  "ssk_pubkey_fingerprint_hash(pubkey_s) == node.get_fingerprint()", expected=1) as r:
        fn = idx.func(SM + "._try_to_set_pubkey")
        param = first_positional_params(fn)[0]
        cfg = fn.cfg()
        fnorm = FlowNorm(fn)
        gate = _eq_gate(fnorm, r"^(\w+\.)*ssk_pubkey_fingerprint_hash\(%s\)$" % re.escape(param),
                        r"^self\._node\.get_fingerprint\(\)$")
        targets = has_call("_populate_pubkey")
        tn = cfg.find(targets)
        if not tn:
            raise AnchorVanished("no _populate_pubkey call in _try_to_set_pubkey")
        direct = re.compile(r"^(\w+\.)*create_verifying_key_from_string\(%s\)$" % re.escape(param))
        for n in tn:
            r.site(fn, n.ast)
            c = calls_at(n, "_populate_pubkey")[0]
            a0 = arg(c, 0)
            val = fnorm.norm(n, a0) if a0 is not None else ""
            ok = bool(direct.match(val))
            if not ok and val == "self._deserialize_pubkey(%s)" % param:
                de = idx.func(SM + "._deserialize_pubkey")
                dp = first_positional_params(de)[0]
                dn = FlowNorm(de)
                rets = de.cfg().find(is_return)
                ok = bool(rets) and all(
                    re.match(r"^(\w+\.)*create_verifying_key_from_string\(%s\)$" % re.escape(dp),
                             dn.norm(x, x.ast.value) if x.ast.value is not None else "") for x in rets)
            r.require(ok, fn, fn.loc(c), "the key installed is %s, not the key parsed from the string whose "
                      "fingerprint was compared (%s)" % (val, param))
        bad = find_path_avoiding(cfg, targets, gate_edge=gate, kill=stores(param))
        r.count(len(cfg.nodes))
        for (n, w) in bad:
            r.violation(fn, fn.loc(n.ast), "verification key is installed on a path that never compared its "
                        "fingerprint hash with the cap's fingerprint (path: %s)" % w.brief(), w)

    # -- 2. who may install keys / trust roots ------------------------------------
    with ctx.rule("C10.2", "R4", "who-may-call _populate_pubkey/_populate_privkey/_populate_encprivkey; who-may-write "
                  "MutableFileNode._pubkey/_fingerprint", expected=8) as r:
        for tail, allowed in (("_populate_pubkey", [SM + "._try_to_set_pubkey"]),
                              ("_populate_privkey", [SM + "._try_to_validate_privkey", RET + "._try_to_validate_privkey"]),
                              ("_populate_encprivkey", [SM + "._try_to_validate_privkey", RET + "._try_to_validate_privkey"])):
            total = _who_may_use(r, idx, tail, allowed, "outside the validated path")
            if total < 1:
                raise AnchorVanished("no caller of %s" % tail)
            r.site("callers of %s: %d" % (tail, total))
        for attr, allowed in (("_pubkey", {"__init__": "None", "_populate_pubkey": "param", "create_with_keys": "keypair"}),
                              ("_fingerprint", {"init_from_cap": "cap", "create_with_keys": "keypair"})):
            n_sites = 0
            for (f, nd) in cg.attr_stores(attr):
                recv = attr_path(nd.value)
                on_node = (f.cls is not None and f.cls.name == "MutableFileNode" and recv == "self") or recv != "self"
                if not on_node:
                    continue
                n_sites += 1
                r.site(f, nd, "store " + attr)
                how = allowed.get(f.name) if (f.cls is not None and f.cls.name == "MutableFileNode") else None
                if how is None:
                    r.violation(f, f.loc(nd), "%s writes the node's %s" % (short(f), attr))
                    continue
                a = _assign_of(f, nd)
                if how == "None":
                    r.require(a is not None and isinstance(a.value, ast.Constant) and a.value.value is None, f, f.loc(nd),
                              "%s initialises %s to something else than None" % (short(f), attr))
                elif how == "param":
                    r.require(a is not None and isinstance(a.value, ast.Name) and a.value.id in f.params, f, f.loc(nd),
                              "%s stores %s instead of its parameter" % (short(f), src(f, a.value) if a else "?"))
                elif how == "keypair":
                    kp = first_positional_params(f)[0]
                    r.require(a is not None and kp in depends_on(f, a.value), f, f.loc(nd),
                              "%s of a new file does not derive from the fresh keypair" % attr)
                elif how == "cap":
                    cap = first_positional_params(f)[0]
                    dep = depends_on(f, a.value) if a is not None else set()
                    r.require(cap in dep and isinstance(a.value, ast.Attribute) and a.value.attr == "fingerprint", f, f.loc(nd),
                              "_fingerprint is %s, not the cap's fingerprint" % (src(f, a.value) if a else "?"))
            if n_sites < 2:
                raise AnchorVanished("stores of MutableFileNode.%s" % attr)

    # -- 3. signature gate ------------------------------------------------------
    with ctx.rule("C10.3", "R1", "_got_signature_one_share: _valid_versions.add(v) / add_new_share(.., v, ..) only after "
                  "verify_signature(node pubkey, sig, v[7]) returned or v in _valid_versions", expected=2) as r:
        fn = idx.func(SM + "._got_signature_one_share")
        cfg = fn.cfg()
        fnorm = FlowNorm(fn)

        def target_value(n):
            """(kind, expr of the recorded verinfo) for the two recording calls"""
            for c in node_calls(n):
                if call_name(c) == "self._valid_versions.add" and c.args:
                    return ("_valid_versions.add", c.args[0])
                if call_tail(c) == "add_new_share":
                    return ("add_new_share", arg(c, 2, "verinfo"))
            return None
        tn = [n for n in cfg.nodes if n.kind != "except" and target_value(n)]
        kinds = {target_value(n)[0] for n in tn}
        if kinds != {"_valid_versions.add", "add_new_share"}:
            raise AnchorVanished("recording calls in _got_signature_one_share: found %s" % sorted(kinds))
        for n in tn:
            kind, vexpr = target_value(n)
            r.site(fn, n.ast, kind)
            if vexpr is None:
                r.violation(fn, fn.loc(n.ast), "%s without a verinfo argument" % kind)
                continue
            vnorm = fnorm.norm(n, vexpr)
            vnames = {x.id for x in own_nodes(vexpr) if isinstance(x, ast.Name)}

            def verified(m, _v=vnorm):
                for c in calls_at(m, "verify_signature"):
                    if len(c.args) + len(c.keywords) != 3:
                        continue
                    pk = arg(c, 0, "public_key")
                    data = arg(c, 2, "data")
                    if pk is None or data is None:
                        continue
                    if fnorm.norm(m, pk) != "self._node.get_pubkey()":
                        continue
                    if fnorm.norm(m, data) == _v + "[7]":
                        return True
                return False

            def known(m, lab, _v=vnorm):
                op, l, rr = _fact(fnorm, m, lab)
                return op == "in" and l == _v and rr == "self._valid_versions"
            bad = find_path_avoiding(cfg, lambda x, _n=n: x is _n, gate_node=verified, gate_edge=known,
                                     kill=stores_any(vnames | {"prefix"}) if vnames else None)
            r.count(len(cfg.nodes))
            for (t, w) in bad:
                r.violation(fn, fn.loc(t.ast), "%s records a version whose signature over its prefix was not verified "
                            "with the node's public key (path: %s)" % (kind, w.brief()), w)
        if not cfg.find(has_call("verify_signature")):
            raise AnchorVanished("no verify_signature call in _got_signature_one_share")

    # -- 4. who may record shares / versions -----------------------------------
    with ctx.rule("C10.4", "R4", "add_new_share only from _got_signature_one_share and Publish._got_write_answer(own "
                  "versioninfo); _known_shares / _valid_versions written only by their owners", expected=6) as r:
        total = _who_may_use(r, idx, "add_new_share", [SM + "._got_signature_one_share", PUB + "._got_write_answer"],
                             "(records a share in the servermap without signature verification)")
        if total < 2:
            raise AnchorVanished("callers of add_new_share")
        r.site("callers of add_new_share: %d" % total)
        pw = idx.func(PUB + "._got_write_answer")
        pn = FlowNorm(pw)
        seen = 0
        for n in pw.cfg().find(has_call("add_new_share")):
            c = calls_at(n, "add_new_share")[0]
            seen += 1
            r.site(pw, c, "publisher's own version")
            v = arg(c, 2, "verinfo")
            r.require(v is not None and pn.norm(n, v) == "self.versioninfo", pw, pw.loc(c),
                      "Publish records %s, not the version it signed itself" % (src(pw, v) if v is not None else "nothing"))
        if not seen:
            raise AnchorVanished("add_new_share in Publish._got_write_answer")
        # _known_shares: subscript stores only in ServerMap.add_new_share; rebinding only in __init__/copy
        smap_cls = idx.cls(SMAP)
        n_sub = 0
        for f in idx.funcs.values():
            if "_known_shares" not in f.module.source:
                continue
            for n in func_own_nodes(f):
                if isinstance(n, ast.Subscript) and isinstance(n.ctx, ast.Store) and isinstance(n.value, ast.Attribute) \
                        and n.value.attr == "_known_shares":
                    n_sub += 1
                    r.site(f, n, "_known_shares[..] =")
                    r.require(f.qual == "allmydata." + SMAP + ".add_new_share", f, f.loc(n),
                              "%s writes ServerMap._known_shares directly" % short(f))
                if isinstance(n, ast.Call) and isinstance(n.func, ast.Attribute) and n.func.attr in ("update", "setdefault") \
                        and isinstance(n.func.value, ast.Attribute) and n.func.value.attr == "_known_shares":
                    r.violation(f, f.loc(n), "%s updates ServerMap._known_shares directly" % short(f))
        if not n_sub:
            raise AnchorVanished("no store into _known_shares")
        for (f, nd) in cg.attr_stores("_known_shares"):
            r.site(f, nd, "bind _known_shares")
            r.require(f.cls is smap_cls and f.name in ("__init__", "copy"), f, f.loc(nd),
                      "%s re-binds ServerMap._known_shares" % short(f))
        # _valid_versions
        for (f, nd) in cg.attr_stores("_valid_versions"):
            r.site(f, nd, "bind _valid_versions")
            r.require(f.cls is not None and f.cls.name == "ServermapUpdater" and f.name in ("__init__", "update"),
                      f, f.loc(nd), "%s re-binds _valid_versions" % short(f))
        for f in idx.funcs.values():
            if "_valid_versions" not in f.module.source:
                continue
            for n in func_own_nodes(f, into_lambda=True):
                if isinstance(n, ast.Call) and isinstance(n.func, ast.Attribute) and n.func.attr in ("add", "update") \
                        and isinstance(n.func.value, ast.Attribute) and n.func.value.attr == "_valid_versions":
                    r.require(f.qual == "allmydata." + SM + "._got_signature_one_share", f, f.loc(n),
                              "%s adds to _valid_versions" % short(f))

    # -- 5. the signed prefix covers the verinfo fields --------------------------
    with ctx.rule("C10.5", "R5", "MDMFSlotReadProxy.get_verinfo: element 7 is _build_prefix() and every other signed field "
                  "of the verinfo is an attribute packed by _build_prefix (both formats)", expected=7) as r:
        gv = idx.func(READER + ".get_verinfo")
        bv = gv.nested.get("_build_verinfo")
        if bv is None:
            raise AnchorVanished(READER + ".get_verinfo._build_verinfo")
        bp = idx.func(READER + "._build_prefix")
        packs = [c for c in calls_in_func(bp, "pack")]
        if len(packs) < 2:
            raise AnchorVanished("struct.pack calls in _build_prefix")
        packed_sets = []
        for c in packs:
            packed_sets.append({attr_path(a) for a in c.args[1:] if attr_path(a)})
        # every return of _build_prefix is a pack call
        for n in bp.cfg().find(is_return):
            v = n.ast.value
            r.require(isinstance(v, ast.Call) and call_tail(v) == "pack", bp, bp.loc(n.ast),
                      "_build_prefix returns %s, not a packed header" % src(bp, v))
        common = set.intersection(*packed_sets)
        anyp = set.union(*packed_sets)
        bn = FlowNorm(bv)
        rets = bv.cfg().find(is_return)
        if not rets:
            raise AnchorVanished("no return in _build_verinfo")
        for n in rets:
            v = n.ast.value
            if not (isinstance(v, ast.Tuple) and len(v.elts) == 9):
                r.violation(bv, bv.loc(n.ast), "verinfo is not the 9-tuple (seqnum, root_hash, IV, segsize, datalen, k, N, prefix, offsets)")
                continue
            r.require(bn.norm(n, v.elts[7]) == "self._build_prefix()", bv, bv.loc(v.elts[7]),
                      "verinfo[7] is %s, not the prefix built from the parsed header" % src(bv, v.elts[7]))
            for i in (0, 1, 3, 4, 5, 6):
                p = attr_path(bn.resolve(n, v.elts[i]))
                r.site(bv, v.elts[i], "verinfo[%d]" % i)
                r.require(p is not None and p in common, bv, bv.loc(v.elts[i]),
                          "verinfo[%d] = %s is not covered by the signed prefix in both share formats" % (i, src(bv, v.elts[i])))
            # IV: every reaching definition is None or an attribute packed in some format
            e = v.elts[2]
            cands = [e]
            if isinstance(e, ast.Name):
                cands = _defs_at(bv, n, e.id)
            for cnd in cands:
                okc = (isinstance(cnd, ast.Constant) and cnd.value is None) or (cnd is not None and attr_path(cnd) in anyp)
                r.require(okc, bv, bv.loc(e), "verinfo[2] (IV) may be %s, which the signed prefix does not cover" % (
                    src(bv, cnd) if cnd is not None else "an unknown value"))
            r.site(bv, e, "verinfo[2]")

    # -- 6. block / share hash gates -------------------------------------------
    with ctx.rule("C10.6", "R1", "_validate_block: {shnum:(block,salt)} is returned only after bht.set_hashes(leaves={segnum: "
                  "block_hash(salt+block|block)}) and share_hash_tree.set_hashes(leaves={shnum: bht[0]}) succeeded", expected=2) as r:
        fn = idx.func(RET + "._validate_block")
        ps = first_positional_params(fn)
        if len(ps) < 3:
            raise AnchorVanished("_validate_block signature")
        p_results, p_segnum, p_reader = ps[0], ps[1], ps[2]
        cfg = fn.cfg()
        fnorm = FlowNorm(fn)
        rets = [n for n in cfg.find(is_return) if n.ast.value is not None and not (
            isinstance(n.ast.value, ast.Constant) and n.ast.value.value is None)]
        if not rets:
            raise AnchorVanished("no value return in _validate_block")
        BHT = "self._block_hash_trees[%s.shnum]" % p_reader

        tu = _TreeUpdates(idx, cg)
        if not tu.reaches(fn):
            raise AnchorVanished("Retrieve._validate_block no longer calls set_hashes (neither itself nor through a helper)")

        def leaf_set(m, recv_norm, kv_ok):
            """leaving node m normally implies a set_hashes call - at m, or in a helper m calls, on every normal path
            through the helper - on the tree recv_norm with a one-entry leaves dict {k: v} for which kv_ok(k, v)"""
            def test(recv, _hs, lv):
                if lv is None or fnorm.norm(m, recv) != recv_norm:
                    return False
                if isinstance(lv, ast.Name):
                    ds = _defs_at(fn, m, lv.id)
                    if len(ds) == 1 and isinstance(ds[0], ast.Dict):
                        lv = ds[0]
                if not (isinstance(lv, ast.Dict) and len(lv.keys) == 1 and lv.keys[0] is not None):
                    return False
                return kv_ok(lv.keys[0], lv.values[0])
            return tu.made(fn, m, test)

        def gated(cache, m, fnc):
            if m.id not in cache:
                cache[m.id] = fnc(m)
            return cache[m.id]

        def undecided(what):
            """an alarm that rests on a helper whose arguments could not be traced is not a decision"""
            if tu.undecided:
                raise AnalysisError("Retrieve._validate_block: cannot decide whether %s - the hash-tree update is made by a "
                                    "helper whose set_hashes arguments cannot be traced to its parameters (%s)" % (
                                        what, "; ".join(sorted(set(tu.undecided))[:3])))

        for n in rets:
            r.site(fn, n.ast, "return")
            v = fnorm.resolve(n, n.ast.value)
            if not (isinstance(v, ast.Dict) and len(v.keys) == 1 and isinstance(v.values[0], ast.Tuple)
                    and len(v.values[0].elts) == 2):
                r.violation(fn, fn.loc(n.ast), "returns %s, not {shnum: (block, salt)}" % src(fn, n.ast.value))
                continue
            key_n = fnorm.norm(n, v.keys[0])
            blk_e, salt_e = v.values[0].elts
            blk_n = fnorm.norm(n, blk_e)
            salt_n = fnorm.norm(n, salt_e)
            r.require(key_n == p_reader + ".shnum", fn, fn.loc(n.ast), "block is filed under %s, not the share it was read from" % key_n)
            r.require(blk_n == p_results + "[0][0]", fn, fn.loc(n.ast), "returned block is %s, not the fetched block" % blk_n)
            blk_names = {x.id for x in own_nodes(blk_e) if isinstance(x, ast.Name)}
            salt_names = {x.id for x in own_nodes(salt_e) if isinstance(x, ast.Name)}

            # block-hash gate
            def bh_kv(m, k, val, _blk=blk_n, _salt=salt_n):
                if fnorm.norm(m, k) != p_segnum:
                    return False
                cands = _defs_at(fn, m, val.id) if isinstance(val, ast.Name) else [val]
                if not cands:
                    return False
                for cnd in cands:
                    if cnd is None:
                        return False
                    f, args = _unwrap_thread(cnd)
                    if _name_tail(f) != "block_hash" or len(args) != 1:
                        return False
                    # the hashed data, evaluated where the hash was computed
                    dn = [x for x in cfg.nodes if x.kind == "stmt" and x.ast is not None and any(y is cnd for y in ast.walk(x.ast))]
                    at = dn[0] if dn else m
                    data = fnorm.norm(at, args[0])
                    if data not in (_blk, norm_src("%s + %s" % (_salt, _blk))):
                        return False
                return True
            bh_cache = {}

            def bh_ok(m):
                return gated(bh_cache, m, lambda x: leaf_set(x, BHT, lambda k, v: bh_kv(x, k, v)))
            bad = find_path_avoiding(cfg, lambda x, _n=n: x is _n, gate_node=bh_ok, kill=stores_any(blk_names))
            if bad:
                undecided("the block hash was accepted by the share's block hash tree")
            for (t, w) in bad:
                r.violation(fn, fn.loc(t.ast), "a block is returned as valid without its block_hash having been accepted by the "
                            "share's block hash tree at leaf %s (path: %s)" % (p_segnum, w.brief()), w)

            # share-hash gate
            sh_cache = {}

            def sh_ok(m):
                return gated(sh_cache, m, lambda x: leaf_set(
                    x, "self.share_hash_tree",
                    lambda k, v: fnorm.norm(x, k) == p_reader + ".shnum" and fnorm.norm(x, v) == BHT + "[0]"))
            bad = find_path_avoiding(cfg, lambda x, _n=n: x is _n, gate_node=sh_ok)
            if bad:
                undecided("the share's block-hash root was accepted by the share hash tree")
            for (t, w) in bad:
                r.violation(fn, fn.loc(t.ast), "a block is returned as valid without the share's block-hash root having been "
                            "accepted by the share hash tree (path: %s)" % w.brief(), w)
            r.count(2 * len(cfg.nodes) + tu.states)

        # MDMF: the per-segment salt must be part of the hashed data
        mdmf_nodes = []
        for m in cfg.nodes:
            if m.kind != "stmt" or not isinstance(m.ast, ast.Assign):
                continue
            f, args = _unwrap_thread(m.ast.value)
            if _name_tail(f) == "block_hash" and len(args) == 1:
                mdmf_nodes.append((m, args[0]))
        if not mdmf_nodes:
            raise AnchorVanished("no block_hash computation in _validate_block")
        r.site(fn, None, "MDMF salt+block")

        def is_mdmf(m, lab):
            op, l, rr = _fact(fnorm, m, lab)
            return op == "==" and {l, rr} == {"MDMF_VERSION", "self._version"}

        def is_sdmf(m, lab):
            op, l, rr = _fact(fnorm, m, lab)
            return (op == "==" and {l, rr} == {"SDMF_VERSION", "self._version"})
        want_salted = norm_src("%s[0][1] + %s[0][0]" % (p_results, p_results))
        for (m, a) in mdmf_nodes:
            if fnorm.norm(m, a) == want_salted:
                continue
            # an unsalted hash may only be computed where the version is known not to be MDMF
            bad = find_path_avoiding(cfg, lambda x, _m=m: x is _m,
                                     gate_edge=lambda x, lab: is_sdmf(x, lab) or (
                                         _fact(fnorm, x, lab)[0] == "!=" and set(_fact(fnorm, x, lab)[1:]) == {"MDMF_VERSION", "self._version"}))
            for (t, w) in bad:
                r.violation(fn, fn.loc(t.ast), "block_hash(%s) without the salt can be computed for an MDMF share: the per-segment "
                            "salt would be unauthenticated (path: %s)" % (src(fn, a), w.brief()), w)
        # _process_segment: validation is for the segment that was fetched
        pseg = idx.func(RET + "._process_segment")
        sp = first_positional_params(pseg)[0]
        regs = [x for x in registrations(pseg) if x.target_name() == "self._validate_block"]
        if not regs:
            raise AnchorVanished("_validate_block is not registered in _process_segment")
        segs = (sp, "self._current_segment")     # _process_segment is only ever called with self._current_segment
        for x in regs:
            r.require(bool(x.args) and norm_plain(x.args[0]) in segs and x.kind == "cb", pseg, pseg.loc(x.call),
                      "_validate_block is registered for segment %s, not the fetched segment %s" % (
                          src(pseg, x.args[0]) if x.args else "?", sp))
        for c in calls_in_func(pseg, "get_block_and_salt"):
            r.require(bool(c.args) and norm_plain(c.args[0]) in segs, pseg, pseg.loc(c),
                      "fetches block of segment %s but validates segment %s" % (src(pseg, c.args[0]) if c.args else "?", sp))

    # -- 0. the SDMF IV handed to the decoder is authenticated --------------------
    with ctx.rule("C10.0", "R1", "_validate_block: the salt/IV returned with a block is covered by the accepted block hash "
                  "(salt+block) or was compared equal to the signed IV self.verinfo[2]", expected=1) as r:
        fn = idx.func(RET + "._validate_block")
        ps = first_positional_params(fn)
        p_results = ps[0]
        cfg = fn.cfg()
        fnorm = FlowNorm(fn)
        rets = [n for n in cfg.find(is_return) if isinstance(fnorm.resolve(n, n.ast.value), ast.Dict)]
        if not rets:
            raise AnchorVanished("no {shnum: (block, salt)} return in _validate_block")
        IV = ("self.verinfo[2]",)
        for n in rets:
            v = fnorm.resolve(n, n.ast.value)
            if not (len(v.values) == 1 and isinstance(v.values[0], ast.Tuple) and len(v.values[0].elts) == 2):
                continue    # shape is C10.6's business
            r.site(fn, n.ast, "returned salt")
            blk_n = fnorm.norm(n, v.values[0].elts[0])
            salt_n = fnorm.norm(n, v.values[0].elts[1])
            if salt_n in IV:
                continue
            salted = norm_src("%s + %s" % (salt_n, blk_n)) if re.match(r"^[\w\.\[\]]+$", salt_n + blk_n) else None

            def hashed_with_salt(m, _s=salted):
                if m.kind != "stmt" or not isinstance(m.ast, ast.Assign) or _s is None:
                    return False
                f, args = _unwrap_thread(m.ast.value)
                return _name_tail(f) == "block_hash" and len(args) == 1 and fnorm.norm(m, args[0]) == _s

            def iv_compared(m, lab, _salt=salt_n):
                op, l, rr = _fact(fnorm, m, lab)
                return op == "==" and ((l == _salt and rr in IV) or (rr == _salt and l in IV))
            # path-sensitive in the share format: contradictory version tests are pruned
            def tr(m, lab, nxt, st):
                auth, mdmf = st
                if m.kind in ("entry", "exit", "raise"):
                    return st
                if "self._version" in node_stores(m):
                    mdmf = "?"
                if lab != "exc" and hashed_with_salt(m):
                    auth = True
                if iv_compared(m, lab):
                    auth = True
                op, l, rr = _fact(fnorm, m, lab)
                if op in ("==", "!=") and "self._version" in (l, rr) and ({l, rr} & {"MDMF_VERSION", "SDMF_VERSION"}):
                    is_mdmf = (op == "==") == ("MDMF_VERSION" in (l, rr))
                    val = "T" if is_mdmf else "F"
                    if mdmf != "?" and mdmf != val:
                        return None
                    mdmf = val
                return (auth, mdmf)
            visited, parent = explore(cfg, (False, "?"), tr)
            for (nid, st) in sorted(visited, key=lambda x: (x[0], str(x[1]))):
                if cfg.nodes[nid] is n and not st[0]:
                    w = witness(cfg, parent, (nid, st))
                    r.violation(fn, fn.loc(n.ast), "SDMF: the IV returned with the block (%s, whatever the share header said at read time) "
                                "is neither covered by the accepted block hash nor compared with the signed IV self.verinfo[2]; "
                                "_decode_blocks/_decrypt_segment derive the AES key from it (path: %s)" % (salt_n, w.brief()), w)
                    break
            r.count(len(cfg.nodes))

    # -- 7. tree roots ---------------------------------------------------------
    with ctx.rule("C10.7", "R4", "Retrieve: share_hash_tree root is verinfo root_hash; hash trees and verinfo are bound only "
                  "in _setup_download / __init__", expected=5) as r:
        sd = idx.func(RET + "._setup_download")
        sn = FlowNorm(sd)
        seeds = 0
        for n in sd.cfg().find(has_call("set_hashes")):
            for c in calls_at(n, "set_hashes"):
                a0 = arg(c, 0, "hashes")
                if call_name(c) == "self.share_hash_tree.set_hashes" and isinstance(a0, ast.Dict) and dict_literal_keys(a0) == [0]:
                    seeds += 1
                    r.site(sd, c, "root seed")
                    val = sn.norm(n, a0.values[0])
                    r.require(val == "self.verinfo[1]", sd, sd.loc(c),
                              "share hash tree root is %s, not the root_hash of the signed version" % val)
        if not seeds:
            raise AnchorVanished("share_hash_tree root seeding in _setup_download")
        # every set_hashes({0: ..}) in retrieve.py is that one
        for cs in cg.calls_named("set_hashes"):
            if cs.fn.module.name != "allmydata.mutable.retrieve":
                continue
            a0 = arg(cs.call, 0, "hashes")
            keys = dict_literal_keys(a0) if a0 is not None else None
            if keys and 0 in keys and cs.fn.qual != sd.qual:
                r.violation(cs.fn, cs.loc, "%s seeds a hash-tree root" % short(cs.fn))
        for attr, allowed in (("share_hash_tree", {"_setup_download"}), ("_block_hash_trees", {"_setup_download", "decode"}),
                              ("verinfo", {"__init__"})):
            k = 0
            for (f, nd) in cg.attr_stores(attr):
                if f.cls is None or f.cls.name != "Retrieve":
                    continue
                k += 1
                r.site(f, nd, "bind " + attr)
                r.require(f.name in allowed, f, f.loc(nd), "%s re-binds Retrieve.%s" % (short(f), attr))
            if not k:
                raise AnchorVanished("store of Retrieve.%s" % attr)
        init = idx.func(RET + ".__init__")
        for n in init.cfg().find(stores("self.verinfo")):
            a = n.ast
            r.require(isinstance(a, ast.Assign) and isinstance(a.value, ast.Name) and a.value.id in init.params, init, init.loc(a),
                      "Retrieve.verinfo is not the version chosen by the caller")
        # per-share trees: fresh IncompleteHashTree objects; decode() (update shortcut, never feeds a consumer) sets None
        for m in idx.cls(RET).methods.values():
            for n in m.cfg().find(stores("self._block_hash_trees[]")):
                v = n.ast.value if isinstance(n.ast, ast.Assign) else None
                r.require(m.name == "_setup_download" and isinstance(v, ast.Call) and call_tail(v) == "IncompleteHashTree",
                          m, m.loc(n.ast), "%s stores %s as a block hash tree" % (short(m), src(m, v)))

    # -- 8. only validated blocks are decoded; only decoded segments are written ---
    with ctx.rule("C10.8", "R1/E7/R4", "_decode_blocks is fed the gathered _validate_block outputs; _handle_bad_share yields None; "
                  "consumer.write only in _set_segment behind decode -> decrypt", expected=4) as r:
        md = idx.func(RET + "._maybe_decode_and_decrypt_segment")
        res = first_positional_params(md)[0]
        cfg = md.cfg()
        fnorm = FlowNorm(md)
        tg = has_call("_decode_blocks")
        if not cfg.find(tg):
            raise AnchorVanished("_decode_blocks call in _maybe_decode_and_decrypt_segment")

        for n in cfg.find(tg):
            r.site(md, n.ast, "decode")
            c = calls_at(n, "_decode_blocks")[0]
            r.require(bool(c.args) and res in depends_on(md, c.args[0]), md, md.loc(c),
                      "_decode_blocks is given %s, not the outputs of _validate_block" % (src(md, c.args[0]) if c.args else "?"))
        _who_may_use(r, idx, "_decode_blocks", [RET + "._maybe_decode_and_decrypt_segment", RET + ".decode"],
                     "(blocks that did not come out of _validate_block)", module_prefix="allmydata.mutable")
        # chain: decode -> _decrypt_segment -> ... -> _set_segment
        dvars = {attr_path(t) for n in func_own_nodes(md) if isinstance(n, ast.Assign)
                 and contains_call(n.value, "_decode_blocks") for t in n.targets}
        dvars.discard(None)
        if len(dvars) != 1:
            raise AnchorVanished("decode Deferred in _maybe_decode_and_decrypt_segment")
        dv = dvars.pop()
        chain = [x for x in registrations(md) if x.recv == dv]
        names = [x.target_name() for x in chain]
        r.site(md, None, "chain " + " ".join(names))
        ok = "self._decrypt_segment" in names and "self._set_segment" in names \
            and names.index("self._decrypt_segment") < names.index("self._set_segment")
        r.require(ok, md, md.loc(), "segment is not decrypted before it is handed to _set_segment (chain: %s)" % names)
        if ok:
            for x in chain[names.index("self._decrypt_segment") + 1: names.index("self._set_segment")]:
                r.require(x.target_name() in ("self._check_for_paused", "self._check_for_stopped") and x.kind == "cb", md, md.loc(x.call),
                          "callback %r between decrypt and _set_segment may replace the plaintext" % x)
            for x in chain[: names.index("self._decrypt_segment")]:
                r.violation(md, md.loc(x.call), "callback %r sits between decode and decrypt" % x)
        # the two pass-through callbacks return their argument
        for nm in ("_check_for_paused", "_check_for_stopped"):
            f = idx.func(RET + "." + nm)
            p0 = first_positional_params(f)[0]
            for n in f.cfg().find(is_return):
                v = n.ast.value
                okv = (isinstance(v, ast.Name) and v.id == p0) or (isinstance(v, ast.Name) and nm == "_check_for_paused")
                r.require(okv, f, f.loc(n.ast), "%s returns %s instead of passing the plaintext through" % (nm, src(f, v)))
        # _handle_bad_share never returns a value that could be decoded
        hb = idx.func(RET + "._handle_bad_share")
        r.site(hb, None, "errback result")
        for n in hb.cfg().find(is_return):
            v = n.ast.value
            r.require(v is None or (isinstance(v, ast.Constant) and v.value is None), hb, hb.loc(n.ast),
                      "_handle_bad_share returns %s for a share that failed validation" % src(hb, v))
        # in _process_segment the only callback before the errback is _validate_block
        pseg = idx.func(RET + "._process_segment")
        # the Deferreds are found by role, not by name: the per-share one is the receiver _validate_block is registered on (when
        # it is registered nowhere: every Deferred that is collected into a list, i.e. not the returned one), the outer one is
        # the Deferred the function returns
        pregs = registrations(pseg)
        returned = {attr_path(n.ast.value) for n in pseg.cfg().find(is_return) if n.ast.value is not None} - {None}
        share_vars = {x.recv for x in pregs if x.target_name() == "self._validate_block" and x.recv}
        if not share_vars:
            share_vars = {x.recv for x in pregs if x.recv and x.recv not in returned}
        per = [x for x in pregs if x.recv in share_vars]
        pn = [x.target_name() for x in per]
        r.require(len(share_vars) == 1 and pn[:2] == ["self._validate_block", "self._handle_bad_share"] and per[1].kind == "eb"
                  and len(pn) == 2, pseg, pseg.loc(),
                  "per-share chain in _process_segment is %s, expected validate then bad-share errback" % pn)
        outer = [x for x in pregs if x.recv in returned and x.recv not in share_vars]
        if not returned:
            raise AnchorVanished("_process_segment no longer returns the Deferred of the gathered validation results")
        for x in outer:
            tn_ = x.target_name()
            r.require(tn_ in ("self._maybe_decode_and_decrypt_segment", "self._set_segment", "<lambda>"), pseg, pseg.loc(x.call),
                      "unexpected callback %s on the gathered validation results" % tn_)
        # consumer.write
        nw = 0
        for cs in [CallSite(f, c) for f in idx.funcs.values() if f.module.name == "allmydata.mutable.retrieve"
                   for c in calls_in_func(f, "write", into_lambda=True)]:
            nw += 1
            r.site(cs.fn, cs.call, "consumer.write")
            f = cs.fn
            if f.qual != "allmydata." + RET + "._set_segment":
                r.violation(f, cs.loc, "%s writes to the consumer" % short(f))
                continue
            p0 = first_positional_params(f)[0]
            a0 = arg(cs.call, 0)
            okw = isinstance(a0, ast.Name) and a0.id == p0
            if okw:
                # every assignment to the parameter inside is a slice of itself or the empty string
                for n in func_own_nodes(f):
                    if isinstance(n, ast.Assign) and any(attr_path(t) == p0 for t in n.targets):
                        v = n.value
                        fine = (isinstance(v, ast.Subscript) and isinstance(v.slice, ast.Slice) and attr_path(v.value) == p0) \
                            or (isinstance(v, ast.Constant) and v.value in (b"", None))
                        if not fine:
                            okw = False
            r.require(okw, f, cs.loc, "consumer.write(%s) is not (a slice of) the decrypted segment" % src(f, a0))
        if not nw:
            raise AnchorVanished("consumer.write in mutable/retrieve.py")
        _who_may_use(r, idx, "_set_segment", [RET + "._process_segment", RET + "._maybe_decode_and_decrypt_segment"],
                     "(writes to the consumer)", module_prefix="allmydata.mutable")
        # verify-mode use of _set_segment in _process_segment is under self._verify
        pcfg = pseg.cfg()
        pfn = FlowNorm(pseg)
        refs = [n for n in pcfg.nodes if n.kind == "stmt" and n.ast is not None and any(
            isinstance(x, ast.Attribute) and x.attr == "_set_segment" for x in ast.walk(n.ast))]
        for (n, w) in find_path_avoiding(pcfg, lambda x: x in refs,
                                         gate_edge=lambda x, lab: _fact(pfn, x, lab)[:2] == ("truth", "self._verify")):
            r.violation(pseg, pseg.loc(n.ast), "_process_segment hands undecoded data to _set_segment outside verify mode", w)

    # -- 9. private key gates ----------------------------------------------------
    with ctx.rule("C10.9", "R1", "both _try_to_validate_privkey: _populate_privkey/_populate_encprivkey only with "
                  "ssk_writekey_hash(decrypt_privkey(writekey, enc)) == node writekey", expected=4) as r:
        # servermap flavour: straight line
        fn = idx.func(SM + "._try_to_validate_privkey")
        enc = first_positional_params(fn)[0]
        cfg = fn.cfg()
        fnorm = FlowNorm(fn)
        WK = r"self\._node\.get_writekey\(\)"
        DEC = r"decrypt_privkey\(%s, %s\)" % (WK, re.escape(enc))
        gate = _eq_gate(fnorm, r"^(\w+\.)*ssk_writekey_hash\(%s\)$" % DEC, "^%s$" % WK)
        for tail in ("_populate_privkey", "_populate_encprivkey"):
            tn = cfg.find(has_call(tail))
            if not tn:
                raise AnchorVanished("%s call in ServermapUpdater._try_to_validate_privkey" % tail)
            for n in tn:
                r.site(fn, n.ast, tail)
                c = calls_at(n, tail)[0]
                val = fnorm.norm(n, c.args[0]) if c.args else ""
                if tail == "_populate_privkey":
                    r.require(re.match(r"^(\w+\.)*create_signing_keypair_from_string\(%s\)\[0\]$" % DEC, val) is not None,
                              fn, fn.loc(c), "installs %s, not the key whose hash was compared" % val)
                else:
                    r.require(val == enc, fn, fn.loc(c), "installs %s as encrypted key, not the validated one" % val)
            for (n, w) in find_path_avoiding(cfg, has_call(tail), gate_edge=gate, kill=stores(enc)):
                r.violation(fn, fn.loc(n.ast), "%s on a path that never compared ssk_writekey_hash(decrypted key) with the "
                            "node's writekey (path: %s)" % (tail, w.brief()), w)
        # retrieve flavour: the comparison is in the nested thread function
        fn = idx.func(RET + "._try_to_validate_privkey")
        enc = first_positional_params(fn)[0]
        gp = fn.nested.get("get_privkey")
        if gp is None:
            raise AnchorVanished(RET + "._try_to_validate_privkey.get_privkey")
        outer_defs = unique_defs(fn)
        gnorm = FlowNorm(gp)
        genv = N(fn)   # resolves node_writekey in the enclosing scope

        def outer(s):
            # names of the enclosing function that the nested one reads (closure): substitute unique definitions
            for nm, d in outer_defs.items():
                if isinstance(d, ast.AST) and not isinstance(d, ast.Await):
                    s = re.sub(r"\b%s\b" % re.escape(nm), genv.norm(d).replace("\\", "\\\\"), s)
            return s
        WK2 = "self._node.get_writekey()"
        DEC2 = "decrypt_privkey(%s, %s)" % (WK2, enc)

        def gate2(n, lab):
            op, l, rr = _fact(gnorm, n, lab)
            if op != "==":
                return False
            l, rr = outer(l), outer(rr)
            a = re.compile(r"^(\w+\.)*ssk_writekey_hash\(%s\)$" % re.escape(DEC2))
            return bool((a.match(l) and rr == WK2) or (a.match(rr) and l == WK2))
        gcfg = gp.cfg()
        vrets = [n for n in gcfg.find(is_return) if n.ast.value is not None and not (
            isinstance(n.ast.value, ast.Constant) and n.ast.value.value is None)]
        if not vrets:
            raise AnchorVanished("get_privkey returns no key")
        for n in vrets:
            r.site(gp, n.ast, "key return")
            val = outer(gnorm.norm(n, n.ast.value))
            r.require(re.match(r"^(\w+\.)*create_signing_keypair_from_string\(%s\)\[0\]$" % re.escape(DEC2), val) is not None,
                      gp, gp.loc(n.ast), "returns %s, not the key whose hash was compared" % val)
        for (n, w) in find_path_avoiding(gcfg, lambda x: x in vrets, gate_edge=gate2):
            r.violation(gp, gp.loc(n.ast), "a signing key is returned without comparing ssk_writekey_hash(decrypted key) with the "
                        "node's writekey (path: %s)" % w.brief(), w)
        # an implicit fall-off return (None) is fine; outer: populate only when the thread result is not None
        cfg = fn.cfg()
        fnorm = FlowNorm(fn)
        pk_nodes = cfg.find(has_call("_populate_privkey"))
        if not pk_nodes:
            raise AnchorVanished("_populate_privkey call in Retrieve._try_to_validate_privkey")
        for n in pk_nodes:
            r.site(fn, n.ast, "_populate_privkey")
            c = calls_at(n, "_populate_privkey")[0]
            a0 = c.args[0] if c.args else None
            if not isinstance(a0, ast.Name):
                r.violation(fn, fn.loc(c), "installs %s, not the result of get_privkey" % src(fn, a0))
                continue
            ds = _defs_at(fn, n, a0.id)
            okd = bool(ds)
            for d in ds:
                f, args = _unwrap_thread(d) if d is not None else (None, [])
                if not (isinstance(f, ast.Name) and f.id == "get_privkey" and not args):
                    okd = False
            r.require(okd, fn, fn.loc(c), "the installed key is not the validated result of get_privkey")

            def notnone(m, lab, _v=a0.id):
                if m.kind != "test" or not isinstance(lab, tuple):
                    return False
                op, l, rr = N().cmp(m.ast, lab[0] == "T")
                return (op == "is not" and {l, rr} == {"None", _v}) or (op == "truth" and l == _v)
            for (t, w) in find_path_avoiding(cfg, lambda x, _n=n: x is _n, gate_edge=notnone, kill=stores(a0.id)):
                r.violation(fn, fn.loc(t.ast), "_populate_privkey is reached although get_privkey rejected the key (None) "
                            "(path: %s)" % w.brief(), w)
        for n in cfg.find(has_call("_populate_encprivkey")):
            c = calls_at(n, "_populate_encprivkey")[0]
            r.require(bool(c.args) and isinstance(c.args[0], ast.Name) and c.args[0].id == enc, fn, fn.loc(c),
                      "installs %s as encrypted key, not the validated one" % (src(fn, c.args[0]) if c.args else "?"))
            # order between the two stores is irrelevant; both must be behind the same None test
            nm = [a.id for a in [calls_at(p, "_populate_privkey")[0].args[0] for p in pk_nodes] if isinstance(a, ast.Name)]
            if nm:
                def notnone2(m, lab, _v=nm[0]):
                    if m.kind != "test" or not isinstance(lab, tuple):
                        return False
                    op, l, rr = N().cmp(m.ast, lab[0] == "T")
                    return (op == "is not" and {l, rr} == {"None", _v}) or (op == "truth" and l == _v)
                for (t, w) in find_path_avoiding(cfg, lambda x, _n=n: x is _n, gate_edge=notnone2, kill=stores(nm[0])):
                    r.violation(fn, fn.loc(t.ast), "_populate_encprivkey is reached although the key was rejected", w)

    # -- 10. every validated segment is delivered exactly once, in order ----------------
    with ctx.rule("C10.10", "R1/R4/E7", "segment sequencing: the segment loop waits for the decode -> decrypt -> _set_segment chain, "
                  "_set_segment writes the segment (unless verifying) and advances _current_segment by exactly one, nobody "
                  "else moves _current_segment, _process_segment is run for _current_segment, _done only past the last segment", expected=7) as r:
        CUR = "self._current_segment"
        ss = idx.func(RET + "._set_segment")
        scfg = ss.cfg()
        sn = FlowNorm(ss)
        want = norm_src(CUR + " + 1")
        adv = [n for n in scfg.nodes if n.kind not in ("entry", "exit", "raise") and CUR in node_stores(n)]
        if not adv:
            r.site(ss, None, "advance (absent)")     # reported by the exactly-once walk below
        for n in adv:
            r.site(ss, n.ast, "advance")
            a = n.ast
            val = None
            if isinstance(a, ast.AugAssign):
                tgt = ast.Attribute(value=a.target.value, attr=a.target.attr, ctx=ast.Load()) \
                    if isinstance(a.target, ast.Attribute) else None
                if tgt is not None:
                    val = ast.fix_missing_locations(ast.copy_location(ast.BinOp(left=tgt, op=a.op, right=a.value), a))
            elif isinstance(a, ast.Assign) and len(a.targets) == 1 and attr_path(a.targets[0]) == CUR:
                val = a.value
            got = sn.norm(n, val) if val is not None else "?"
            r.require(got == want, ss, ss.loc(a), "_set_segment moves _current_segment to %s, not to the next segment: segments "
                      "would be skipped or delivered again" % got)

        # exactly one advance on every normal path through _set_segment
        def tr_adv(m, lab, nxt, st):
            if lab == "exc":
                return None
            if any(m is x for x in adv):
                st = min(st + 1, 2)
            return st
        visited, parent = explore(scfg, 0, tr_adv)
        r.count(len(visited))
        for (nid, st) in sorted(visited):
            if scfg.nodes[nid].kind == "exit" and st != 1:
                w = witness(scfg, parent, (nid, st))
                r.violation(ss, ss.loc(), "_set_segment returns having advanced _current_segment %s: the segment loop would %s "
                            "(path: %s)" % ("more than once" if st else "not at all",
                                            "skip a segment" if st else "fetch and deliver the same segment again", w.brief()), w)
                break

        # the segment reaches the consumer on every non-verify path
        def wrote(m):
            return any(call_name(c).endswith("_consumer.write") for c in node_calls(m))
        if not scfg.find(wrote):
            raise AnchorVanished("consumer.write in _set_segment")
        r.site(ss, None, "write unless verify")

        def tr_w(m, lab, nxt, st):
            if lab == "exc":
                return None
            if st or wrote(m) or _fact(sn, m, lab)[:2] == ("truth", "self._verify"):
                return True
            return False
        visited, parent = explore(scfg, False, tr_w)
        for (nid, st) in sorted(visited, key=lambda x: (x[0], x[1])):
            if scfg.nodes[nid].kind == "exit" and not st:
                w = witness(scfg, parent, (nid, st))
                r.violation(ss, ss.loc(), "_set_segment can return without writing the segment to the consumer although this is "
                            "not a verify run: the read would succeed with bytes missing (path: %s)" % w.brief(), w)
                break

        # who may move _current_segment
        k = 0
        for (f, nd) in cg.attr_stores("_current_segment"):
            if f.cls is None or f.cls.name != "Retrieve":
                if attr_path(nd.value) == "self":
                    continue            # another class's own counter (Publish)
            k += 1
            r.site(f, nd, "store _current_segment")
            if f.qual == ss.qual:
                continue
            if f.qual == "allmydata." + RET + "._setup_encoding_parameters":
                a = _assign_of(f, nd)
                r.require(a is not None and norm_plain(a.value) == "self._start_segment", f, f.loc(nd),
                          "the download does not start at _start_segment (%s)" % (src(f, a.value) if a is not None else "?"))
                continue
            r.violation(f, f.loc(nd), "%s moves Retrieve._current_segment: a segment would be skipped or delivered twice" % short(f))
        if k < 2:
            raise AnchorVanished("stores of Retrieve._current_segment")

        # the loop processes the current segment
        np_ = 0
        for (f, c, is_call) in _uses_everywhere(idx, "_process_segment", "allmydata.mutable.retrieve"):
            np_ += 1
            r.site(f, c, "_process_segment")
            r.require(is_call and len(c.args) == 1 and not c.keywords and norm_plain(c.args[0]) == CUR, f, f.loc(c),
                      "%s runs _process_segment for %s, not for _current_segment" % (
                          short(f), src(f, c.args[0]) if is_call and c.args else "?"))
        if not np_:
            raise AnchorVanished("no call of Retrieve._process_segment")

        # success is reported only when every requested segment was delivered
        LAST = "self._last_segment"
        dcs = idx.func(RET + "._download_current_segment")
        dl_fn = idx.func(RET + ".download")
        dn_seen = 0
        for (f, c, is_call) in _uses_everywhere(idx, "_done", "allmydata.mutable.retrieve"):
            if f.cls is None or f.cls.name != "Retrieve":
                continue
            dn_seen += 1
            if not is_call or f.qual not in (dcs.qual, dl_fn.qual):
                r.violation(f, f.loc(c), "%s %s Retrieve._done, which reports the read as complete" % (
                    short(f), "calls" if is_call else "takes as a value"))
        if not dn_seen:
            raise AnchorVanished("no use of Retrieve._done")
        dcfg = dcs.cfg()
        dnorm = FlowNorm(dcs)
        nxt_seg = norm_src(LAST + " + 1")
        past0 = norm_src("%s - %s" % (CUR, LAST))
        past1 = norm_src("%s - %s - 1" % (CUR, LAST))

        def all_delivered(m, lab):
            op, l, rr = _fact(dnorm, m, lab)
            if op == "truth" and l == "self._verify":
                return True
            if (op == "<" and (l, rr) == (LAST, CUR)) or (op in ("<=", "==") and (l, rr) == (nxt_seg, CUR)) or \
                    (op == "==" and (l, rr) == (CUR, nxt_seg)):
                return True
            # forms with arithmetic are normalised to  0 <op> difference
            return l == "0" and ((op == "<" and rr == past0) or (op in ("<=", "==") and rr == past1))
        dn_nodes = dcfg.find(has_call_named("self._done"))
        if not dn_nodes:
            raise AnchorVanished("self._done() in _download_current_segment")
        r.site(dcs, dn_nodes[0].ast, "done when past the last segment")
        for (t, w) in find_path_avoiding(dcfg, has_call_named("self._done"), gate_edge=all_delivered,
                                         kill=stores_any({CUR, LAST})):
            r.violation(dcs, dcs.loc(t.ast), "_download_current_segment reports the read as complete although _current_segment "
                        "may not be past _last_segment: the consumer would be missing the rest of the requested range "
                        "(path: %s)" % w.brief(), w)
        zcfg = dl_fn.cfg()
        znorm = FlowNorm(dl_fn)

        zps = first_positional_params(dl_fn)
        if len(zps) < 3:
            raise AnchorVanished("download(consumer, offset, size) signature")
        zsize = zps[2]

        def zero_size(m, lab):
            op, l, rr = _fact(znorm, m, lab)
            return (op == "==" and {l, rr} == {"0", zsize}) or (op == "false" and l == zsize)
        for (t, w) in find_path_avoiding(zcfg, has_call_named("self._done"), gate_edge=zero_size):
            r.violation(dl_fn, dl_fn.loc(t.ast), "download() reports the read as complete without downloading although the "
                        "requested size may be non-zero (path: %s)" % w.brief(), w)
        # ... and _done is the only place that fires the result
        for (f, c, is_call) in _uses_everywhere(idx, "callback", "allmydata.mutable.retrieve"):
            recv = c.func.value if is_call else c.value
            if attr_path(recv) == "self._done_deferred" and f.qual != "allmydata." + RET + "._done":
                r.violation(f, f.loc(c), "%s fires Retrieve._done_deferred with a success result" % short(f))

        # _maybe_decode_and_decrypt_segment hands the chain back, so that loop() continues only after _set_segment ran
        md = idx.func(RET + "._maybe_decode_and_decrypt_segment")
        mcfg = md.cfg()
        dvars = {attr_path(t) for n in func_own_nodes(md) if isinstance(n, ast.Assign)
                 and contains_call(n.value, "_decode_blocks") for t in n.targets}
        dvars.discard(None)
        if len(dvars) != 1:
            raise AnchorVanished("decode Deferred in _maybe_decode_and_decrypt_segment")
        dv = dvars.pop()
        mn = FlowNorm(md)

        def chain_root(e):
            while isinstance(e, ast.Call) and isinstance(e.func, ast.Attribute) \
                    and e.func.attr in ("addCallback", "addCallbacks", "addErrback", "addBoth"):
                e = e.func.value
            return e

        def returns_chain(m):
            if not is_return(m) or m.ast.value is None:
                return False
            root = chain_root(m.ast.value)
            if attr_path(root) == dv:
                return True
            res = mn.resolve(m, root)
            return res is not None and attr_path(chain_root(res)) == dv
        r.site(md, None, "returns the chain")
        for (s, w) in find_path_from_to_avoiding(mcfg, has_call("_decode_blocks"), returns_chain):
            r.violation(md, md.loc(s.ast), "after starting the decode of a segment _maybe_decode_and_decrypt_segment can return "
                        "without handing back the decode -> decrypt -> _set_segment Deferred: the loop would fetch the same "
                        "segment again before it was written, and decode errors would be lost (path: %s)" % w.brief(), w)

    # -- 11. what is written is the requested range of the decrypted segment -------------
    with ctx.rule("C10.11", "R1", "_set_segment trims the tail only of the last requested segment (to a non-zero length) and "
                  "the head only of the first one, does both whenever they apply, and blanks the segment only for a "
                  "zero-length read", expected=3) as r:
        ss = idx.func(RET + "._set_segment")
        seg = first_positional_params(ss)[0]
        scfg = ss.cfg()
        sn = FlowNorm(ss)
        CUR, LAST, START, RLEN = "self._current_segment", "self._last_segment", "self._start_segment", "self._read_length"

        def wrote(m):
            return any(call_name(c).endswith("_consumer.write") for c in node_calls(m))
        wnodes = scfg.find(wrote)
        if not wnodes:
            raise AnchorVanished("consumer.write in _set_segment")
        # nodes from which a write is still reachable
        live = set()
        work = [w.id for w in wnodes]
        while work:
            x = work.pop()
            if x in live:
                continue
            live.add(x)
            for (p, lab) in scfg.pred[x]:
                if lab != "exc":
                    work.append(p)

        def seg_assign(m):
            if m.kind != "stmt" or not isinstance(m.ast, ast.Assign) or m.id not in live or any(m is w for w in wnodes):
                return None
            if not any(attr_path(t) == seg for t in m.ast.targets):
                return None
            return m.ast.value
        tails, heads, blanks = [], [], []
        for m in scfg.nodes:
            v = seg_assign(m)
            if v is None:
                continue
            if isinstance(v, ast.Subscript) and isinstance(v.slice, ast.Slice) and attr_path(v.value) == seg and v.slice.step is None:
                if v.slice.upper is not None:
                    tails.append((m, v.slice.upper))
                if v.slice.lower is not None:
                    heads.append((m, v.slice.lower))
            elif isinstance(v, ast.Constant):
                blanks.append(m)
            # anything else is C10.8's business (not a slice of the decrypted segment)

        def is_seg(op, l, rr, other, ge_left):
            """fact `CUR == other`, or the one-sided form that is equivalent because start <= CUR <= last"""
            if op == "==" and {l, rr} == {CUR, other}:
                return True
            # canonical '<=' : l <= rr.   CUR >= last  is  last <= CUR ;  CUR <= start  is  CUR <= start
            if op == "<=":
                return (l, rr) == ((other, CUR) if ge_left else (CUR, other))
            return False

        def at_last(m, lab):
            op, l, rr = _fact(sn, m, lab)
            return is_seg(op, l, rr, LAST, True)

        def at_start(m, lab):
            op, l, rr = _fact(sn, m, lab)
            return is_seg(op, l, rr, START, False)

        def zero_fact(m, lab, needle):
            """edge fact saying that an expression mentioning `needle` is zero"""
            op, l, rr = _fact(sn, m, lab)
            if op == "==" and "0" in (l, rr):
                return needle in (rr if l == "0" else l)
            return op == "false" and needle in (l or "")
        if not scfg.find(lambda x: any(at_last(x, lb) for (_, lb) in scfg.succ[x.id])) or \
                not scfg.find(lambda x: any(at_start(x, lb) for (_, lb) in scfg.succ[x.id])):
            raise AnchorVanished("tests of _current_segment against _last_segment / _start_segment in _set_segment")
        if not tails:
            r.site(ss, None, "tail trim (absent)")      # reported by the completeness walk below
        if not heads:
            r.site(ss, None, "head trim (absent)")
        for (m, up) in tails:
            r.site(ss, m.ast, "tail trim")
            for (t, w) in find_path_avoiding(scfg, lambda x, _m=m: x is _m, gate_edge=at_last, kill=stores_any({CUR, LAST})):
                r.violation(ss, ss.loc(m.ast), "the tail of a segment is cut off (%s) although it may not be the last requested "
                            "segment: bytes from the middle of the read would be dropped (path: %s)" % (src(ss, m.ast), w.brief()), w)
            if isinstance(up, (ast.BoolOp, ast.IfExp)):
                continue            # `x or None` style bounds: undecided
            upn = sn.norm(m, up)

            def nonzero(x, lab, _u=upn):
                op, l, rr = _fact(sn, x, lab)
                return (op == "!=" and {l, rr} == {_u, "0"}) or (op == "truth" and l == _u) or \
                    (op == "<" and (l, rr) == ("0", _u))
            for (t, w) in find_path_avoiding(scfg, lambda x, _m=m: x is _m, gate_edge=nonzero):
                r.violation(ss, ss.loc(m.ast), "%s can run with a zero bound (the read ends on a segment boundary): the whole last "
                            "segment would be dropped (path: %s)" % (src(ss, m.ast), w.brief()), w)
        for (m, lo) in heads:
            r.site(ss, m.ast, "head trim")
            for (t, w) in find_path_avoiding(scfg, lambda x, _m=m: x is _m, gate_edge=at_start, kill=stores_any({CUR, START})):
                r.violation(ss, ss.loc(m.ast), "the head of a segment is cut off (%s) although it may not be the first requested "
                            "segment (path: %s)" % (src(ss, m.ast), w.brief()), w)
        for m in blanks:
            r.site(ss, m.ast, "blank")

            def zero_len(x, lab):
                op, l, rr = _fact(sn, x, lab)
                return (op == "==" and {l, rr} == {RLEN, "0"}) or (op == "false" and l == RLEN)
            for (t, w) in find_path_avoiding(scfg, lambda x, _m=m: x is _m, gate_edge=zero_len, kill=stores(RLEN)):
                r.violation(ss, ss.loc(m.ast), "the decrypted segment is replaced by %s for a read that is not zero-length "
                            "(path: %s)" % (src(ss, m.ast.value), w.brief()), w)
        # completeness: on the way to the write, last segment => tail trimmed (unless the end is on a boundary),
        # first segment => head trimmed (unless the offset is on a boundary)
        tail_ids = {m.id for (m, _) in tails}
        head_ids = {m.id for (m, _) in heads}

        def eq_ne(m, lab, other):
            """'T' / 'F' when the edge says CUR == other / CUR != other, else None"""
            op, l, rr = _fact(sn, m, lab)
            if {l, rr} == {CUR, other} and op in ("==", "!="):
                return "T" if op == "==" else "F"
            return None

        def tr(m, lab, nxt, st):
            if lab == "exc":
                return None
            need_t, need_h, kl, ks = st
            if m.kind in ("entry", "exit", "raise"):
                return st
            sts = node_stores(m)
            if sts & {CUR, LAST}:
                kl = "?"
            if sts & {CUR, START}:
                ks = "?"
            # contradictory repeated tests of the same equality are not paths
            e = eq_ne(m, lab, LAST)
            if e:
                if kl not in ("?", e):
                    return None
                kl = e
            e = eq_ne(m, lab, START)
            if e:
                if ks not in ("?", e):
                    return None
                ks = e
            if at_last(m, lab):
                need_t = "need" if need_t == "no" else need_t
            if at_start(m, lab):
                need_h = "need" if need_h == "no" else need_h
            if m.id in tail_ids or zero_fact(m, lab, RLEN):
                need_t = "done"
            if m.id in head_ids or zero_fact(m, lab, "self._offset"):
                need_h = "done"
            return (need_t, need_h, kl, ks)
        visited, parent = explore(scfg, ("no", "no", "?", "?"), tr)
        r.count(len(visited))
        r.site(ss, None, "trims applied")
        told = set()
        for (nid, st) in sorted(visited):
            if not any(scfg.nodes[nid] is w for w in wnodes):
                continue
            for i, what in ((0, "last"), (1, "first")):
                if st[i] == "need" and what not in told:
                    told.add(what)
                    w = witness(scfg, parent, (nid, st))
                    r.violation(ss, ss.loc(scfg.nodes[nid].ast), "the %s requested segment reaches the consumer without its %s being "
                                "trimmed to the requested range: bytes outside the read would be delivered (path: %s)" % (
                                    what, "tail" if i == 0 else "head", w.brief()), w)

    # -- 12. malformed share bytes are a bad share, not an internal error -------------------
    with ctx.rule("C10.12", "E7/R1", "MDMFSlotReadProxy: a struct.error raised while unpacking bytes a server returned never leaves "
                  "the reader - every callback that can raise it is followed on its Deferred by an errback that re-raises it as "
                  "a BadShareError (or the unpack sits in a try that does), and no reader method raises it synchronously",
                  expected=3) as r:
        bad_ci = idx.cls("mutable.common:BadShareError")
        rcls = idx.cls(READER)
        pfx = rcls.qual + "."

        def in_reader(f):
            return f.qual.startswith(pfx)
        sc = _StructContainment(idx, in_reader, [bad_ci])
        rfuncs = [f for f in idx.funcs.values() if in_reader(f)]
        unpackers = [f for f in rfuncs if any(isinstance(x, ast.Call) and call_tail(x) in UNPACK_TAILS for x in func_own_nodes(f))]
        if not unpackers:
            raise AnchorVanished("no struct.unpack in MDMFSlotReadProxy")
        for f in unpackers:
            r.site(f, None, "unpacks share bytes")
        # registration targets (so that a bare reference to a raising function elsewhere is noticed)
        reg_targets = set()
        for f in rfuncs:
            for x in registrations(f):
                for t in (x.target, x.errtarget):
                    while isinstance(t, ast.Call) and call_tail(t) == "partial" and t.args:
                        t = t.args[0]
                    if t is not None:
                        reg_targets.add(id(t))
        for f in rfuncs:
            if f.parent is not None:
                continue            # nested callbacks are judged where they are registered / called
            sync = sc.may_raise(f)
            leak = sc.leaks(f)
            if sync is None and leak is None:
                continue
            uses = _uses_everywhere(idx, f.name, "allmydata.mutable")
            outside = [(u, nd) for (u, nd, _c) in uses if not in_reader(u)]
            for (u, nd, is_call) in uses:
                if in_reader(u) and not is_call and id(nd) not in reg_targets:
                    r.violation(u, u.loc(nd), "%s takes %s, which can raise struct.error on malformed share bytes, as a value outside a "
                                "Deferred chain: nothing turns the error into a BadShareError there" % (short(u), f.name))
            exposed = not f.name.startswith("_") or bool(outside)
            if not exposed:
                continue            # internal helper: its callers inside the reader are judged instead
            if sync is not None:
                r.violation(f, f.loc(sync), "%s can raise struct.error synchronously (%s) when a server returns short or malformed "
                            "bytes: Retrieve._handle_bad_share tolerates only BadShareError, so one damaged share aborts the whole "
                            "read" % (short(f), src(f, sync)))
            if leak is not None:
                w, names = leak
                r.violation(f, f.loc(), "the Deferred returned by %s can fail with a raw struct.error from %s: no errback after that "
                            "callback re-raises it as BadShareError, so Retrieve._handle_bad_share (which tolerates only "
                            "BadShareError) lets one damaged share abort the read although k intact shares are reachable "
                            "(path: %s)" % (short(f), names, w.brief()), w)
        r.count(sc.states)

    # -- 13. every bad-share report reaches _handle_bad_share as a type it tolerates ----------
    with ctx.rule("C10.13", "R4", "Retrieve._handle_bad_share tolerates BadShareError, and every exception raised explicitly by "
                  "MDMFSlotReadProxy and by Retrieve._validate_block (and the hash-tree update helpers it calls) is one of the "
                  "tolerated package classes", expected=12) as r:
        bad_ci = idx.cls("mutable.common:BadShareError")
        hb = idx.func(RET + "._handle_bad_share")
        fp = first_positional_params(hb)[0]
        traps = [c for c in calls_in_func(hb, "trap") if call_name(c) == fp + ".trap"]
        tolerated = None            # None: everything (no trap at all)
        tolerates_all = not traps
        for c in traps:
            r.site(hb, c, "trap")
            cls_here = set()
            for a in c.args:
                if _names_exc(hb.module, a, "builtins.Exception"):
                    tolerates_all = True
                ci = _exc_class(idx, hb.module, a)
                if ci is not None:
                    cls_here.add(ci)
            tolerated = cls_here if tolerated is None else (tolerated & cls_here)
            r.require(tolerates_all or _in_family(bad_ci, cls_here), hb, hb.loc(c), "_handle_bad_share traps %s: a BadShareError "
                      "(malformed, truncated or corrupt share) is re-raised and aborts the read instead of the share being dropped "
                      "and replaced by another one" % src(hb, c))
        if not traps:
            r.site(hb, None, "no trap: every failure is tolerated")
        roots = list(tolerated or [])
        vb = idx.func(RET + "._validate_block")
        pfx = idx.cls(READER).qual + "."
        # the validation path: _validate_block and the helpers through which it updates the hash trees (followed through
        # the call graph) - that is where a hash mismatch becomes an exception
        tu = _TreeUpdates(idx, cg)
        vpath = [vb]
        work = [(vb, 0)]
        while work:
            f0, d0 = work.pop()
            if d0 >= tu.MAXDEPTH:
                continue
            for c in calls_in_func(f0):
                for g in cg.resolve(f0, c):
                    if g not in vpath and tu.reaches(g):
                        vpath.append(g)
                        work.append((g, d0 + 1))
        raisers = [f for f in idx.funcs.values() if f.qual.startswith(pfx)] + vpath
        n_raise = 0
        n_vraise = 0
        for f in raisers:
            for n in func_own_nodes(f):
                if not isinstance(n, ast.Raise) or n.exc is None:
                    continue
                n_raise += 1
                n_vraise += f in vpath
                r.site(f, n, "raise")
                if tolerates_all:
                    continue
                ci = _exc_class(idx, f.module, n.exc)
                r.require(_in_family(ci, roots), f, f.loc(n), "%s raises %s for a bad share, but that is not %s Retrieve._handle_bad_share "
                          "tolerates (%s): the read fails instead of dropping the share" % (
                              short(f), src(f, n.exc), "a subclass of what" if ci is not None else "a package exception class that",
                              ", ".join(sorted(c.name for c in roots)) or "nothing"))
        if n_raise < 2 or not n_vraise:
            raise AnchorVanished("raise statements in MDMFSlotReadProxy / Retrieve._validate_block and its hash-tree helpers")

    # -- 14. the hash trees behind the gates of rule 6: acceptance and rejection discipline of set_hashes -------------
    # Retrieve validates every share of a read against ONE share_hash_tree (bound once in _setup_download, C10.7) and every
    # segment of a share against one block hash tree; the hash numbers and hashes offered come from the storage server.
    # A set_hashes call that raises must therefore leave no trace (else k further forged shares validate against the
    # leftovers of a rejected one), and a call that returns must have tied everything it added to the signed root.
    # These are the conditions C35 decides on IncompleteHashTree.set_hashes; C35.9 (IndexError) applies here as well
    # because the share hash chain's node numbers are unpacked from the share.
    _need_set_hashes_user(idx)
    ctx.include("C35", ["C35.1", "C35.2", "C35.3", "C35.4", "C35.9"], "C10.14")


    # -- 15. availability: a share is judged on its own checks only ------------------------------------------------
    # "If at least k intact shares of the newest version are reachable, the read succeeds": a server may hold several
    # shares, and one damaged share must not cost the reader the intact ones next to it.  So the only decisions that may
    # keep a share of an answer out of the servermap are that share's own checks (an exception / assertion raised while
    # validating it, a test on its own (server, shnum) key or its own data), the end of the answer, and the updater
    # having been stopped - never a verdict recorded for the server as a whole or for another share.
    with ctx.rule("C10.15", "R1/R4", "every share of a server's answer reaches _got_signature_one_share and is recorded by "
                  "add_new_share unless one of its OWN checks diverts it (exception, its own (server, shnum) key, its own "
                  "data, updater stopped); ServerMap records / forgets exactly the (server, shnum) it is told to; the "
                  "updater marks bad only the share that failed", expected=5) as r:
        gs = idx.func(SM + "._got_signature_one_share")
        gr = idx.func(SM + "._got_results")
        gcfg = gr.cfg()
        gdefs = def_exprs(gr)
        regs = [x for x in registrations(gr) if x.kind in ("cb", "both", "pair") and _reg_runs(x, gs.name)]
        if not regs:
            raise AnchorVanished("_got_results no longer registers _got_signature_one_share on the per-share Deferred")
        reg_nodes = [n for n in gcfg.nodes if n.kind == "stmt" and n.ast is not None
                     and any(x.call in set(ast.walk(n.ast)) for x in regs)]
        if not reg_nodes:
            raise AnchorVanished("statement registering _got_signature_one_share")
        loops = [_loop_of(gcfg, x.call) for x in regs]
        if any(l is None for l in loops):
            raise AnchorVanished("_got_signature_one_share is no longer registered inside the per-share loop of _got_results")
        loopvars = set()
        own_res = set()
        for l in loops:
            loopvars |= _names(l.ast.target)
            own_res |= depends_on(gr, l.ast.iter, defs=gdefs) & set(gr.params)
        # (a) the per-share loop of _got_results
        for (u, lab, v) in _diverting_edges(gcfg, reg_nodes):
            r.site(gr, u.ast, "leaves the path to the signature check")
            ok, deps = _own_verdict(gr, u, lab, loopvars | own_res, gdefs)
            r.count(len(gcfg.nodes))
            if not ok:
                r.violation(gr, gr.loc(u.ast) if u.ast is not None else gr.loc(), "_got_results: `%s` keeps a share of the "
                            "server's answer from ever reaching _got_signature_one_share, and it depends only on %s - not on "
                            "the share itself (%s): intact shares are dropped because of something recorded for the server "
                            "or for another share, and a read can fail although k intact shares are reachable" % (
                                src(gr, u.ast) if u.ast is not None else u.kind, sorted(deps) or "nothing",
                                ", ".join(sorted(loopvars))))
        # ... and the loop goes on to the next share of the answer: it is left only when the answer is exhausted
        for l in {id(l): l for l in loops}.values():
            stack = [(st, True) for st in l.ast.body]
            while stack:
                st, mine = stack.pop()
                if isinstance(st, (ast.FunctionDef, ast.AsyncFunctionDef, ast.Lambda, ast.ClassDef)):
                    continue
                if isinstance(st, ast.Return) or (isinstance(st, ast.Break) and mine):
                    r.violation(gr, gr.loc(st), "_got_results leaves the per-share loop with `%s` before every share of the "
                                "server's answer has been handed to _got_signature_one_share: the remaining (intact) shares "
                                "of this answer never reach the servermap" % src(gr, st))
                inner = mine and not isinstance(st, (ast.For, ast.AsyncFor, ast.While))
                for ch in ast.iter_child_nodes(st):
                    if isinstance(st, (ast.For, ast.AsyncFor, ast.While)) and ch in st.orelse:
                        stack.append((ch, mine))
                    else:
                        stack.append((ch, inner))
        # (b) _got_signature_one_share: from the verified signature to add_new_share
        own = set()
        for x in regs:
            lv = _names(_loop_of(gcfg, x.call).ast.target)
            own |= _per_share_params(gr, x, gs, lv, gdefs)
        if not own:
            raise AnchorVanished("no parameter of _got_signature_one_share identifies the share it is called for")
        scfg = gs.cfg()
        sdefs = def_exprs(gs)
        adds = [n for n in scfg.nodes if n.kind == "stmt" and calls_at(n, "add_new_share")]
        if not adds:
            raise AnchorVanished("add_new_share call in _got_signature_one_share")
        for n in adds:
            r.site(gs, n.ast, "records the share")
            for c in calls_at(n, "add_new_share"):
                got = [attr_path(a) for a in c.args[:2]]
                r.require(set(x for x in got if x) & own and len(c.args) >= 2, gs, gs.loc(c), "add_new_share(%s) does not "
                          "record the share this call was made for (%s)" % (", ".join(src(gs, a) for a in c.args),
                                                                        ", ".join(sorted(own))))
        for (u, lab, v) in _diverting_edges(scfg, adds):
            r.site(gs, u.ast, "leaves the path to add_new_share")
            ok, deps = _own_verdict(gs, u, lab, own, sdefs)
            r.count(len(scfg.nodes))
            if not ok:
                r.violation(gs, gs.loc(u.ast) if u.ast is not None else gs.loc(), "_got_signature_one_share: `%s` keeps a "
                            "share whose signature was accepted out of the servermap, and it depends only on %s - not on "
                            "this share (%s): a share is discarded because of the verdict on another share (e.g. a "
                            "corrupt sibling on the same server), so a read can fail although k intact shares are "
                            "reachable" % (src(gs, u.ast) if u.ast is not None else u.kind, sorted(deps) or "nothing",
                                           ", ".join(sorted(own))))
        # (c) ServerMap: records / forgets exactly the share it is told to
        smap = idx.cls(SMAP)
        KS = "self._known_shares"
        an = smap.methods.get("add_new_share")
        mb = smap.methods.get("mark_bad_share")
        if an is None or mb is None:
            raise AnchorVanished("ServerMap.add_new_share / mark_bad_share")
        acfg = an.cfg()
        afn = FlowNorm(an)
        aps = first_positional_params(an)
        stores_ks = [n for n in acfg.nodes if n.kind == "stmt" and KS + "[]" in node_stores(n)]
        if not stores_ks:
            raise AnchorVanished("ServerMap.add_new_share no longer stores into _known_shares")
        want = norm_src("(%s, %s)" % (aps[0], aps[1]))
        for n in stores_ks:
            r.site(an, n.ast, "stores the share")
            for t in (n.ast.targets if isinstance(n.ast, ast.Assign) else [getattr(n.ast, "target", None)]):
                if isinstance(t, ast.Subscript) and attr_path(t.value) == KS:
                    r.require(afn.norm(n, t.slice) == want, an, an.loc(n.ast), "add_new_share stores the share under %s, "
                              "its caller named %s" % (src(an, t.slice), want))
        for (u, lab, v) in _diverting_edges(acfg, stores_ks):
            ok, deps = _own_verdict(an, u, lab, set(), def_exprs(an))
            if not ok:
                r.violation(an, an.loc(u.ast) if u.ast is not None else an.loc(), "ServerMap.add_new_share: `%s` makes it "
                            "return without recording the share its caller validated" % (
                                src(an, u.ast) if u.ast is not None else u.kind))
        n_rm = 0
        for m in smap.methods.values():
            mfn = None
            mps = first_positional_params(m)
            for n in m.cfg().nodes:
                if n.ast is None or n.kind not in ("stmt", "test", "iter", "with"):
                    continue
                rm = []         # (what, key expr or None)
                for c in node_calls(n):
                    if isinstance(c.func, ast.Attribute) and attr_path(c.func.value) == KS:
                        if c.func.attr == "pop":
                            rm.append(("pop", c.args[0] if c.args else None))
                        elif c.func.attr in ("clear", "popitem"):
                            rm.append((c.func.attr, None))
                if isinstance(n.ast, ast.Delete):
                    for t in n.ast.targets:
                        if isinstance(t, ast.Subscript) and attr_path(t.value) == KS:
                            rm.append(("del", t.slice))
                        elif attr_path(t) == KS:
                            rm.append(("del", None))
                for (what, key) in rm:
                    n_rm += 1
                    r.site(m, n.ast, "forgets a share")
                    if mfn is None:
                        mfn = FlowNorm(m)
                    good = key is not None and len(mps) >= 2 and mfn.norm(n, key) == norm_src("(%s, %s)" % (mps[0], mps[1])) \
                        and _loop_of(m.cfg(), n.ast) is None
                    r.require(good, m, m.loc(n.ast), "ServerMap.%s removes %s from the known shares, not just the one "
                              "(server, shnum) its caller found bad: intact shares vanish from the map together with a "
                              "damaged one" % (m.name, ("the entry " + src(m, key)) if key is not None else "entries (%s)" % what))
        if not n_rm:
            raise AnchorVanished("ServerMap no longer removes a bad share from _known_shares")
        # (d) the updater marks bad only the share whose check failed
        n_mb = 0
        pfx = idx.cls(SM).qual + "."
        for f in list(idx.funcs.values()):
            if not f.qual.startswith(pfx):
                continue
            cs = calls_in_func(f, "mark_bad_share")
            if not cs:
                continue
            ffn = FlowNorm(f)
            fcfg = f.cfg()
            for n in fcfg.nodes:
                for c in calls_at(n, "mark_bad_share"):
                    n_mb += 1
                    r.site(f, c, "marks a share bad")
                    a = [ffn.norm(n, x) for x in c.args[:2]]
                    good = len(a) == 2 and a[0] != a[1] and all(x in f.params for x in a) and _loop_of(fcfg, c) is None
                    r.require(good, f, f.loc(c), "%s marks %s bad, which is not (only) the share it was called for (its "
                              "parameters): shares that were never found damaged are removed from the servermap" % (
                                  short(f), src(f, c)))
        if not n_mb:
            raise AnchorVanished("ServermapUpdater no longer marks a corrupt share bad")


def _need_set_hashes_user(idx):
    """The adoption is justified by Retrieve._validate_block consulting IncompleteHashTree objects built in _setup_download."""
    sd = idx.func(RET + "._setup_download")
    if not any(call_tail(c) == "IncompleteHashTree" for c in calls_in_func(sd)):
        raise AnchorVanished("Retrieve._setup_download no longer builds IncompleteHashTree objects")
    vb = idx.func(RET + "._validate_block")
    if not _TreeUpdates(idx, get_callgraph(idx)).reaches(vb):
        raise AnchorVanished("Retrieve._validate_block no longer calls set_hashes (neither itself nor through a helper)")
