"""C11 Mutable version ordering and rollback resistance.

Decided: where the new sequence number comes from and how it reaches the share,
the tuple shape that makes `sorted(verinfos)[-1]` the highest sequence number,
the completion predicate of the MODE_READ servermap update, the
conservation of the pool of servers still to be asked, and that the servermap's record of
observed shares only grows (DESIGN.md section 5, C11)."""
from sa.h import *
from sa.cfg import reaching_defs
from . import C14 as _C14

EXPLANATION = (
    "Decided: (1) every store of Publish._new_seqnum is servermap.highest_seqnum() + c with c >= 1, or a constant "
    ">= 1 reached only when there is no servermap (initial publish); nothing else writes it; it is the seqnum "
    "argument of every write proxy, stored once as the proxy's _seqnum and packed into the seqnum slot of the "
    "checkstring and of the signed prefix; highest_seqnum() is the maximum of the seqnum slot over every version in "
    "shares_available() with no filter, and shares_available()/make_versionmap() enter every known share whether "
    "or not its version is recoverable; ServerMap.add_new_share() enters the share on every path, keyed and shaped "
    "as make_versionmap() takes it apart, with the parameter the updater binds to the re-packed verinfo at the "
    "version field; (2) all three verinfo producers put seqnum at index 0 and root hash at "
    "index 1 (and k where recoverable_versions() reads it), _make_verinfo_hashable keeps the positions, the read "
    "proxy's seqnum is the header field the writer packed it into; best_recoverable_version() is the last element "
    "of the plainly sorted recoverable versions (or their max); a version counts as recoverable only with >= k "
    "distinct share numbers (unrecoverable: < k) - whether recoverable_versions()/unrecoverable_versions() walk the "
    "version map themselves (loop or comprehension) or derive their answer from shares_available(), in which case the "
    "count shares_available() files per version must be the number of distinct share numbers (a set of share numbers, "
    "built by a comprehension or filled by a loop that adds the share number of every placement and is reset per "
    "version), not the number of (shnum, server, timestamp) placements; where these queries (and highest_seqnum(), "
    "shares_available(), and an unrecoverable_newer_versions() that _check_for_done tests instead of looping) are "
    "written in another shape - helpers, one shared per-version table, max(.., default=c) - their value is computed "
    "symbolically from self._known_shares (the evaluation of C14.11) and must be exactly the versions with k <= "
    "distinct share numbers / distinct < k / the maximum seqnum over every version / a superset of the versions with "
    "distinct < k above the highest recoverable seqnum, and a query neither analysis follows is not decided; "
    "max(recoverable_versions(), default=None) is the last of the sorted versions, None exactly when there is none; "
    "best_recoverable_version() answers None only on the branch where the recoverable "
    "versions were found empty; an unrequested read version is best_recoverable_version(); (3) in MODE_READ, "
    "ServermapUpdater._check_for_done reaches _done() only when no query is outstanding and no server is left, or "
    "after the query quota is met, a recoverable version exists, and the loop over unrecoverable_versions() ran to "
    "completion with every element's seqnum compared against the highest recoverable seqnum - a newer one makes "
    "the function return without _done(); once it has seen a newer unrecoverable version, or found nothing "
    "recoverable, every return has called self._send_more_queries(n) (n not a constant < 1) or _done(), or is on the "
    "branch where queries are still outstanding; (4) 'no server is left' means what it says: the pool "
    "ServermapUpdater.extra_servers starts as a whole copy of the storage broker's server list; on every path "
    "feasible in MODE_READ or MODE_WRITE a server that leaves the pool (.pop()) is passed to self._do_query - "
    "directly, or via a local that is not re-bound first, or via a local collection that is drained by a loop "
    "calling _do_query(element) on every iteration, by a method of the class that does so with its parameter, or by "
    "the callers the collection is returned to; the pool is not emptied on such a path; every other way of taking "
    "servers out of the pool (slicing, del, remove, aliasing) is reported as not analysable; _do_query reads from "
    "the server it was given and that server is registered in _queries_outstanding (by _do_query or by every "
    "caller), and _queries_outstanding is re-bound only before the first query is sent; (5) what a survey observed "
    "is not forgotten: every use of ServerMap._known_shares in the package (directly, through a local alias, through "
    "the accessor that returns the dict and its callers) either reads/enters, or removes a single key that the same "
    "function files in _bad_shares on every path through the removal; the dict is bound only empty in __init__ or as "
    "a whole copy into a map constructed on the spot; the failure handlers registered on the share query's Deferred "
    "in _do_query reach (through self.* and self._servermap.* calls) no function that removes entries or re-binds "
    "the dict - an unreachable server's shares stay observed, so highest_seqnum() cannot fall below a seen seqnum. "
    "Undecided: which servers hold which shares, arrival order of answers, RSA/hash strength; that "
    "_send_more_queries sends at least one query when it is below its limit and the pool is not empty (its loop "
    "arithmetic) and that an updater which merely stops with the query quota unmet is re-triggered (liveness); the "
    "MODE_WRITE/MODE_CHECK completion policies and the full-survey modes' emptying of the pool (the property is "
    "relative to what the survey observed); that a server is removed from _queries_outstanding only after its answer "
    "was processed; the values stored in the header fields other than seqnum; whether the callers of mark_bad_share "
    "(share validation in the updater, Retrieve) call it only for shares that really are bad; overwriting an entry "
    "of _known_shares with a different version (add_new_share does so by design).")
TECHNIQUE = ("static analysis: polynomial normal form of the seqnum formula, who-may-write, tuple-shape agreement "
             "across producers/consumers, CFG x fact-monitor exploration of the MODE_READ completion predicate, "
             "path-sensitive conservation (typestate) of servers leaving the query pool with method/caller summaries, "
             "symbolic per-version evaluation (distinct share numbers vs placements) across "
             "shares_available()/recoverable_versions(), shape-independent symbolic evaluation of the ServerMap queries "
             "from _known_shares (shared with C14.11) where they are not loop-shaped, who-may-remove sweep over every use of _known_shares with "
             "must-precede/must-follow pairing against _bad_shares, call-closure of the query errbacks")

LAY = "mutable.layout"
WP = LAY + ":MDMFSlotWriteProxy"
RP = LAY + ":MDMFSlotReadProxy"
SW = LAY + ":SDMFSlotWriteProxy"
PUB = "mutable.publish:Publish"
SM = "mutable.servermap:ServerMap"
SMU = "mutable.servermap:ServermapUpdater"
MFN = "mutable.filenode:MutableFileNode"


def _node_of(fn, sub):
    for n in fn.cfg().nodes:
        for e in node_exprs(n):
            if any(x is sub for x in ast.walk(e)):
                return n
    raise AnalysisError("expression not found in the CFG of %s" % short(fn))


def _struct_calls(fn, kind):
    out = []
    for n in fn.cfg().nodes:
        for c in node_calls(n):
            if call_tail(c) == kind and call_name(c) in ("struct." + kind, kind):
                out.append((n, c))
    return out


def _single_return_tuple(fn):
    rets = [n for n in fn.cfg().nodes if is_return(n) and isinstance(n.ast.value, ast.Tuple)]
    if len(rets) != 1:
        raise AnchorVanished("%s no longer returns one verinfo tuple" % short(fn))
    return rets[0]


def _verinfo_shape(idx, r):
    """Index of seqnum / root hash / k in the tuple of each verinfo producer (they must agree)."""
    prods = [(RP + ".get_verinfo._build_verinfo", {"self._sequence_number": "SEQ", "self._root_hash": "ROOT",
                                                    "self._required_shares": "K"}),
             (WP + ".get_verinfo", {"self._seqnum": "SEQ", "self._root_hash": "ROOT", "self._required_shares": "K"}),
             (SW + ".get_verinfo", {"self._seqnum": "SEQ", "self._share_pieces['root_hash']": "ROOT",
                                    "self._required_shares": "K"})]
    first = None
    for q, roles in prods:
        fn = idx.func(q)
        rn = _single_return_tuple(fn)
        here = {"len": len(rn.ast.value.elts)}
        for i, e in enumerate(rn.ast.value.elts):
            ro = roles.get(norm_plain(e))
            if ro:
                here[ro] = i
        r.site(fn, rn.ast, "verinfo producer")
        if first is None:
            first = here
            for k in ("SEQ", "ROOT", "K"):
                if k not in here:
                    raise AnchorVanished("read proxy verinfo no longer carries %s" % k)
        r.require(here == first, fn, fn.loc(rn.ast),
                  "verinfo built by %s has (seqnum, root hash, k) at %s; the read proxy builds %s, and both kinds of "
                  "tuple meet in one servermap" % (short(fn), sorted(here.items()), sorted(first.items())))
    fn = idx.func(RP + ".get_verinfo._build_verinfo")
    r.require(first["SEQ"] == 0 and first["ROOT"] == 1, fn, fn.loc(),
              "verinfo has seqnum at index %d and root hash at index %d; versions are ordered by comparing the "
              "tuples, which needs (seqnum, root hash) first" % (first["SEQ"], first["ROOT"]))
    # the servermap re-packs the tuple before using it as a key
    fn = idx.func(SMU + "._make_verinfo_hashable")
    fnorm = FlowNorm(fn)
    par = first_positional_params(fn)[0]
    for n in fn.cfg().nodes:
        if is_return(n):
            v = fnorm.resolve(n, n.ast.value)
            r.site(fn, n.ast, "verinfo re-pack")
            ok = isinstance(v, ast.Tuple) and len(v.elts) == first["len"]
            if ok:
                at = _node_of(fn, v)
                for i, e in enumerate(v.elts[:-1]):
                    ok = ok and fnorm.norm(at, e) == "%s[%d]" % (par, i)
            r.require(ok, fn, fn.loc(n.ast), "_make_verinfo_hashable moves verinfo fields: %s" % (
                src(fn, v) if v is not None else "?"))
    return first


def _origins(cfg, rd, node, e, depth=4):
    """Where the plain local `e` may have been bound when `node` runs: the ids of the defining CFG nodes (plain-name
    copies followed), None when `e` is not a bound local.  Locals are told apart by this, never by their spelling."""
    if not isinstance(e, ast.Name):
        return None
    ds = rd.get(node.id, {}).get(e.id)
    if not ds:
        return None
    out = set()
    for d in ds:
        if d < 0:
            out.add((d, e.id))          # the value of a parameter on entry
            continue
        v = assign_value(cfg.nodes[d], e.id)
        if isinstance(v, ast.Name) and depth > 0:
            sub = _origins(cfg, rd, cfg.nodes[d], v, depth - 1)
            if sub is not None:
                out |= sub
                continue
        out.add(d)
    return frozenset(out)


class _Returned:
    """The local collection a function builds and returns, identified by role: `holds(node, expr)` is true when
    the plain name `expr` can only hold, at `node`, an object the function returns."""

    def __init__(self, fn):
        self.fn = fn
        self.cfg = fn.cfg()
        self.rd = reaching_defs(self.cfg)
        self.origins = set()
        rets = [n for n in self.cfg.nodes if is_return(n)]
        if not rets:
            raise AnchorVanished("%s no longer returns the collection it builds" % short(fn))
        for n in rets:
            o = _origins(self.cfg, self.rd, n, n.ast.value) if n.ast.value is not None else None
            if not o or any(isinstance(x, tuple) for x in o):
                raise AnchorVanished("%s returns %s, not a collection it built in a local" % (
                    short(fn), src(fn, n.ast.value) if n.ast.value is not None else "nothing"))
            self.origins |= o

    def holds(self, node, e):
        o = _origins(self.cfg, self.rd, node, e)
        return bool(o) and o <= self.origins

    def entry_calls(self, node, tails=("add",)):
        """calls R.add(..) at `node` with R the returned collection"""
        return [c for c in node_calls(node) if isinstance(c.func, ast.Attribute) and c.func.attr in tails
                and self.holds(node, c.func.value)]

    def is_entry(self, node):
        """`node` enters something into the returned collection: R.add(..) / R.setdefault(..) / R[k] = v."""
        if self.entry_calls(node, ("add", "setdefault", "__setitem__")):
            return True
        a = node.ast
        if node.kind == "stmt" and isinstance(a, (ast.Assign, ast.AugAssign, ast.AnnAssign)):
            tgs = a.targets if isinstance(a, ast.Assign) else [a.target]
            flat = []
            for t in tgs:
                flat.extend(t.elts if isinstance(t, (ast.Tuple, ast.List)) else [t])
            return any(isinstance(t, ast.Subscript) and self.holds(node, t.value) for t in flat)
        return False


def _writer_constructions(idx, fn, writer_classes):
    """[(call, [ClassInfo])]: the calls in `fn` that build a share write proxy - a call of a local every reaching
    definition of which binds it to a write-proxy class (the class selection), or a call of such a class itself.
    The local is identified by that role, not by its name."""
    cfg = fn.cfg()
    rd = reaching_defs(cfg)

    def proxy(ci):
        return isinstance(ci, ClassInfo) and any(c is w for c in ci.mro() for w in writer_classes)
    out = []
    for n in cfg.nodes:
        for c in node_calls(n):
            if not isinstance(c.func, ast.Name):
                continue
            ds = rd.get(n.id, {}).get(c.func.id)
            if not ds:
                ci = idx.resolve_expr(fn.module, c.func)
                if proxy(ci):
                    out.append((c, [ci]))
                continue
            bound = []
            for d in sorted(ds):
                v = assign_value(cfg.nodes[d], c.func.id) if d >= 0 else None
                for _hop in range(4):           # class selection copied through plain names
                    if not (isinstance(v, ast.Name) and d >= 0):
                        break
                    ds2 = rd.get(d, {}).get(v.id)
                    if not ds2 or len(ds2) != 1 or min(ds2) < 0:
                        break
                    d = min(ds2)
                    v = assign_value(cfg.nodes[d], v.id)
                bound.append((v, idx.resolve_expr(fn.module, v) if v is not None else None))
            if not any(proxy(ci) for (_v, ci) in bound):
                continue
            for (v, ci) in bound:
                if not proxy(ci):
                    raise AnalysisError("%s: the class the share writers are built from may be %s" % (
                        fn.loc(c), src(fn, v) if v is not None else "an argument"))
            classes = []
            for (_v, ci) in bound:
                if not any(ci is x for x in classes):
                    classes.append(ci)
            out.append((c, classes))
    return out


def _mode_infeasible(f, mode="MODE_READ"):
    """Edge facts that cannot hold while self.mode == `mode`."""
    if not f:
        return False
    op, a, b = f
    if op in ("==", "!=") and "self.mode" in (a, b):
        other = b if a == "self.mode" else a
        if re.match(r"^MODE_\w+$", other or ""):
            return (op == "==") != (other == mode)
    if op in ("in", "not in") and a == "self.mode" and b and b.startswith("("):
        names = [x.strip() for x in b.strip("(),").split(",")]
        if all(re.match(r"^MODE_\w+$", x) for x in names if x):
            return (op == "in") != (mode in names)
    return False


# ---- the pool of servers still to be asked (C11.4) ---------------------------
POOL = "self.extra_servers"
QUERY = "self._do_query"
_COPIES = ("list", "tuple", "sorted", "set", "frozenset")
_ENQ = ("append", "add", "insert")
_MERGE = ("extend", "update")
_LOSE = ("pop", "remove", "clear", "discard", "difference_update", "intersection_update",
         "symmetric_difference_update")
_READ_ONLY = ("len", "bool", "any", "all", "enumerate", "reversed", "iter", "repr", "str") + _COPIES
_POOL_HARMLESS_METHODS = ("append", "extend", "insert", "sort", "reverse", "index", "count", "copy")
# the surveys this property rests on: the read, and the one a publish takes its sequence number from
_SURVEY_MODES = ("MODE_READ", "MODE_WRITE")


def _whole(e, fnm=None, at=None):
    """The expression `e` is a whole-collection copy of (x[:], list(x), x.copy(), ...); with `fnm`
    plain-name copies are followed as well."""
    for _i in range(12):
        if fnm is not None:
            e = fnm.resolve(at, e)
        if isinstance(e, ast.Subscript) and isinstance(e.slice, ast.Slice) and e.slice.lower is None \
                and e.slice.upper is None and e.slice.step is None:
            e = e.value
        elif isinstance(e, ast.Call) and isinstance(e.func, ast.Name) and e.func.id in _COPIES \
                and len(e.args) == 1 and not e.keywords and not isinstance(e.args[0], ast.Starred):
            e = e.args[0]
        elif isinstance(e, ast.Call) and isinstance(e.func, ast.Attribute) and e.func.attr == "copy" \
                and not e.args and not e.keywords:
            e = e.func.value
        else:
            break
    return e


def _is_empty_collection(e):
    return (isinstance(e, (ast.List, ast.Tuple, ast.Set)) and not e.elts) or \
        (isinstance(e, ast.Call) and isinstance(e.func, ast.Name) and e.func.id in _COPIES
         and not e.args and not e.keywords)


class _PoolFlow:
    """Conservation of the pool: a server that leaves ServermapUpdater.extra_servers is held in a local
    (carrier) or collected in a local collection (queue); at the normal exit of the function every carrier
    has been passed to self._do_query and every queue has been drained - by a loop that calls
    self._do_query(element) on each iteration, by a method of the class that does so with its parameter,
    or by being returned to callers that do."""

    def __init__(self, idx, cg, r, cls, qparam):
        self.idx, self.cg, self.r, self.cls, self.qparam = idx, cg, r, cls, qparam
        self.conf = {}        # qual -> (fn, entry-dirty parameter names, {node id: names made dirty there})
        self.viol = {}        # qual -> [(fn, ast node, message, witness)]
        self.sites = {}       # qual -> {key: (fn, ast node, label)}
        self.running = set()
        self.n_states = 0
        self.n_initial = 0

    # -- configuration -------------------------------------------------------
    def _conf(self, fn):
        return self.conf.setdefault(fn.qual, (fn, set(), {}))

    def analyse(self, fn):
        self._conf(fn)
        self._run(fn)

    def drain(self, m, param):
        (_f, ed, _s) = self._conf(m)
        if param not in ed:
            ed.add(param)
            self._run(m)

    def _run(self, fn):
        if fn.qual in self.running:
            return
        self.running.add(fn.qual)
        try:
            returned = self._flow(fn)
        finally:
            self.running.discard(fn.qual)
        if returned:
            self._callers(fn, returned)

    def _callers(self, fn, returned):
        if [1 for (_f, nd) in self.cg.refs_named(fn.name) if attr_path(nd) == "self." + fn.name]:
            raise AnalysisError("%s hands servers taken from the pool back to its caller and is passed around as a "
                                "value: its callers cannot be followed" % short(fn))
        changed = {}
        n_callers = 0
        for cs in self.cg.calls_named(fn.name):
            if call_name(cs.call) != "self." + fn.name or cs.fn.cls is None or \
                    not any(c is self.cls for c in cs.fn.cls.mro()):
                continue
            n_callers += 1
            at = _node_of(cs.fn, cs.call)
            st = at.ast
            names = set()
            if isinstance(st, ast.Expr) and st.value is cs.call:
                self.viol.setdefault(cs.fn.qual + "#discard", []).append(
                    (cs.fn, cs.call, "the servers %s took out of the pool of servers still to be asked are "
                     "discarded with its result: they are never queried" % short(fn), None))
                continue
            if not (at.kind == "stmt" and isinstance(st, ast.Assign) and st.value is cs.call and len(st.targets) == 1):
                raise AnalysisError("%s: the result of %s (servers taken from the pool) is used in a way that is not "
                                    "followed" % (cs.fn.loc(cs.call), short(fn)))
            tg = st.targets[0]
            for i in returned:
                if i is None and isinstance(tg, ast.Name):
                    names.add(tg.id)
                elif i is not None and isinstance(tg, (ast.Tuple, ast.List)) and i < len(tg.elts) \
                        and isinstance(tg.elts[i], ast.Name) and not any(isinstance(e, ast.Starred) for e in tg.elts):
                    names.add(tg.elts[i].id)
                else:
                    raise AnalysisError("%s: the result of %s is not unpacked into plain names" % (
                        cs.fn.loc(cs.call), short(fn)))
            (_f, _ed, seeds) = self._conf(cs.fn)
            if not names <= seeds.get(at.id, set()):
                seeds.setdefault(at.id, set()).update(names)
                changed[cs.fn.qual] = cs.fn
            self.sites.setdefault(cs.fn.qual, {})[("adopt", at.id)] = (cs.fn, cs.call, "queried by the caller")
        if not n_callers:
            raise AnalysisError("%s returns servers taken from the pool, and nothing calls it" % short(fn))
        for f in changed.values():
            self._run(f)

    # -- one function ----------------------------------------------------------
    def _queries_each(self, fn, lp):
        """Every iteration of the loop `lp` passes its element to self._do_query before the next
        iteration starts or the loop / the function is left."""
        cfg = fn.cfg()
        tv = lp.ast.target
        if not isinstance(tv, ast.Name):
            return False

        def asks(n):
            for c in node_calls(n):
                if call_name(c) == QUERY:
                    a0 = arg(c, 0, self.qparam)
                    if isinstance(a0, ast.Name) and a0.id == tv.id:
                        return True
            return False

        def tr(n, lab, nx, st):
            if lab == "exc":
                return None
            if n is lp:
                return 1 if (st == 0 and lab == "iter") else None
            if n.kind in ("exit", "raise") or asks(n) or tv.id in node_stores(n):
                return None
            return 1
        visited, _p = explore(cfg, 0, tr, start=lp)
        for (i, st) in visited:
            n = cfg.nodes[i]
            if st == 1 and (n is lp or n.kind == "exit"):
                return False
            if st == 1 and tv.id in node_stores(n) and not asks(n):
                return False
        return True

    def _flow(self, fn):
        (_f, entry_dirty, seeds) = self._conf(fn)
        cfg = fn.cfg()
        fnm = FlowNorm(fn, depth=8)
        found = {}
        sites = self.sites.setdefault(fn.qual, {})
        returned = set()
        me = self

        def tr(a, lab, nx, st):
            if lab == "exc":
                return None
            car, dirty, modes, bound = st
            f = fnm.edge_fact(a, lab)
            if f:
                modes = frozenset(m for m in modes if not _mode_infeasible(f, m))
                if not modes:
                    return None
            if a.kind in ("entry", "exit", "raise") or a.ast is None:
                return (car, dirty, modes, bound)
            car, dirty = set(car), set(dirty)

            def bad(key, node, msg):
                found.setdefault((a.id, key), (a, st, node, msg))
            calls = node_calls(a)
            pops = [c for c in calls if call_name(c) == POOL + ".pop"]
            placed = set()
            # ---- uses (the right-hand side is evaluated before any store) -----
            for c in calls:
                nm, tail = call_name(c), call_tail(c)
                recv = c.func.value if isinstance(c.func, ast.Attribute) else None
                if nm == QUERY:
                    a0 = arg(c, 0, me.qparam)
                    if isinstance(a0, ast.Name):
                        car.discard(a0.id)
                        dirty.discard(a0.id)      # a single server handed back by a callee
                    for p in pops:
                        if a0 is p:
                            placed.add(id(p))
                elif tail in _ENQ and isinstance(recv, ast.Name):
                    for x in (c.args[1:2] if tail == "insert" else c.args[:1]):
                        if isinstance(x, ast.Name) and x.id in car:
                            car.discard(x.id)
                            dirty.add(recv.id)
                        for p in pops:
                            if x is p:
                                placed.add(id(p))
                                dirty.add(recv.id)
                elif tail in _MERGE and isinstance(recv, ast.Name) and c.args:
                    y = _whole(c.args[0])
                    if isinstance(y, ast.Name) and y.id in dirty and y.id != recv.id:
                        dirty.discard(y.id)
                        dirty.add(recv.id)
                elif tail in _LOSE and isinstance(recv, ast.Name) and recv.id in dirty:
                    if tail == "clear":
                        bad("clear:" + recv.id, c, "'%s' holds servers taken out of the pool of servers still to be "
                            "asked and is emptied before they are queried" % recv.id)
                        dirty.discard(recv.id)
                    else:
                        raise AnalysisError("%s: %s.%s(..) takes a server back out of a collection of servers that "
                                            "left the pool; this is not followed" % (fn.loc(c), recv.id, tail))
                elif nm.startswith("self.") and nm.count(".") == 1:
                    m = me.cls.lookup(tail)
                    actual = [(i, x) for i, x in enumerate(c.args)] + [(kw.arg, kw.value) for kw in c.keywords]
                    for (pos, x) in actual:
                        y = _whole(x)
                        if not isinstance(y, ast.Name):
                            continue
                        if y.id in car:
                            raise AnalysisError("%s: a server taken from the pool is handed to %s, not to %s; this "
                                                "is not followed" % (fn.loc(c), nm, QUERY))
                        if y.id not in dirty:
                            continue
                        ps = first_positional_params(m) if m is not None else []
                        pname = pos if isinstance(pos, str) else (ps[pos] if pos < len(ps) else None)
                        if m is None or pname is None or pname not in m.params:
                            raise AnalysisError("%s: servers taken from the pool are handed to %s, which cannot be "
                                                "resolved" % (fn.loc(c), nm))
                        sites[("hand", a.id)] = (fn, c, "queue handed to %s(%s)" % (tail, pname))
                        me.drain(m, pname)
                        dirty.discard(y.id)
            # ---- return: the caller takes over ----------------------------------
            if is_return(a) and a.ast.value is not None:
                v = a.ast.value
                if isinstance(v, ast.Name):
                    for tok in sorted(t for t in dirty if t.startswith(v.id + "#")):
                        returned.add(int(tok.split("#")[1]))
                        dirty.discard(tok)
                for (i, e) in (list(enumerate(v.elts)) if isinstance(v, ast.Tuple) else [(None, v)]):
                    y = _whole(e)
                    if isinstance(y, ast.Name) and (y.id in dirty or y.id in car):
                        returned.add(i)
                        dirty.discard(y.id)
                        car.discard(y.id)
                    for p in pops:
                        if e is p:
                            placed.add(id(p))
                            returned.add(i)
            # ---- a loop that asks every element ------------------------------------
            if a.kind == "iter":
                y = _whole(a.ast.iter)
                if isinstance(y, ast.Name) and y.id in dirty and lab == "done":
                    if me._queries_each(fn, a):
                        sites[("loop", a.id)] = (fn, a.ast, "every collected server queried")
                    else:
                        bad("loop:" + y.id, a.ast, "the loop over '%s' - servers taken out of the pool of servers still "
                            "to be asked - can pass over an element, or stop early, without %s(<element>, ..): that "
                            "server is never asked" % (y.id, QUERY))
                    dirty.discard(y.id)
            # ---- stores ----------------------------------------------------------------
            stored = {s for s in node_stores(a) if "." not in s and not s.endswith("[]")}
            if a.kind == "iter" and lab != "iter":
                stored = set()
            for s in sorted(stored):
                if s in car:
                    bad("car:" + s, a.ast, "'%s' still holds a server that was taken out of the pool of servers still "
                        "to be asked (%s) and not passed to %s when it is re-bound: that server is never asked"
                        % (s, POOL, QUERY))
                    car.discard(s)
                if s in dirty:
                    v = assign_value(a, s)
                    y = _whole(v) if v is not None else None
                    if isinstance(y, ast.Name) and y.id == s:
                        continue
                    bad("queue:" + s, a.ast, "'%s' holds servers taken out of the pool of servers still to be asked and "
                        "is re-bound before they are queried" % s)
                    dirty.discard(s)
                for tok in sorted(t for t in dirty if t.startswith(s + "#")):
                    if isinstance(a.ast, ast.Assign) and isinstance(a.ast.value, ast.Name) and a.ast.value.id == s:
                        continue            # being unpacked here, see below
                    bad("queue:" + tok, a.ast, "'%s' holds servers taken out of the pool of servers still to be asked "
                        "and is re-bound before they are queried" % s)
                    dirty.discard(tok)
            # ---- a tuple of locals kept in a local (t = q, other) and taken apart again (q2, o2 = t) ------
            if a.kind == "stmt" and isinstance(a.ast, ast.Assign) and len(a.ast.targets) == 1:
                tg, v = a.ast.targets[0], a.ast.value
                if isinstance(tg, ast.Name) and isinstance(v, ast.Tuple):
                    for i, e in enumerate(v.elts):
                        y = _whole(e)
                        if isinstance(y, ast.Name) and y.id != tg.id and (y.id in dirty or y.id in car):
                            dirty.discard(y.id)
                            car.discard(y.id)
                            dirty.add("%s#%d" % (tg.id, i))
                elif isinstance(tg, (ast.Tuple, ast.List)) and isinstance(v, ast.Name):
                    for i, e in enumerate(tg.elts):
                        tok = "%s#%d" % (v.id, i)
                        if tok in dirty and isinstance(e, ast.Name):
                            dirty.discard(tok)
                            dirty.add(e.id)
            # ---- servers leaving the pool ------------------------------------------------
            for p in pops:
                sites[("pop", a.id)] = (fn, p, "server leaves the pool")
                if id(p) in placed:
                    continue
                if a.kind == "stmt" and isinstance(a.ast, ast.Assign) and a.ast.value is p \
                        and len(a.ast.targets) == 1 and isinstance(a.ast.targets[0], ast.Name):
                    car.add(a.ast.targets[0].id)
                elif a.kind == "stmt" and isinstance(a.ast, ast.Expr) and a.ast.value is p:
                    bad("drop", p, "a server is taken out of the pool of servers still to be asked (%s) and dropped at "
                        "once: it is never asked" % src(fn, p))
                else:
                    raise AnalysisError("%s: the server taken from the pool by %s is used in a way that is not "
                                        "followed" % (fn.loc(p), src(fn, p)))
            for nm in seeds.get(a.id, ()):
                dirty.add(nm)
            # ---- (re-)binding of the pool ---------------------------------------------------
            if POOL in node_stores(a) and isinstance(a.ast, (ast.Assign, ast.AnnAssign)):
                v = assign_value(a, POOL)
                if v is None or any(attr_path(x) == POOL for x in ast.walk(v)):
                    raise AnalysisError("%s: the pool of servers still to be asked is re-built by %s; servers leaving "
                                        "it this way are not followed" % (fn.loc(a.ast), src(fn, a.ast)))
                if not bound:
                    core = _whole(v, fnm, a)
                    sites[("init", a.id)] = (fn, a.ast, "initial pool")
                    me.n_initial += 1
                    if not (isinstance(core, ast.Call) and re.match(r"^[\w.]*_storage_broker\.\w+\(", fnm.norm(a, core))):
                        bad("init", a.ast, "the pool of servers still to be asked starts as %s, which is not a copy of "
                            "the storage broker's whole server list: the servers left out are never asked"
                            % src(fn, v))
                    bound = True
                elif _is_empty_collection(v):
                    bad("emptied", a.ast, "the pool of servers still to be asked is emptied (%s) in a survey that "
                        "queries only part of the servers at first (possible modes: %s): the servers left in it are "
                        "never asked" % (src(fn, a.ast), ", ".join(sorted(modes))))
                else:
                    raise AnalysisError("%s: the pool of servers still to be asked is replaced by %s; this is not "
                                        "followed" % (fn.loc(a.ast), src(fn, a.ast)))
            return (frozenset(car), frozenset(dirty), modes, bound)

        init = (frozenset(), frozenset(entry_dirty), frozenset(_SURVEY_MODES), False)
        visited, parent = explore(cfg, init, tr)
        self.n_states += len(visited)
        out = []
        seen = set()
        for (nid, st) in sorted(visited, key=lambda x: (x[0], sorted(x[1][0]), sorted(x[1][1]), sorted(x[1][2]), x[1][3])):
            if nid != cfg.exit.id:
                continue
            for nm in sorted(st[0]):
                if ("car", nm) not in seen:
                    seen.add(("car", nm))
                    w = witness(cfg, parent, (nid, st))
                    out.append((fn, None, "%s can return with a server that it took out of the pool of servers still to "
                                "be asked (%s) still in '%s', never passed to %s: the server is in neither the pool nor "
                                "the outstanding queries, so it is never asked (path: %s)"
                                % (short(fn), POOL, nm, QUERY, w.brief()), w))
            for nm in sorted(st[1]):
                if ("q", nm) not in seen:
                    seen.add(("q", nm))
                    w = witness(cfg, parent, (nid, st))
                    out.append((fn, None, "%s can return with servers %s collected in '%s' that are not passed to %s: "
                                "they are never asked (path: %s)"
                                % (short(fn), "handed to it for querying" if nm in entry_dirty else
                                   "it took out of the pool of servers still to be asked", nm, QUERY, w.brief()), w))
        for key in sorted(found, key=lambda k: (k[0], k[1])):
            (a, st, node, msg) = found[key]
            w = witness(cfg, parent, (a.id, st))
            out.append((fn, node, "%s (path: %s)" % (msg, w.brief()), w))
        self.viol[fn.qual] = out
        return returned

    def emit(self):
        for q in sorted(self.sites):
            for key in sorted(self.sites[q], key=str):
                (fn, node, label) = self.sites[q][key]
                self.r.site(fn, node, label)
        for q in sorted(self.viol):
            for (fn, node, msg, w) in self.viol[q]:
                self.r.violation(fn, fn.loc(node) if node is not None else fn.loc(), msg, w)


def _pool_references(idx, cg, cls, r):
    """Every use of the pool attribute in the package: reads are harmless, .pop() is followed by _PoolFlow,
    anything else that can take a server out is reported (fail closed).  -> functions to analyse."""
    todo = {}
    n_pop = 0
    parents = {}

    def parent_of(fn, node):
        pm = parents.get(fn.qual)
        if pm is None:
            pm = parents[fn.qual] = {}
            for p_ in ast.walk(fn.node):
                for c_ in ast.iter_child_nodes(p_):
                    pm[id(c_)] = p_
        return pm.get(id(node))
    attr = POOL.split(".")[-1]
    for (fn, nd) in cg.refs_named(attr) + cg.attr_stores(attr):
        if not isinstance(nd, ast.Attribute):
            continue                       # a local that happens to share the name
        inside = fn.cls is not None and any(c is cls for c in fn.cls.mro())
        if not inside or attr_path(nd) != POOL:
            raise AnalysisError("%s: the updater's pool of servers still to be asked is used as %s outside the "
                                "updater's own methods; this is not followed" % (fn.loc(nd), src(fn, nd)))
        par = parent_of(fn, nd)
        if isinstance(nd.ctx, ast.Store):
            if isinstance(par, (ast.Assign, ast.AnnAssign)):
                todo[fn.qual] = fn
                continue
            if isinstance(par, ast.AugAssign) and isinstance(par.op, ast.Add):
                continue
            raise AnalysisError("%s: the pool of servers still to be asked is bound by %s; this is not followed"
                                % (fn.loc(nd), src(fn, par) if par is not None else "?"))
        if isinstance(nd.ctx, ast.Del):
            raise AnalysisError("%s: the pool of servers still to be asked is deleted" % fn.loc(nd))
        if isinstance(par, ast.Attribute) and par.value is nd:
            gp = parent_of(fn, par)
            is_call = isinstance(gp, ast.Call) and gp.func is par
            if is_call and par.attr == "pop":
                n_pop += 1
                todo[fn.qual] = fn
                continue
            if is_call and par.attr == "clear":
                r.violation(fn, fn.loc(gp), "the pool of servers still to be asked is emptied by %s: the servers left "
                            "in it are never asked" % src(fn, gp))
                continue
            if is_call and par.attr in _POOL_HARMLESS_METHODS:
                continue
            raise AnalysisError("%s: %s may take servers out of the pool of servers still to be asked; this is not "
                                "followed" % (fn.loc(par), src(fn, gp if is_call else par)))
        if isinstance(par, ast.Subscript) and par.value is nd:
            if isinstance(par.ctx, ast.Load):
                continue
            raise AnalysisError("%s: %s changes the pool of servers still to be asked in place; this is not followed"
                                % (fn.loc(par), src(fn, par)))
        if isinstance(par, ast.Call) and isinstance(par.func, ast.Name) and par.func.id in _READ_ONLY and nd in par.args:
            continue
        if isinstance(par, (ast.For, ast.comprehension)) and par.iter is nd:
            continue
        if isinstance(par, (ast.Compare, ast.BoolOp, ast.If, ast.While, ast.IfExp, ast.Assert)) or \
                (isinstance(par, ast.UnaryOp) and isinstance(par.op, ast.Not)):
            continue
        raise AnalysisError("%s: the pool of servers still to be asked escapes through %s; this is not followed"
                            % (fn.loc(nd), src(fn, par) if par is not None else "?"))
    if not n_pop:
        raise AnchorVanished("no server is ever taken out of %s with .pop()" % POOL)
    return todo


# ---- how many shares of a version were found: distinct share numbers, not placements (C11.2) -----------
_VER = ("ver",)                     # the version (verinfo) of the current iteration over the version map
_SHARES = ("shares",)               # the set of (shnum, server, timestamp) placements filed under that version
_DISTINCT = ("count", "distinct")   # number of distinct share numbers among them
_PLACEMENTS = ("count", "placements")   # number of placements: a share number held by two servers counts twice
_ORD_NEG = {ast.Lt: ast.GtE, ast.GtE: ast.Lt, ast.Gt: ast.LtE, ast.LtE: ast.Gt}
_MAP_ITEMS = r"^(list\()?self\.make_versionmap\(\)\.items\(\)\)?$"
_AVAIL_ITEMS = r"^(list\()?self\.shares_available\(\)\.items\(\)\)?$"


def _core(s):
    """A symbolic value without the note of which field of shares_available()'s entry it came through."""
    while s[0] == "via":
        s = s[2]
    return s


def _bind_pattern(tg, val, out):
    """Bind the names of the assignment target `tg` to the parts of the symbolic value `val`."""
    if isinstance(tg, ast.Name):
        out[tg.id] = val
        return True
    if isinstance(tg, (ast.Tuple, ast.List)) and not any(isinstance(e, ast.Starred) for e in tg.elts):
        c = _core(val)
        if c[0] == "tuple" and len(c[1]) == len(tg.elts):
            return all(_bind_pattern(t, v, out) for t, v in zip(tg.elts, c[1]))
    return False


class _PerVersion:
    """Symbolic evaluation of expressions inside one iteration over the version map (or over shares_available()):
    which expression is the version, the set of its share placements, a collection of its share numbers, a count of
    distinct share numbers or of placements, a field of the verinfo tuple.  Locals are followed through their
    reaching definitions, a set that is built empty and filled by a loop over the placements is recognised."""

    def __init__(self, fn, sh_pos, sh_len):
        self.fn = fn
        self.cfg = fn.cfg()
        self.fnm = FlowNorm(fn, depth=8)
        self.rd = reaching_defs(self.cfg)
        self.sh_pos, self.sh_len = sh_pos, sh_len
        self.loop, self.bind = None, {}

    def enter(self, loop, bind):
        """`loop`: the CFG node of the for-loop over the versions (None inside a comprehension)."""
        self.loop, self.bind = loop, dict(bind)

    def _bound(self, node, name):
        if name not in self.bind:
            return None
        if self.loop is not None and node is not None and \
                self.rd.get(node.id, {}).get(name) != frozenset([self.loop.id]):
            return None             # re-bound inside the loop body
        return self.bind[name]

    def _is_shnum(self, tg, elt):
        """`elt` is the share number of the placement the loop / comprehension target `tg` is bound to."""
        if isinstance(tg, (ast.Tuple, ast.List)) and len(tg.elts) == self.sh_len \
                and all(isinstance(e, ast.Name) for e in tg.elts):
            return isinstance(elt, ast.Name) and elt.id == tg.elts[self.sh_pos].id \
                and [e.id for e in tg.elts].count(elt.id) == 1
        if isinstance(tg, ast.Name):
            return isinstance(elt, ast.Subscript) and isinstance(elt.value, ast.Name) and elt.value.id == tg.id \
                and isinstance(elt.slice, ast.Constant) and elt.slice.value == self.sh_pos \
                and not isinstance(elt.slice.value, bool)
        return False

    def sym(self, node, e, depth=12):
        if depth <= 0:
            return ("opaque", "...")
        if isinstance(e, ast.Name):
            b = self._bound(node, e.id)
            if b is not None:
                return b
            if node is not None:
                acc = self._filled(node, e.id)
                if acc is not None:
                    return acc
                d = self.fnm.env_at(node).defs.get(e.id)
                if d is None:
                    d = self._comprehension_def(node, e.id)
                if d is not None:
                    return self.sym(node, d, depth - 1)
            return ("opaque", e.id)
        if isinstance(e, ast.Tuple):
            return ("tuple", tuple(self.sym(node, x, depth - 1) for x in e.elts))
        if isinstance(e, ast.Subscript):
            i = e.slice.value if isinstance(e.slice, ast.Constant) and isinstance(e.slice.value, int) \
                and not isinstance(e.slice.value, bool) else None
            c = _core(self.sym(node, e.value, depth - 1))
            if i is not None and i >= 0:
                if c == _VER:
                    return ("verfield", i)
                if c[0] == "tuple" and i < len(c[1]):
                    return c[1][i]
            return ("opaque", norm_plain(e))
        if isinstance(e, ast.Call) and isinstance(e.func, ast.Name) and len(e.args) == 1 and not e.keywords \
                and not isinstance(e.args[0], ast.Starred):
            a = _core(self.sym(node, e.args[0], depth - 1))
            f = e.func.id
            if f == "len":
                if a == ("shnums", "set"):
                    return _DISTINCT
                if a == ("shnums", "list") or a == _SHARES:
                    return _PLACEMENTS
            elif f in ("set", "frozenset"):
                if a[0] == "shnums":
                    return ("shnums", "set")
                if a == _SHARES:
                    return _SHARES
            elif f in ("list", "tuple", "sorted"):
                if a[0] == "shnums" or a == _SHARES:
                    return a
            return ("opaque", norm_plain(e))
        if isinstance(e, (ast.ListComp, ast.SetComp, ast.GeneratorExp)) and len(e.generators) == 1:
            g = e.generators[0]
            if not g.ifs and not g.is_async and _core(self.sym(node, g.iter, depth - 1)) == _SHARES \
                    and self._is_shnum(g.target, e.elt):
                return ("shnums", "set" if isinstance(e, ast.SetComp) else "list")
        return ("opaque", norm_plain(e))

    def _comprehension_def(self, node, name):
        """The comprehension a local was bound to (the flow normaliser does not substitute display values), when
        that is its only reaching definition and no method is ever called on the local."""
        ds = self.rd.get(node.id, {}).get(name)
        if not ds or len(ds) != 1 or min(ds) < 0:
            return None
        v = assign_value(self.cfg.nodes[min(ds)], name)
        if not isinstance(v, (ast.ListComp, ast.SetComp)):
            return None
        for m in self.cfg.nodes:
            for c in node_calls(m):
                if isinstance(c.func, ast.Attribute) and isinstance(c.func.value, ast.Name) and c.func.value.id == name:
                    return None
        return v

    def _filled(self, node, name):
        """`name` holds, at `node`, a set (list) that was created empty in this iteration and then filled by one loop
        over the version's placements that adds (appends) the share number of every element -> ("shnums", kind);
        an empty collection filled in any other way -> opaque; anything else -> None."""
        ds = self.rd.get(node.id, {}).get(name)
        if not ds or len(ds) != 1 or min(ds) < 0:
            return None
        dn = self.cfg.nodes[min(ds)]
        v = assign_value(dn, name)
        if isinstance(v, ast.Call) and isinstance(v.func, ast.Name) and v.func.id in ("set", "list") \
                and not v.args and not v.keywords:
            kind = v.func.id
        elif isinstance(v, ast.List) and not v.elts:
            kind = "list"
        else:
            return None
        bad = ("opaque", "'%s', not filled with the share number of every placement" % name)
        fills = [(m, c) for m in self.cfg.nodes for c in node_calls(m)
                 if isinstance(c.func, ast.Attribute) and isinstance(c.func.value, ast.Name) and c.func.value.id == name
                 and dn.id in (self.rd.get(m.id, {}).get(name) or ())]
        if not fills:
            return bad
        inner = None
        for (m, c) in fills:
            if c.func.attr != ("add" if kind == "set" else "append") or len(c.args) != 1 or c.keywords:
                return bad
            x = c.args[0]
            xn = x if isinstance(x, ast.Name) else (x.value if isinstance(x, ast.Subscript) else None)
            if not isinstance(xn, ast.Name):
                return bad
            src_ = self.rd.get(m.id, {}).get(xn.id) or ()
            if len(src_) != 1 or min(src_) < 0 or self.cfg.nodes[min(src_)].kind != "iter":
                return bad
            lp = self.cfg.nodes[min(src_)]
            if (inner is not None and lp is not inner) or lp is self.loop:
                return bad
            inner = lp
            if not self._is_shnum(lp.ast.target, x) or _core(self.sym(lp, lp.ast.iter)) != _SHARES:
                return bad
        fill_ids = {m.id for (m, _c) in fills}

        def tr(a, lab, nx, st):
            if lab == "exc":
                return None
            if a is inner:
                return 1 if (st == 0 and lab == "iter") else None
            if a.id in fill_ids or a.kind in ("exit", "raise"):
                return None
            return 1
        visited, _p = explore(self.cfg, 0, tr, start=inner)
        if any(st == 1 and (i == inner.id or self.cfg.nodes[i].kind == "exit") for (i, st) in visited):
            return bad              # an element can be passed over, or the loop left early
        if find_path_avoiding(self.cfg, lambda x: x is node, gate_edge=lambda a, lab: a is inner and lab == "done",
                              start=dn, skip_exc_edges=True):
            return bad              # read before the loop has finished
        if self.loop is not None and find_path_avoiding(self.cfg, lambda x: x is node, gate_node=lambda a: a is dn,
                                                        start=self.loop, skip_exc_edges=True):
            return bad              # not reset for each version
        return ("shnums", kind)


def _count_vs_k(pv, node, cond, pol):
    """The ordering comparison `cond` (taken with polarity `pol`) as (rel, count side, k side), rel in '>=' '<',
    meaning "count rel k"; None for anything else."""
    e = cond
    while isinstance(e, ast.UnaryOp) and isinstance(e.op, ast.Not):
        e, pol = e.operand, not pol
    if not (isinstance(e, ast.Compare) and len(e.ops) == 1):
        return None
    op = type(e.ops[0])
    if not pol:
        op = _ORD_NEG.get(op)
    if op not in _ORD_NEG:
        return None
    l, r_ = pv.sym(node, e.left), pv.sym(node, e.comparators[0])
    return {ast.GtE: (">=", l, r_), ast.LtE: (">=", r_, l), ast.Lt: ("<", l, r_), ast.Gt: ("<", r_, l)}[op]


def _available_summary(idx, sh_pos, sh_len):
    """What ServerMap.shares_available() files under each version -> (fn, storing CFG node, symbolic value); the
    fields of a tuple value carry a note of their position."""
    fn = idx.func(SM + ".shares_available")
    pv = _PerVersion(fn, sh_pos, sh_len)
    loops = [n for n in pv.cfg.nodes if n.kind == "iter" and re.match(_MAP_ITEMS, pv.fnm.norm(n, n.ast.iter))]
    if len(loops) != 1:
        raise AnchorVanished("shares_available: loop over the version map")
    lp = loops[0]
    tg = lp.ast.target
    if not (isinstance(tg, (ast.Tuple, ast.List)) and len(tg.elts) == 2 and all(isinstance(e, ast.Name) for e in tg.elts)):
        raise AnalysisError("%s: shares_available() no longer takes the version map apart as (version, shares)"
                            % fn.loc(lp.ast))
    pv.enter(lp, {tg.elts[0].id: _VER, tg.elts[1].id: _SHARES})
    ret = _Returned(fn)
    found = []
    for n in pv.cfg.nodes:
        if not ret.is_entry(n):
            continue
        a = n.ast
        if not (isinstance(a, ast.Assign) and len(a.targets) == 1 and isinstance(a.targets[0], ast.Subscript)):
            raise AnalysisError("%s: shares_available() files a version by %s; this is not followed"
                                % (fn.loc(a), src(fn, a)))
        if _core(pv.sym(n, a.targets[0].slice)) != _VER:
            raise AnalysisError("%s: shares_available() files an entry under %s, not under the version"
                                % (fn.loc(a), src(fn, a.targets[0].slice)))
        found.append((n, pv.sym(n, a.value)))
    if len(found) != 1:
        raise AnchorVanished("shares_available: the one store that files a version's share count")
    n, val = found[0]
    if val[0] == "tuple":
        val = ("tuple", tuple(("via", i, x) for i, x in enumerate(val[1])))
    return (fn, n, val)


# ---- shape-independent value of the ServerMap queries (the symbolic evaluation written for C14.11) ------------------
# Used where a query is no longer written in the loop / comprehension shape the rules below take apart (helpers
# extracted, one shared per-version table, ...).  An own evaluator instance: the problems it records are reported here.
_SYM = {}
W_ALL, W_GE, W_LT, W_NEWER = _C14.W_ALL, _C14.W_GE, _C14.W_LT, _C14.W_NEWER


class _NotLoopShaped(Exception):
    """The legacy (shape-bound) analysis met a query that is not written as it expects; carries its old verdict."""

    def __init__(self, fn, node, msg):
        Exception.__init__(self, msg)
        self.fn, self.node, self.msg = fn, node, msg


def _sym_value(idx, name, shape):
    """-> (symbolic value of ServerMap.<name>() | None, why it is undecided)."""
    if shape is None or shape.get("SEQ") != 0 or shape.get("K") != 5:
        return None, "the verinfo no longer has seqnum at 0 and k at 5, which the symbolic evaluation assumes"
    if _SYM.get("idx") is not idx:
        _SYM.clear()
        _SYM.update(idx=idx, ev=_C14._SMEval(idx), told=set())
    try:
        return _SYM["ev"].method(name), None
    except _C14._Undecided as e:
        return None, str(e)


def _sym_problems(r):
    """Report (once) what the symbolic evaluation found wrong on its way; -> number of problems known so far."""
    ev = _SYM.get("ev")
    if ev is None:
        return 0
    for (pf, node, msg) in ev.problems:
        key = (pf.qual, msg)
        if key not in _SYM["told"]:
            _SYM["told"].add(key)
            r.violation(pf, pf.loc(node), msg + " - so recoverable_versions() / best_recoverable_version() and the "
                        "MODE_READ completion test can settle on a version that cannot be read")
    return len(ev.problems)


def _recoverability_symbolic(idx, r, fn, name, want, what, shape):
    """recoverable_versions() / unrecoverable_versions() decided by their symbolic value: exactly the versions with
    k <= distinct share numbers / distinct share numbers < k.  False when the evaluation does not decide."""
    val, _why = _sym_value(idx, name, shape)
    if val is None:
        return False
    r.site(fn, None, "%s: decided by symbolic evaluation" % what)
    _sym_problems(r)
    if val[0] != "verset":
        return False
    WANT = W_GE if want == ">=" else W_LT
    if val[1] - WANT:
        r.violation(fn, fn.loc(), "%s reports as %s versions %s" % (short(fn), what, _C14._worlds_txt(val[1] - WANT)))
    if WANT - val[1]:
        r.violation(fn, fn.loc(), "%s leaves out versions %s: a version with its shares located is then neither "
                    "recoverable nor unrecoverable for the reader" % (short(fn), _C14._worlds_txt(WANT - val[1])))
    return True


def _recoverability(idx, r, q, want, what, iK, sh_pos, sh_len, avail, told, shape=None):
    fn = idx.func(q)
    try:
        _recoverability_loops(idx, r, q, want, what, iK, sh_pos, sh_len, avail, told)
    except _NotLoopShaped as e:
        if not _recoverability_symbolic(idx, r, fn, fn.name, want, what, shape):
            # neither shape is recognised: not decided (a restructured but faithful query must not raise an alarm)
            raise AnalysisError("%s: %s, and its symbolic evaluation does not decide it either: %s" % (
                e.fn.loc(e.node), e.msg, _sym_value(idx, fn.name, shape)[1] or "not a set of versions"))
    except AnchorVanished:
        if not _recoverability_symbolic(idx, r, fn, fn.name, want, what, shape):
            raise


def _recoverability_loops(idx, r, q, want, what, iK, sh_pos, sh_len, avail, told):
    """ServerMap.recoverable_versions() / unrecoverable_versions(): a version is collected only behind the test
    "number of distinct share numbers `want` k", whether the function walks the version map itself or derives its
    answer from shares_available() (then the count that shares_available() files must be the distinct one)."""
    fn = idx.func(q)
    pv = _PerVersion(fn, sh_pos, sh_len)
    cfg, fnm = pv.cfg, pv.fnm
    K = ("verfield", iK)

    def source(at, it):
        s = fnm.norm(at, it)
        return "map" if re.match(_MAP_ITEMS, s) else ("avail" if re.match(_AVAIL_ITEMS, s) else None)

    def bind_target(tg, kind, where):
        out = {}
        ok = isinstance(tg, (ast.Tuple, ast.List)) and len(tg.elts) == 2 and isinstance(tg.elts[0], ast.Name)
        if ok:
            out[tg.elts[0].id] = _VER
            ok = _bind_pattern(tg.elts[1], _SHARES if kind == "map" else avail()[2], out) and \
                (kind != "map" or isinstance(tg.elts[1], ast.Name))
        if not ok:
            raise AnalysisError("%s: %s takes the entries of %s apart as %s; this is not followed" % (
                fn.loc(where), short(fn), "the version map" if kind == "map" else "shares_available()", src(fn, tg)))
        return out

    def right(f):
        return f is not None and f[0] == want and _core(f[1]) == _DISTINCT and _core(f[2]) == K

    def report(where, facts, w=None):
        """No test "distinct shares `want` k" guards the version collected at `where`."""
        for (c, f) in facts:
            if f is None or _core(f[1]) != _PLACEMENTS or K not in (_core(f[2]),):
                continue
            if f[1][0] == "via":
                (afn, an, _v) = avail()
                if afn.qual not in told:
                    told.add(afn.qual)
                    ent = an.ast.value.elts[f[1][1]] if isinstance(an.ast.value, ast.Tuple) else an.ast.value
                    r.violation(afn, afn.loc(an.ast), "shares_available() files %s - the number of share placements "
                                "(shnum, server, timestamp), in which a share number held by two servers counts twice - "
                                "as the share count of a version, and %s decides '%s' by comparing that count with k: a "
                                "version with fewer than k distinct shares passes for recoverable, so "
                                "best_recoverable_version() and the MODE_READ completion test settle on a version that "
                                "cannot be read" % (src(afn, ent), short(fn), what))
                return
            r.violation(fn, fn.loc(c), "%s compares %s - the number of share placements, in which a share number held "
                        "by two servers counts twice - with k: a version is reported %s without k distinct share "
                        "numbers being known" % (short(fn), src(fn, c), what), w)
            return
        seen = ", ".join(src(fn, c) for (c, f) in facts if f is not None)
        r.violation(fn, fn.loc(where), "a version is reported %s without comparing its number of distinct shares "
                    "with k = verinfo[%d]%s%s" % (what, iK, " (tests seen: %s)" % seen if seen else "",
                                                  " (path: %s)" % w.brief() if w is not None else ""), w)

    # -- (b) the answer is one comprehension over the version map / over shares_available()
    comps = []
    for n in cfg.nodes:
        if not is_return(n) or n.ast.value is None:
            continue
        v = fnm.resolve(n, n.ast.value)
        if isinstance(v, ast.Call) and isinstance(v.func, ast.Name) and v.func.id in ("set", "frozenset", "list", "tuple") \
                and len(v.args) == 1 and not v.keywords:
            v = fnm.resolve(n, v.args[0])
        comps.append((n, v if isinstance(v, (ast.ListComp, ast.SetComp, ast.GeneratorExp)) else None))
    if comps and all(c is not None for (_n, c) in comps):
        for (n, comp) in comps:
            r.site(fn, comp, what)
            if len(comp.generators) != 1 or comp.generators[0].is_async:
                raise AnalysisError("%s: %s builds its answer from nested comprehensions; this is not followed"
                                    % (fn.loc(comp), short(fn)))
            g = comp.generators[0]
            kind = source(n, g.iter)
            if kind is None:
                raise _NotLoopShaped(fn, comp, "%s does not iterate over the whole version map" % short(fn))
            pv.enter(None, bind_target(g.target, kind, comp))
            r.require(_core(pv.sym(n, comp.elt)) == _VER, fn, fn.loc(comp.elt),
                      "%s collects %s instead of the version it tested" % (short(fn), src(fn, comp.elt)))
            conds = []
            for c in g.ifs:
                conds.extend(c.values if isinstance(c, ast.BoolOp) and isinstance(c.op, ast.And) else [c])
            facts = [(c, _count_vs_k(pv, n, c, True)) for c in conds]
            if not any(right(f) for (_c, f) in facts):
                report(comp, facts)
                continue
            for (c, f) in facts:
                if not right(f):
                    r.violation(fn, fn.loc(c), "%s leaves out versions by the further condition %s: a version with "
                                "its shares located is then neither recoverable nor unrecoverable for the reader"
                                % (short(fn), src(fn, c)))
        return

    # -- (a) a loop over the version map / over shares_available() that collects the versions passing the test
    cands = [n for n in cfg.nodes if n.kind == "iter" and isinstance(n.ast.target, (ast.Tuple, ast.List))
             and len(n.ast.target.elts) == 2]
    loops = [n for n in cands if source(n, n.ast.iter) is not None]
    if len(loops) != 1:
        if len(cands) == 1 and not loops:
            r.site(fn, cands[0].ast, what)
            raise _NotLoopShaped(fn, cands[0].ast, "%s does not iterate over the whole version map" % short(fn))
        raise AnchorVanished("%s: loop over the version map" % q)
    lp = loops[0]
    ret = _Returned(fn)
    adds = [(n, c) for n in cfg.nodes for c in ret.entry_calls(n, ("add",))]
    if not adds:
        raise AnchorVanished("%s no longer collects versions with .add" % q)
    pv.enter(lp, bind_target(lp.ast.target, source(lp, lp.ast.iter), lp.ast))
    for (n, c) in adds:
        r.site(fn, n.ast, what)
        r.require(len(c.args) == 1 and _core(pv.sym(n, c.args[0])) == _VER, fn, fn.loc(c),
                  "%s collects %s instead of the version it tested" % (short(fn), src(fn, c)))
    add_nodes = [n for (n, _c) in adds]

    def gate(a, lab):
        return a.kind == "test" and isinstance(lab, tuple) and right(_count_vs_k(pv, a, a.ast, lab[0] == "T"))
    bad = find_path_avoiding(cfg, lambda x: x in add_nodes, gate_edge=gate, kill=lambda m: m is lp)
    if bad:
        facts = [(a.ast, _count_vs_k(pv, a, a.ast, True)) for a in cfg.nodes if a.kind == "test"]
        for (t, w) in bad:
            report(t.ast, facts, w)


# ---- the survey's record of observed shares only grows (C11.5) ----------------------------------------
KNOWN = "_known_shares"
BAD = "_bad_shares"
_KS_READS = ("items", "keys", "values", "get", "copy", "setdefault", "update")      # none of these removes an entry
_KS_REMOVES = ("pop", "popitem", "clear")
_KS_BUILTIN_READS = _READ_ONLY + ("dict", "min", "max", "sum")


class _Parents:
    def __init__(self):
        self.maps = {}

    def of(self, fn, node):
        pm = self.maps.get(fn.qual)
        if pm is None:
            pm = self.maps[fn.qual] = {}
            for p_ in ast.walk(fn.node):
                for c_ in ast.iter_child_nodes(p_):
                    pm[id(c_)] = p_
        return pm.get(id(node))


def _dict_use(fn, nd, parents):
    """How the expression `nd`, which denotes the dict of known shares, is used -> (kind, node) with kind in
    read / remove / returned / alias / unknown."""
    par = parents.of(fn, nd)
    if isinstance(par, ast.Attribute) and par.value is nd:
        gp = parents.of(fn, par)
        if isinstance(gp, ast.Call) and gp.func is par:
            if par.attr in _KS_READS:
                return ("read", gp)
            if par.attr in _KS_REMOVES:
                return ("remove", gp)
        return ("unknown", gp if gp is not None else par)
    if isinstance(par, ast.Subscript) and par.value is nd:
        return ("remove", par) if isinstance(par.ctx, ast.Del) else ("read", par)
    if isinstance(par, ast.Call) and isinstance(par.func, ast.Name) and par.func.id in _KS_BUILTIN_READS \
            and any(a is nd for a in par.args):
        return ("read", par)
    if isinstance(par, (ast.For, ast.comprehension)) and par.iter is nd:
        return ("read", par)
    if isinstance(par, (ast.Compare, ast.BoolOp)) or (isinstance(par, ast.UnaryOp) and isinstance(par.op, ast.Not)):
        return ("read", par)
    if isinstance(par, (ast.If, ast.While, ast.IfExp, ast.Assert)) and par.test is nd:
        return ("read", par)
    if isinstance(par, ast.Return):
        return ("returned", par)
    if isinstance(par, ast.Assign) and par.value is nd and len(par.targets) == 1 and isinstance(par.targets[0], ast.Name):
        return ("alias", par)
    return ("unknown", par if par is not None else nd)


def _known_share_uses(idx, cg, r, parents):
    """Every way the package touches a servermap's _known_shares (directly, through a local alias, through an
    accessor that returns the dict).  -> [(fn, ast node)] of the places that can take an entry out."""
    removals = []
    seen_fn = set()

    def follow(fn, nd, depth):
        (kind, at) = _dict_use(fn, nd, parents)
        if kind == "read":
            return
        if kind == "remove":
            removals.append((fn, at))
            return
        if kind == "alias" and depth < 3:
            nm = at.targets[0].id
            if len(all_defs(fn).get(nm, [])) != 1 or nm in fn.params:
                raise AnalysisError("%s: '%s' is bound to the servermap's record of observed shares and to something "
                                    "else; this is not followed" % (fn.loc(at), nm))
            for x in ast.walk(fn.node):
                if isinstance(x, ast.Name) and x.id == nm and isinstance(x.ctx, (ast.Load, ast.Del)):
                    follow(fn, x, depth + 1)
            return
        if kind == "returned" and depth < 3 and fn.cls is not None and fn.name not in seen_fn:
            seen_fn.add(fn.name)
            r.site(fn, at, "accessor hands out the record of observed shares")
            if cg.refs_named(fn.name):
                raise AnalysisError("%s hands out the servermap's record of observed shares and is passed around as a "
                                    "value; its users cannot be followed" % short(fn))
            for cs in cg.calls_named(fn.name):
                r.site(cs.fn, cs.call, "user of the record of observed shares")
                follow(cs.fn, cs.call, depth + 1)
            return
        if kind == "returned" and fn.name in seen_fn:
            return
        raise AnalysisError("%s: the servermap's record of observed shares (%s) is used by %s; this is not followed"
                            % (fn.loc(at), KNOWN, src(fn, at)))

    for (fn, nd) in cg.refs_named(KNOWN):
        if isinstance(nd, ast.Attribute):
            follow(fn, nd, 0)
    return removals


def _whole_dict_copy(e):
    """X when `e` is X.copy() / dict(X) / copy.copy(X) / copy.deepcopy(X)"""
    if isinstance(e, ast.Call) and not e.keywords:
        if isinstance(e.func, ast.Attribute) and e.func.attr == "copy" and not e.args:
            return e.func.value
        if call_name(e) in ("dict", "copy.copy", "copy.deepcopy") and len(e.args) == 1 \
                and not isinstance(e.args[0], ast.Starred):
            return e.args[0]
    return None


def run(ctx: Context):
    idx = ctx.idx
    cg = get_callgraph(idx)
    shape = None

    def _need(what, *vals):
        if any(v is None for v in vals):
            raise AnalysisError("depends on %s, which could not be analysed" % what)

    # ---- 2. tuple shape (first: the other rules use the positions) ---------
    with ctx.rule("C11.2", "R5/R6", "verinfo tuples carry (seqnum, root hash) first in every producer; the best version "
                  "is the last of the sorted recoverable versions; recoverable means >= k distinct share numbers; a "
                  "read without a requested version takes best_recoverable_version()", expected=15) as r:
        shape = _verinfo_shape(idx, r)
        iSEQ, iK = shape["SEQ"], shape["K"]
        # the read proxy's seqnum is the header field the writers pack _seqnum into
        rpe = idx.func(RP + "._process_encoding_parameters")
        attr_of = {}
        for n in rpe.cfg().nodes:
            if n.kind == "stmt" and isinstance(n.ast, ast.Assign) and isinstance(n.ast.value, ast.Name):
                for t in n.ast.targets:
                    if attr_path(t):
                        attr_of.setdefault(n.ast.value.id, set()).add(attr_path(t))
        rslots = set()
        for (n, c) in _struct_calls(rpe, "unpack"):
            if isinstance(n.ast, ast.Assign) and isinstance(n.ast.targets[0], ast.Tuple) and len(n.ast.targets[0].elts) > 1:
                names = [t.id if isinstance(t, ast.Name) else None for t in n.ast.targets[0].elts]
                slot = [i for i, nm in enumerate(names) if "self._sequence_number" in attr_of.get(nm, ())]
                r.site(rpe, c, "header seqnum slot %s" % slot)
                r.require(len(slot) == 1, rpe, rpe.loc(c), "no header field is taken as the sequence number")
                rslots.update(slot)
        if not rslots:
            raise AnchorVanished("read proxy header unpacks not found")
        for q in (WP + ".get_signable", WP + ".get_checkstring", SW + ".get_signable"):
            fn = idx.func(q)
            for (n, c) in _struct_calls(fn, "pack"):
                slot = [i for i, a in enumerate(c.args[1:]) if norm_plain(a) == "self._seqnum"]
                r.site(fn, c, "writer seqnum slot %s" % slot)
                r.require(len(slot) == 1 and set(slot) == rslots, fn, fn.loc(c),
                          "%s packs its sequence number into field %s; the reader takes field %s as the sequence "
                          "number" % (short(fn), slot, sorted(rslots)))
        # best_recoverable_version
        bf = idx.func(SM + ".best_recoverable_version")
        bn = FlowNorm(bf)
        cfg = bf.cfg()
        RV = r"(self\.recoverable_versions\(\)|list\(self\.recoverable_versions\(\)\)|sorted\(self\.recoverable_versions\(\)\))"
        for n in cfg.nodes:
            if not is_return(n) or n.ast.value is None or (isinstance(n.ast.value, ast.Constant) and n.ast.value.value is None):
                continue
            r.site(bf, n.ast, "best version")
            v = n.ast.value
            form = bn.norm(n, v)
            if re.match(r"^max\(%s\)$" % RV, form) or re.match(r"^sorted\(%s\)\[\(-1\)\]$" % RV, form):
                continue
            # max(X, default=None): the greatest element == the last of sorted(X); None exactly when X is empty
            if isinstance(v, ast.Call) and call_name(v) == "max" and len(v.args) == 1 and len(v.keywords) == 1 \
                    and v.keywords[0].arg == "default" and isinstance(v.keywords[0].value, ast.Constant) \
                    and v.keywords[0].value.value is None and not isinstance(v.args[0], ast.Starred) \
                    and re.match(r"^%s$" % RV, bn.norm(n, v.args[0])):
                continue
            ok = isinstance(v, ast.Subscript) and isinstance(v.value, ast.Name) and bn.norm(n, v.slice) == "(-1)" \
                and re.match(r"^%s$" % RV, bn.norm(n, v.value)) is not None
            r.require(ok, bf, bf.loc(n.ast), "best_recoverable_version returns %s, not the last of the sorted "
                      "recoverable versions" % form)
            if ok:
                lst = v.value.id

                def plain_sort(m, _l=lst):
                    for c in calls_at(m, "sort"):
                        if attr_path(c.func.value) == _l and not c.args and not c.keywords:
                            return True
                    return False

                def reorders(m, _l=lst):
                    if _l in node_stores(m):
                        return True
                    for c in node_calls(m):
                        if isinstance(c.func, ast.Attribute) and attr_path(c.func.value) == _l \
                                and c.func.attr in ("reverse", "sort") and not plain_sort(m):
                            return True
                    return False
                for (t, w) in find_path_avoiding(cfg, lambda x, _n=n: x is _n, gate_node=plain_sort, kill=reorders):
                    r.violation(bf, bf.loc(t.ast), "the recoverable versions are not in ascending tuple order when the "
                                "last one is returned as the best (path: %s)" % w.brief(), w)
        # ... and "no best version" is answered only when there is no recoverable version at all
        bcfg = cfg

        def _none_result(m):
            if is_return(m):
                return m.ast.value is None or (isinstance(m.ast.value, ast.Constant) and m.ast.value.value is None)
            return m.kind not in ("entry", "exit", "raise") and not is_raise(m) and any(
                d == bcfg.exit.id and lab != "exc" for (d, lab) in bcfg.succ[m.id])

        def _known_empty(a, lab):
            if a.kind == "except":
                return True         # max() / [-1] of an empty collection raised
            f = bn.edge_fact(a, lab)
            if not f:
                return False
            op, x, y = f
            if op == "false":
                return re.match(r"^%s$" % RV, x or "") is not None
            ln = r"^len\(%s\)$" % RV
            if op == "==":
                return (x == "0" and re.match(ln, y or "")) or (y == "0" and re.match(ln, x or ""))
            if op == "<":
                return y == "1" and re.match(ln, x or "") is not None
            if op == "<=":
                return y == "0" and re.match(ln, x or "") is not None
            return False
        nones = [m for m in bcfg.nodes if _none_result(m)]
        for m in nones:
            r.site(bf, m.ast, "no best version")
        for (t, w) in find_path_avoiding(bcfg, _none_result, gate_edge=_known_empty):
            r.violation(bf, bf.loc(t.ast), "best_recoverable_version answers None although recoverable versions may "
                        "exist: a read then fails instead of returning the newest of them (path: %s)" % w.brief(), w)
        # recoverable / unrecoverable: k distinct share numbers
        kn = idx.func(SM + ".add_new_share")
        kps = first_positional_params(kn)
        # the key a share is entered under: the subscript of the self._known_shares[..] store (through any local)
        knn = FlowNorm(kn, depth=8)
        key_t = []
        for n in kn.cfg().nodes:
            if "self._known_shares[]" in node_stores(n) and isinstance(n.ast, ast.Assign):
                for t in n.ast.targets:
                    if isinstance(t, ast.Subscript) and attr_path(t.value) == "self._known_shares":
                        key_t.append(knn.resolve(n, t.slice))
        if len(key_t) != 1 or not isinstance(key_t[0], ast.Tuple):
            raise AnchorVanished("ServerMap.add_new_share key tuple")
        sh_in_key = [i for i, e in enumerate(key_t[0].elts) if attr_path(e) == "shnum"]
        mv = idx.func(SM + ".make_versionmap")
        sh_pos = None
        for lp in [n for n in mv.cfg().nodes if n.kind == "iter"]:
            tg = lp.ast.target
            if isinstance(tg, ast.Tuple) and isinstance(tg.elts[0], ast.Tuple) and len(sh_in_key) == 1:
                shname = attr_path(tg.elts[0].elts[sh_in_key[0]])
                for c in calls_in_func(mv, "add"):
                    if len(c.args) == 2 and isinstance(c.args[1], ast.Tuple):
                        ps = [i for i, e in enumerate(c.args[1].elts) if attr_path(e) == shname]
                        if len(ps) == 1:
                            sh_pos = ps[0]
        if sh_pos is None:
            raise AnchorVanished("make_versionmap: position of the share number in the per-version tuples")
        sh_len = None
        for lp in [n for n in mv.cfg().nodes if n.kind == "iter"]:
            for c in calls_in_func(mv, "add"):
                if len(c.args) == 2 and isinstance(c.args[1], ast.Tuple) and sh_pos < len(c.args[1].elts):
                    sh_len = len(c.args[1].elts)
        if sh_len is None:
            raise AnchorVanished("make_versionmap: shape of the per-version placement tuples")
        avail_memo = []

        def avail():
            if not avail_memo:
                avail_memo.append(_available_summary(idx, sh_pos, sh_len))
            return avail_memo[0]
        told = set()
        for q, want, what in ((SM + ".recoverable_versions", ">=", "recoverable"),
                              (SM + ".unrecoverable_versions", "<", "unrecoverable")):
            _recoverability(idx, r, q, want, what, iK, sh_pos, sh_len, avail, told, shape)
        # a read that names no version takes the best recoverable one
        gv = idx.func(MFN + "._get_version_from_servermap._get_version")
        gps = first_positional_params(gv)
        gvn = FlowNorm(gv)
        vals = {}
        for n in gv.cfg().nodes:
            v = assign_value(n, gps[1])
            if v is not None:
                vals[gvn.norm(n, v)] = n
        r.site(gv, None, "default read version %s" % sorted(vals))
        want = "%s.best_recoverable_version()" % gps[0]
        r.require(want in vals and set(vals) <= {want, "None"}, gv, gv.loc(),
                  "the version to read when none was requested is chosen from %s, not %s" % (sorted(vals), want))
        if want in vals:
            bad = find_path_avoiding(gv.cfg(), lambda x: x is vals[want],
                                     gate_edge=lambda a, lab: gvn.edge_fact(a, lab) in (("false", gps[1], None),
                                                                                       ("is", "None", gps[1])))
            for (t, w) in bad:
                r.violation(gv, gv.loc(t.ast), "a requested version is replaced by the best one", w)
        gb = idx.func(MFN + ".get_best_readable_version")
        for c in calls_in_func(gb, "get_readable_version"):
            r.site(gb, c, "best readable version")
            vq = kwarg(c, "version") or arg(c, 1)
            r.require(vq is None or (isinstance(vq, ast.Constant) and vq.value is None), gb, gb.loc(c),
                      "get_best_readable_version asks for the specific version %s" % src(gb, vq))

    # ---- 1. new sequence number -------------------------------------------
    with ctx.rule("C11.1", "R6/R4", "Publish._new_seqnum = servermap.highest_seqnum() + c (c >= 1), or a constant >= 1 "
                  "without a servermap; it alone feeds the writers' seqnum; highest_seqnum() is the unfiltered maximum "
                  "over all known versions; add_new_share() enters every share", expected=13) as r:
        _need("the verinfo shape of C11.2", shape)
        iSEQ = shape["SEQ"]
        allowed_fns = {"allmydata." + PUB + ".publish", "allmydata." + PUB + ".update"}
        for (f, nd) in cg.attr_stores("_new_seqnum"):
            if f.qual not in allowed_fns:
                r.violation(f, f.loc(nd), "%s re-binds _new_seqnum" % short(f))
        for q in sorted(allowed_fns):
            fn = idx.func(q)
            fnm = FlowNorm(fn, depth=8)
            cfg = fn.cfg()
            sts = [n for n in cfg.nodes if "self._new_seqnum" in node_stores(n)]
            if not sts:
                raise AnchorVanished("%s no longer chooses _new_seqnum" % q)
            for n in sts:
                r.site(fn, n.ast, "new seqnum")
                v = assign_value(n, "self._new_seqnum")
                if v is None:
                    r.violation(fn, fn.loc(n.ast), "_new_seqnum is updated by %s" % src(fn, n.ast))
                    continue
                try:
                    poly = fnm.at(n).poly(v)
                except Exception:
                    poly = None
                if poly is None:
                    r.violation(fn, fn.loc(n.ast), "_new_seqnum = %s" % src(fn, v))
                    continue
                c = poly.t.get((), 0)
                rest = {k: co for k, co in poly.t.items() if k != ()}
                if not rest:
                    r.require(c >= 1 and c.denominator == 1, fn, fn.loc(n.ast), "first sequence number is %s" % c)
                    bad = find_path_avoiding(cfg, lambda x, _n=n: x is _n, gate_edge=lambda a, lab: fnm.edge_fact(a, lab) in (
                        ("false", "self._servermap", None), ("is", "None", "self._servermap")),
                        kill=lambda m: "self._servermap" in node_stores(m))
                    for (t, w) in bad:
                        r.violation(fn, fn.loc(t.ast), "_new_seqnum is set to the constant %s although a servermap with "
                                    "observed versions may exist (path: %s)" % (c, w.brief()), w)
                else:
                    ok = rest == {("self._servermap.highest_seqnum()",): 1} and c >= 1 and c.denominator == 1
                    r.require(ok, fn, fn.loc(n.ast), "_new_seqnum = %s is not highest_seqnum() of the survey plus a "
                              "positive constant" % poly)
            # the value consulted is the caller's servermap: no re-binding of _servermap before the store
            for n in sts:
                if assign_value(n, "self._new_seqnum") is not None and \
                        "self._servermap.highest_seqnum()" in fnm.norm(n, assign_value(n, "self._new_seqnum")):
                    def rebinds(m):
                        return "self._servermap" in node_stores(m)
                    pre = [m for m in cfg.nodes if rebinds(m)]
                    for m in pre:
                        # a re-binding that can reach the store
                        visited, _p = explore(cfg, 0, lambda a, lab, nx, st: 0, start=m)
                        if any(i == n.id for (i, _s) in visited):
                            r.violation(fn, fn.loc(m.ast), "the servermap is replaced before its highest seqnum is read")
            # writers get it
            built = _writer_constructions(idx, fn, [idx.cls(WP), idx.cls(SW)])
            if not built:
                raise AnchorVanished("%s no longer builds its writers from a write-proxy class" % q)
            for (c, classes) in built:
                for ci in classes:
                    init = ci.lookup("__init__")
                    ps = first_positional_params(init)
                    seqp = [p for p in ps if any(assign_value(m, "self._seqnum") is not None
                                                 and attr_path(assign_value(m, "self._seqnum")) == p
                                                 for m in init.cfg().nodes)]
                    if len(seqp) != 1:
                        raise AnchorVanished("%s.__init__ no longer stores its seqnum parameter" % ci.name)
                    i = ps.index(seqp[0])
                    a = kwarg(c, seqp[0]) or (c.args[i] if i < len(c.args) else None)
                    r.site(fn, c, "seqnum -> %s" % ci.name)
                    r.require(a is not None and norm_plain(a) == "self._new_seqnum", fn, fn.loc(c),
                              "%s is created with sequence number %s" % (ci.name, src(fn, a) if a is not None else "nothing"))
        for q in (WP, SW):
            ci = idx.cls(q)
            n_st = 0
            for m in ci.methods.values():
                for n in m.cfg().nodes:
                    if "self._seqnum" in node_stores(n):
                        n_st += 1
                        r.site(m, n.ast, "_seqnum store")
                        r.require(m.name == "__init__", m, m.loc(n.ast), "%s changes the sequence number of a writer "
                                  "after construction" % short(m))
            if not n_st:
                raise AnchorVanished("%s._seqnum" % q)
        # highest_seqnum
        hs = idx.func(SM + ".highest_seqnum")
        hn = FlowNorm(hs)
        rets = [n for n in hs.cfg().nodes if is_return(n)]
        for n in rets:
            r.site(hs, n.ast, "highest seqnum")
            v = n.ast.value
            ok = isinstance(v, ast.Call) and call_name(v) == "max" and len(v.args) >= 1
            src_e = v.args[0] if ok else None
            if ok and isinstance(src_e, ast.Name):
                ds = [d for d in all_defs(hs).get(src_e.id, [])]
                ok = len(ds) == 1 and ds[0] is not None
                src_e = ds[0] if ok else None
            comp = src_e if isinstance(src_e, (ast.ListComp, ast.GeneratorExp, ast.SetComp)) else None
            ok = ok and comp is not None and len(comp.generators) == 1
            if ok:
                g = comp.generators[0]
                var = attr_path(g.target)
                at = _node_of(hs, comp)
                it = hn.norm(at, g.iter)
                ok = var is not None and not g.ifs and norm_plain(comp.elt) == "%s[%d]" % (var, iSEQ) \
                    and re.match(r"^self\.shares_available\(\)(\.keys\(\))?$", it) is not None
            if not ok:
                # not in that shape: decided by its symbolic value - the maximum seqnum over EVERY known version
                sv, _why = _sym_value(idx, "highest_seqnum", shape)
                if sv is not None and sv[0] == "maxseq":
                    _sym_problems(r)
                    r.require(sv[1] == W_ALL, hs, hs.loc(n.ast), "highest_seqnum() is the maximum seqnum of the versions "
                              "%s only: the next publish can re-use or fall below a sequence number the survey has seen"
                              % _C14._worlds_txt(sv[1]))
                    continue
            r.require(ok, hs, hs.loc(n.ast), "highest_seqnum() is %s, not the maximum of verinfo[%d] over every version "
                      "in shares_available()" % (src(hs, v), iSEQ))
        # shares_available / make_versionmap enter every version / share unconditionally
        for q, over in ((SM + ".shares_available", r"^(list\()?self\.make_versionmap\(\)\.items\(\)\)?$"),
                        (SM + ".make_versionmap", r"^(list\()?self\._known_shares\.items\(\)\)?$")):
            fn = idx.func(q)
            fnm = FlowNorm(fn, depth=8)
            cfg = fn.cfg()
            loops = [n for n in cfg.nodes if n.kind == "iter" and re.match(over, fnm.norm(n, n.ast.iter))]
            if len(loops) != 1:
                # e.g. shares_available() answered from a shared per-version helper: its symbolic value (computed from
                # self._known_shares; a filter on the shares themselves leaves it undecided) has an entry per version
                sv, _why = _sym_value(idx, fn.name, shape)
                if sv is not None and sv[0] in ("pv", "pvf"):
                    _sym_problems(r)
                    r.site(fn, None, "every version counted (symbolic evaluation)")
                    r.require(sv[0] == "pv", fn, fn.loc(), "%s has entries only for the versions %s (a filtered survey "
                              "makes highest_seqnum() miss versions the writer has seen)" % (
                                  short(fn), _C14._worlds_txt(sv[1]) if sv[0] == "pvf" else ""))
                    continue
                raise AnchorVanished("%s: loop over all versions / shares" % q)
            lp = loops[0]
            is_entry = _Returned(fn).is_entry      # an entry made in the dict the function returns
            r.site(fn, lp.ast, "every version counted")
            if not [m for m in cfg.nodes if is_entry(m)]:
                raise AnchorVanished("%s no longer records entries" % q)
            visited, parent = explore(cfg, 0, lambda a, lab, nx, st, _lp=lp, _e=is_entry: (
                None if lab == "exc" or (a is not _lp and _e(a)) or (a is _lp and lab != "iter") else 1), start=lp)
            back = [(i, s) for (i, s) in visited if i == lp.id and s == 1]
            for ps in back:
                r.violation(fn, fn.loc(lp.ast), "%s can skip a version / share (a filtered survey makes "
                            "highest_seqnum() miss versions the writer has seen)" % short(fn), witness(cfg, parent, ps))

        # every share handed to add_new_share() is entered in _known_shares, with its verinfo where
        # make_versionmap() reads it and under the key shape make_versionmap() takes apart
        with_mv = idx.func(SM + ".make_versionmap")
        mvn = FlowNorm(with_mv, depth=8)
        mv_loops = [n for n in with_mv.cfg().nodes if n.kind == "iter"
                    and re.match(r"^(list\()?self\._known_shares\.items\(\)\)?$", mvn.norm(n, n.ast.iter))]
        mv_ret = _Returned(with_mv)
        mv_adds = [c for n in with_mv.cfg().nodes for c in mv_ret.entry_calls(n) if c.args]
        if len(mv_loops) != 1 or len(mv_adds) != 1:
            raise AnchorVanished("make_versionmap: loop over _known_shares / versionmap.add")
        tg = mv_loops[0].ast.target
        if not (isinstance(tg, ast.Tuple) and len(tg.elts) == 2 and all(isinstance(e, ast.Tuple) for e in tg.elts)):
            raise AnchorVanished("make_versionmap no longer unpacks ((server, shnum), (verinfo, timestamp))")
        key_len, val_len = len(tg.elts[0].elts), len(tg.elts[1].elts)
        vpos = [i for i, e in enumerate(tg.elts[1].elts) if attr_path(e) is not None
                and attr_path(e) == attr_path(mv_adds[0].args[0])]
        if len(vpos) != 1:
            raise AnchorVanished("make_versionmap: the version a share is filed under is not a field of the "
                                 "_known_shares value")
        an = idx.func(SM + ".add_new_share")
        anm = FlowNorm(an, depth=8)
        acfg = an.cfg()
        aps = first_positional_params(an)
        st_nodes = [n for n in acfg.nodes if "self._known_shares[]" in node_stores(n)]

        def _enters(n):
            if n not in st_nodes or not isinstance(n.ast, ast.Assign):
                return False
            v = anm.resolve(n, n.ast.value)
            t = [x for x in n.ast.targets if isinstance(x, ast.Subscript)]
            k = anm.resolve(n, t[0].slice) if t else None
            return isinstance(v, ast.Tuple) and len(v.elts) == val_len and attr_path(v.elts[vpos[0]]) in aps \
                and isinstance(k, ast.Tuple) and len(k.elts) == key_len
        # which parameter is the version: the one the updater binds to the re-packed verinfo of the share it checked
        vparams = set()
        for cs in cg.calls_named("add_new_share"):
            if cs.fn.cls is None or cs.fn.cls.name != "ServermapUpdater":
                continue
            ccfg = cs.fn.cfg()
            at = _node_of(cs.fn, cs.call)
            rd = reaching_defs(ccfg).get(at.id, {})
            for i, p_ in enumerate(aps):
                a_ = arg(cs.call, i, p_)
                if isinstance(a_, ast.Name):
                    ds = [ccfg.nodes[d] for d in rd.get(a_.id, ()) if d >= 0]
                    vals = [assign_value(d, a_.id) for d in ds]
                    if ds and len(ds) == len(rd.get(a_.id, ())) and all(
                            isinstance(v, ast.Call) and call_name(v) == "self._make_verinfo_hashable" for v in vals):
                        vparams.add(p_)
                elif isinstance(a_, ast.Call) and call_name(a_) == "self._make_verinfo_hashable":
                    vparams.add(p_)
            r.site(cs.fn, cs.call, "survey records a share")
        if len(vparams) != 1:
            raise AnchorVanished("the servermap updater no longer hands the re-packed verinfo of a checked share to "
                                 "ServerMap.add_new_share (found %s)" % sorted(vparams))
        aps = sorted(vparams)
        r.site(an, st_nodes[0].ast if st_nodes else None, "share entered in the map")
        for n in st_nodes:
            r.require(_enters(n), an, an.loc(n.ast), "add_new_share stores %s: make_versionmap() expects a %d-field key and "
                      "the version (parameter '%s', which the updater binds to the verinfo) at field %d of a %d-field "
                      "value" % (src(an, n.ast), key_len, aps[0], vpos[0], val_len))
        lost = find_path_avoiding(acfg, lambda x: x.kind == "exit", gate_node=_enters, skip_exc_edges=True)
        for (t, w) in lost:
            r.violation(an, an.loc(), "add_new_share can return without entering the share in _known_shares: the "
                        "survey forgets a version it has seen, so highest_seqnum() and the recoverable versions miss it "
                        "(path: %s)" % w.brief(), w)

    # ---- 3. MODE_READ completion -------------------------------------------
    with ctx.rule("C11.3", "R1/E3", "ServermapUpdater._check_for_done in MODE_READ: _done() only with nothing left to "
                  "ask, or with quota met, a recoverable version, and no unrecoverable version of higher seqnum; with "
                  "a newer unrecoverable version (or none recoverable) it asks further servers", expected=5) as r:
        _need("the verinfo shape of C11.2", shape)
        iSEQ = shape["SEQ"]
        fn = idx.func(SMU + "._check_for_done")
        fnm = FlowNorm(fn, depth=8)
        cfg = fn.cfg()
        RECOV = r"self\._servermap\.recoverable_versions\(\)"
        HIGH = re.compile(r"^(max\((list\(|sorted\()?%s\)?\)\[%d\]|self\._servermap\.best_recoverable_version\(\)\[%d\]|"
                          r"max\(\[?\w+\[%d\] for \w+ in %s\]?\))$" % (RECOV, iSEQ, iSEQ, iSEQ, RECOV))
        UNREC = re.compile(r"^(list\(|sorted\()?self\._servermap\.unrecoverable_versions\(\)\)?$")
        loops = [n for n in cfg.nodes if n.kind == "iter" and UNREC.match(fnm.norm(n, n.ast.iter))]
        # ... or the question "is there an unrecoverable version newer than every recoverable one" is put to the
        # servermap: a test of self._servermap.unrecoverable_newer_versions(), whose symbolic value must keep every
        # version with distinct shares < k and seqnum above the highest recoverable seqnum
        NEWER = "self._servermap.unrecoverable_newer_versions()"
        newer_tests = [n for n in cfg.nodes if n.kind == "test" and any(
            (fnm.edge_fact(n, lab) or ("", ""))[0] in ("truth", "false") and (fnm.edge_fact(n, lab) or ("", ""))[1] == NEWER
            for (d, lab) in cfg.succ[n.id])]
        newer_ok = False
        if newer_tests:
            sv, why = _sym_value(idx, "unrecoverable_newer_versions", shape)
            if sv is None or sv[0] not in ("pv", "pvf"):
                raise AnalysisError("_check_for_done decides by unrecoverable_newer_versions(), whose value is not "
                                    "decided: %s" % (why or "not a dict keyed by version"))
            _sym_problems(r)
            unf = idx.func(SM + ".unrecoverable_newer_versions")
            keeps = W_ALL if sv[0] == "pv" else sv[1]
            newer_ok = (W_LT & W_NEWER) <= keeps
            r.site(unf, None, "newer unrecoverable versions (symbolic evaluation)")
            r.require(newer_ok, unf, unf.loc(), "unrecoverable_newer_versions() leaves out a version that has fewer than k "
                      "distinct shares and a seqnum above the highest recoverable one, and the MODE_READ completion test "
                      "relies on it: the update finishes although a newer version was seen")
        mode_tests = [n for n in cfg.nodes if n.kind == "test" and any(
            (fnm.edge_fact(n, lab) or ("",))[0] in ("==", "!=") and "MODE_READ" in (fnm.edge_fact(n, lab) or ())
            for (d, lab) in cfg.succ[n.id])]
        if not mode_tests:
            raise AnchorVanished("_check_for_done no longer tests for MODE_READ")

        infeasible = _mode_infeasible

        FIELDS = ("qe", "xe", "quota", "recov", "loop", "unchecked", "need", "sent", "wait", "done")
        need_edges = {}
        sends = [n for n in cfg.nodes if any(call_name(c) == "self._send_more_queries" for c in node_calls(n))]
        if not sends:
            raise AnchorVanished("_check_for_done no longer calls self._send_more_queries")

        def tr(a, lab, nx, st):
            f = fnm.edge_fact(a, lab)
            if infeasible(f):
                return None
            s = dict(zip(FIELDS, st))
            if f:
                op, x, y = f
                if op == "false" and x == "self._queries_outstanding":
                    s["qe"] = True
                if op == "false" and x == "self.extra_servers":
                    s["xe"] = True
                if op in ("<=", "<") and x == "self.num_servers_to_query" and y == "self._queries_completed":
                    s["quota"] = True
                if (op == "truth" and re.match(r"^%s$" % RECOV, x)) or \
                        (op == "is not" and "None" in (x, y) and "self._servermap.best_recoverable_version()" in (x, y)):
                    s["recov"] = True
                if op in ("<=", "<") and a.kind == "test":
                    for lp in loops:
                        var = attr_path(lp.ast.target)
                        if var and x == "%s[%d]" % (var, iSEQ) and HIGH.match(y or ""):
                            s["unchecked"] = False
                        if var and y == "%s[%d]" % (var, iSEQ) and HIGH.match(x or ""):
                            # evidence of a version newer than (or as new as) the best recoverable one
                            s["need"] = True
                            need_edges.setdefault((a.id, lab[0]), (a, "an unrecoverable version with a higher seqnum was seen"))
                if (op == "false" and re.match(r"^%s$" % RECOV, x)) or \
                        (op == "is" and "None" in (x, y) and "self._servermap.best_recoverable_version()" in (x, y)):
                    s["need"] = True
                    need_edges.setdefault((a.id, lab[0]), (a, "no version is recoverable yet"))
                if op == "truth" and x == "self._queries_outstanding":
                    s["wait"] = True
                if newer_ok and x == NEWER and a.kind == "test":
                    if op == "false":
                        s["loop"] = True        # every unrecoverable version examined: none is newer
                    elif op == "truth":
                        s["need"] = True
                        need_edges.setdefault((a.id, lab[0]), (a, "an unrecoverable version with a higher seqnum was seen"))
            if lab != "exc":
                for c in node_calls(a):
                    if call_name(c) == "self._send_more_queries":
                        s["sent"] = True
                    elif call_name(c) == "self._done":
                        s["done"] = True
            if a.kind == "iter" and a in loops:
                if lab == "iter":
                    s["unchecked"] = True
                elif lab == "done":
                    s["loop"] = True
            return tuple(s[k] for k in FIELDS)

        visited, parent = explore(cfg, (False,) * len(FIELDS), tr)
        r.count(len(visited))
        done_nodes = [n for n in cfg.nodes if any(call_name(c) == "self._done" for c in node_calls(n))]
        reach = {}
        for (i, st) in visited:
            reach.setdefault(i, []).append(st)
        n_done = 0
        for n in done_nodes:
            if n.id not in reach:
                continue
            n_done += 1
            r.site(fn, n.ast, "_done() reachable in MODE_READ")
            for st in reach[n.id]:
                s = dict(zip(FIELDS, st))
                if (s["qe"] and s["xe"]) or (s["quota"] and s["recov"] and s["loop"]):
                    continue
                missing = [lbl for k, lbl in (("quota", "query quota not met"), ("recov", "no recoverable version seen"),
                                              ("loop", "unrecoverable versions not examined")) if not s[k]]
                w = witness(cfg, parent, (n.id, st))
                r.violation(fn, fn.loc(n.ast), "MODE_READ update can finish although servers are left to ask: %s "
                            "(path: %s)" % (", ".join(missing), w.brief()), w)
                break
        if not n_done:
            raise AnchorVanished("no _done() reachable in MODE_READ")
        for n in newer_tests:
            r.site(fn, n.ast, "newer-version question put to the servermap")
        if not loops and not newer_tests:
            r.violation(fn, fn.loc(), "MODE_READ no longer examines the unrecoverable versions for a higher seqnum")
        for lp in loops:
            r.site(fn, lp.ast, "newer-version scan")
            for st in reach.get(lp.id, []):
                if dict(zip(FIELDS, st))["unchecked"]:
                    w = witness(cfg, parent, (lp.id, st))
                    r.violation(fn, fn.loc(lp.ast), "an unrecoverable version is passed over without finding its seqnum "
                                "<= the highest recoverable seqnum; a newer version must make the updater keep "
                                "querying (path: %s)" % w.brief(), w)
                    break
        # a newer version that cannot be recovered yet (or nothing recoverable at all) makes the updater ask further
        # servers: the function may not just return
        for (a, _why) in need_edges.values():
            r.site(fn, a.ast, "need-more decision")
        for st in reach.get(cfg.exit.id, []):
            s = dict(zip(FIELDS, st))
            if s["need"] and not (s["sent"] or s["wait"] or s["done"]):
                w = witness(cfg, parent, (cfg.exit.id, st))
                why = [wh for ((_i, l0), (a, wh)) in sorted(need_edges.items(), key=lambda kv: kv[0])
                       if any(pn is a and isinstance(_l, tuple) and _l[0] == l0 for (pn, _l) in w.path)]
                r.violation(fn, fn.loc(), "MODE_READ update returns without asking further servers (no "
                            "self._send_more_queries(..), no query outstanding) although %s (path: %s)"
                            % (" and ".join(why) or "more answers are needed", w.brief()), w)
                break
        for n in sends:
            if n.id not in reach:
                continue
            for c in node_calls(n):
                if call_name(c) == "self._send_more_queries":
                    a0 = arg(c, 0, "num_outstanding")
                    try:
                        k0 = int(fnm.norm(n, a0).strip("()")) if a0 is not None else None
                    except ValueError:
                        k0 = None
                    r.require(a0 is not None and (k0 is None or k0 >= 1), fn, fn.loc(c),
                              "self._send_more_queries(%s) keeps at most %s queries in flight: no further server is ever "
                              "asked" % (src(fn, a0) if a0 is not None else "", k0))
        # the updater runs in the mode the reader asked for
        ui = idx.func(SMU + ".__init__")
        ok = any(assign_value(n, "self.mode") is not None and attr_path(assign_value(n, "self.mode")) == "mode"
                 for n in ui.cfg().nodes)
        r.require(ok, ui, ui.loc(), "ServermapUpdater no longer keeps the requested mode")
        for (f, nd) in cg.attr_stores("mode"):
            if f.cls is not None and f.cls.name == "ServermapUpdater" and f.name != "__init__":
                r.violation(f, f.loc(nd), "%s changes the update mode" % short(f))

    # ---- 4. no server falls out of the survey unasked --------------------------
    with ctx.rule("C11.4", "R1/R6", "ServermapUpdater: the pool of servers still to be asked starts as the whole server "
                  "list; every server that leaves it is passed to _do_query (directly, or through a collection that is "
                  "drained by a loop / method / caller that queries each element); a queried server is registered in "
                  "_queries_outstanding, which is not re-bound once queries are in flight", expected=9) as r:
        ucls = idx.cls(SMU)
        dq = idx.func(SMU + "._do_query")
        qps = first_positional_params(dq)
        if not qps:
            raise AnchorVanished("ServermapUpdater._do_query no longer takes the server to ask")
        qparam = qps[0]
        todo = _pool_references(idx, cg, ucls, r)
        pf = _PoolFlow(idx, cg, r, ucls, qparam)
        for q in sorted(todo):
            pf.analyse(todo[q])
        pf.emit()
        r.count(pf.n_states)
        if not any(k[0] == "init" for ss in pf.sites.values() for k in ss):
            raise AnchorVanished("the pool of servers still to be asked (%s) is never bound" % POOL)
        # the "nobody left to ask" test of _check_for_done reads: no query outstanding and the pool empty.  A server
        # that left the pool must therefore be in _queries_outstanding until its answer has been processed.
        OUT = "self._queries_outstanding"
        r.require(qparam not in {s for n in dq.cfg().nodes for s in node_stores(n)}, dq, dq.loc(),
                  "_do_query re-binds '%s', the server it was asked to query" % qparam)

        def _names(c, i, nm, who):
            a_ = arg(c, i, who)
            return isinstance(a_, ast.Name) and a_.id == nm

        reads = [n for n in dq.cfg().nodes if any(call_name(c) == "self._do_read" and _names(c, 0, qparam, "server")
                                                  for c in node_calls(n))]
        if not reads:
            raise AnchorVanished("_do_query no longer reads from the server through self._do_read(%s, ..)" % qparam)
        r.site(dq, reads[0].ast, "query sent")
        unreg = find_path_avoiding(dq.cfg(), lambda x: x in reads, gate_node=lambda n: any(
            call_name(c) == OUT + ".add" and _names(c, 0, qparam, None) for c in node_calls(n)), skip_exc_edges=True)
        if not unreg:
            r.site(dq, None, "queried server registered as outstanding")
        else:
            # ... or every caller registers it before the call
            n_cs = 0
            for cs in cg.calls_named(dq.name):
                if call_name(cs.call) != QUERY or cs.fn.cls is None or not any(c is ucls for c in cs.fn.cls.mro()):
                    continue
                n_cs += 1
                a0 = arg(cs.call, 0, qparam)
                at = _node_of(cs.fn, cs.call)
                r.site(cs.fn, cs.call, "queried server registered as outstanding by the caller")
                if not isinstance(a0, ast.Name):
                    r.violation(cs.fn, cs.fn.loc(cs.call), "the server queried by %s is registered in %s neither by "
                                "_do_query nor here" % (src(cs.fn, cs.call), OUT))
                    continue
                for (t, w) in find_path_avoiding(cs.fn.cfg(), lambda x, _at=at: x is _at, gate_node=lambda n, _nm=a0.id: any(
                        call_name(c) == OUT + ".add" and _names(c, 0, _nm, None) for c in node_calls(n)),
                        kill=lambda m, _nm=a0.id, _at=at: m is not _at and _nm in node_stores(m), skip_exc_edges=True):
                    r.violation(cs.fn, cs.fn.loc(cs.call), "a query is sent to '%s' without registering it in %s (neither "
                                "_do_query nor this caller does): while its answer is pending the updater can find no "
                                "query outstanding and no server left, and finish (path: %s)" % (a0.id, OUT, w.brief()), w)
            if not n_cs:
                raise AnchorVanished("nothing calls %s" % QUERY)
        for (f, nd) in cg.attr_stores(OUT.split(".")[-1]):
            if f.cls is None or not any(c is ucls for c in f.cls.mro()) or attr_path(nd) != OUT:
                continue
            at = _node_of(f, nd)
            r.site(f, at.ast, "outstanding set bound")
            before_queries = f.name in ("__init__", "update")
            if not before_queries:
                callers = [cs for cs in cg.calls_named(f.name) if call_name(cs.call) == "self." + f.name]
                passed = [1 for (_f2, n2) in cg.refs_named(f.name) if attr_path(n2) == "self." + f.name]
                before_queries = bool(callers) and not passed and all(cs.fn.name == "update" and cs.fn.cls is f.cls
                                                                      for cs in callers)
            r.require(before_queries, f, f.loc(at.ast), "%s re-binds %s, and it can run while queries are in flight: "
                      "the servers being asked are forgotten, so the updater can find nothing outstanding and finish "
                      "before their answers arrive" % (short(f), OUT))
            sent = [n for n in f.cfg().nodes if any(call_name(c) in (QUERY, OUT + ".add") for c in node_calls(n))]
            for s in sent:
                visited, _p = explore(f.cfg(), 0, lambda a, lab, nx, st: None if lab == "exc" else 0, start=s)
                if any(i == at.id for (i, _s) in visited) and s is not at:
                    r.violation(f, f.loc(at.ast), "%s is re-bound after %s: the servers already being asked are "
                                "forgotten" % (OUT, src(f, s.ast)))
                    break

    # ---- 5. what a survey has observed is not forgotten ---------------------------------
    with ctx.rule("C11.5", "R6", "ServerMap._known_shares only grows: an entry is taken out only where the same key is "
                  "filed as a bad share, the dict is bound only empty in __init__ or as a whole copy into a fresh map, and "
                  "the failure handlers of a share query reach no code that removes entries", expected=10) as r:
        parents = _Parents()
        smc = idx.cls(SM)
        ucls = idx.cls(SMU)
        removals = _known_share_uses(idx, cg, r, parents)
        forgetful = {}                # qual -> (fn, what it does)
        # (a) a single entry leaves only together with its registration as a bad share, under the same key
        for (fn, at) in removals:
            forgetful[fn.qual] = (fn, "removes entries (%s)" % src(fn, at))
            r.site(fn, at, "entry removed")
            key = base = None
            if isinstance(at, ast.Subscript):
                key, base = at.slice, at.value
            elif isinstance(at, ast.Call) and at.func.attr == "pop" and at.args and not isinstance(at.args[0], ast.Starred):
                key, base = at.args[0], at.func.value
            holder = attr_path(base.value) if isinstance(base, ast.Attribute) and base.attr == KNOWN else None
            ok = key is not None and holder is not None and not isinstance(key, ast.Slice)
            if ok:
                fnm = FlowNorm(fn, depth=8)
                rm = _node_of(fn, at)
                want = fnm.norm(rm, key)

                def files(n, _f=fnm, _w=want, _h=holder):
                    return isinstance(n.ast, ast.Assign) and any(
                        isinstance(t, ast.Subscript) and attr_path(t.value) == "%s.%s" % (_h, BAD)
                        and _f.norm(n, t.slice) == _w for t in n.ast.targets)
                ok = not find_path_avoiding(fn.cfg(), lambda x, _rm=rm: x is _rm, gate_node=files, skip_exc_edges=True) \
                    or not find_path_from_to_avoiding(fn.cfg(), lambda x, _rm=rm: x is _rm, files)
            how = ("del " if isinstance(at, ast.Subscript) else "") + src(fn, at)
            r.require(ok, fn, fn.loc(at), "%s takes entries out of the servermap's record of observed shares by %s without "
                      "filing the same key as a bad share: the versions seen on those shares drop out of "
                      "highest_seqnum() (and of the recoverable / unrecoverable versions), so the next publish can "
                      "re-use a sequence number its survey had observed" % (short(fn), how))
        # (b) the dict itself is bound only empty at construction, or as a whole copy into a map built on the spot
        n_bound = 0
        for (fn, nd) in cg.attr_stores(KNOWN):
            if not isinstance(nd, ast.Attribute):
                continue
            n_bound += 1
            par = parents.of(fn, nd)
            r.site(fn, par if par is not None else nd, "record of observed shares bound")
            v = par.value if isinstance(par, (ast.Assign, ast.AnnAssign)) and isinstance(nd.ctx, ast.Store) else None
            ok = False
            if v is not None:
                empty = (isinstance(v, ast.Dict) and not v.keys) or \
                    (isinstance(v, ast.Call) and call_name(v) == "dict" and not v.args and not v.keywords)
                srcd = _whole_dict_copy(v)
                if empty:
                    ok = fn.name == "__init__" and attr_path(nd) == "self." + KNOWN
                elif isinstance(srcd, ast.Attribute) and srcd.attr == KNOWN and isinstance(nd.value, ast.Name):
                    defs = all_defs(fn).get(nd.value.id, [])
                    ok = len(defs) == 1 and isinstance(defs[0], ast.Call) and nd.value.id not in fn.params \
                        and isinstance(idx.resolve_expr(fn.module, defs[0].func), ClassInfo)
            if not ok:
                forgetful[fn.qual] = (fn, "re-binds the record (%s)" % src(fn, par if par is not None else nd))
            r.require(ok, fn, fn.loc(par if par is not None else nd), "%s binds the servermap's record of observed "
                      "shares by %s: whatever earlier surveys observed is forgotten (or shared between two maps), so "
                      "highest_seqnum() can fall below a sequence number that was seen"
                      % (short(fn), src(fn, par if par is not None else nd)))
        if not n_bound:
            raise AnchorVanished("ServerMap.%s is never bound" % KNOWN)
        # (c) a query that fails says nothing about the shares of that server: its failure handlers reach no code
        #     that takes entries out (an unreachable server's shares stay observed)
        dq = idx.func(SMU + "._do_query")
        qvars = set()
        for n in dq.cfg().nodes:
            if isinstance(n.ast, ast.Assign) and isinstance(n.ast.value, ast.Call) and len(n.ast.targets) == 1 \
                    and isinstance(n.ast.targets[0], ast.Name) and any(
                        call_name(c) == "self._do_read" for c in ast.walk(n.ast.value) if isinstance(c, ast.Call)):
                qvars.add(n.ast.targets[0].id)
        if len(qvars) != 1:
            raise AnchorVanished("_do_query no longer keeps the Deferred of self._do_read(..) in one local")
        handlers = []
        for reg in registrations(dq, sorted(qvars)[0]):
            t = reg.target if reg.kind in ("eb", "both") else (reg.errtarget if reg.kind == "pair" else None)
            if t is None:
                continue
            h = None
            p_ = attr_path(t)
            if p_ and p_.startswith("self.") and p_.count(".") == 1:
                h = ucls.lookup(p_.split(".")[1])
                if h is None:
                    raise AnalysisError("%s: failure handler %s of the share query cannot be resolved" % (dq.loc(t), p_))
            elif isinstance(t, ast.Lambda):
                h = idx.lambda_func(dq, t)
            elif isinstance(t, ast.Name) and t.id in dq.nested:
                h = dq.nested[t.id]
            if h is not None:
                handlers.append((reg, h))
                r.site(dq, reg.call, "failure handler of a share query")
        if not handlers:
            raise AnchorVanished("the share query of _do_query has no failure handler of the updater")

        def reached(f0):
            seen, todo = {}, [(f0, (f0,))]
            while todo:
                f, chain = todo.pop()
                if f.qual in seen or len(chain) > 8:
                    continue
                seen[f.qual] = chain
                for x in ast.walk(f.node):
                    if not isinstance(x, ast.Call):
                        continue
                    nm, tgt = call_name(x), None
                    if nm.startswith("self.") and nm.count(".") == 1 and f.cls is not None:
                        tgt = f.cls.lookup(call_tail(x))
                    elif nm.startswith("self._servermap.") and nm.count(".") == 2 and f.cls is not None \
                            and any(c is ucls for c in f.cls.mro()):
                        tgt = smc.lookup(call_tail(x))
                    elif isinstance(x.func, ast.Name):
                        p2 = f
                        while p2 is not None and tgt is None:
                            tgt = p2.nested.get(x.func.id)
                            p2 = p2.parent
                    if tgt is not None:
                        todo.append((tgt, chain + (tgt,)))
            return seen
        for (reg, h) in handlers:
            seen = reached(h)
            for q in sorted(seen):
                if q in forgetful:
                    (g, does) = forgetful[q]
                    r.violation(h, h.loc(), "a share query that fails (handler %s registered in _do_query) reaches %s, "
                                "which %s: a server that merely stops answering makes the servermap forget the versions "
                                "an earlier survey saw on it, so highest_seqnum() can fall below an observed sequence "
                                "number and the next publish re-uses it (call chain: %s)"
                                % (short(h), short(g), does, " -> ".join(short(c) for c in seen[q])))
